"""Translator A for C18: the ORDER SOURCES of pydoctor, from the AST of the working tree.

An *order source* is an expression whose iteration order is not a function of the inputs of a run:
    SrcRootNames   `<x>.root_names`                     (System.root_names is a set comprehension)
    SrcSetExpr     `set(...)`, `frozenset(...)`, `{a, b}`, `{x for ...}`, set operators / set methods on one of these
    SrcSetName     a load of a name / attribute that holds a set (assigned from a set expression, or annotated
                   Set/MutableSet/FrozenSet/AbstractSet/set/frozenset; attributes are tracked by attribute name
                   across all scanned files, locals and parameters per function, module globals per file)
    SrcListing     `<p>.iterdir()`, `os.listdir(..)`, `os.scandir(..)`, `os.walk(..)`, `<p>.glob(..)`, `<p>.rglob(..)`
For every occurrence (a *site*) the translator prints the syntactic CONTEXT that consumes it (it does NOT decide
whether that context is order free: `order_free` in Model/DetTypes.v does, and `order_sources_checked` in Props/C18.v
evaluates it on this table):
    CtxSorted k      first argument of sorted(...); k = the shape of key= (KeyNone, KeyLckey = `_lckey`, KeyAttrName =
                     `lambda k: k.name`, KeyLowerSelf = `lambda x: (x.lower(), x)`, KeyOrderFunc = *_order_func /
                     objects_order / self._order, KeyOther)
    CtxLen, CtxMember (`x in S`), CtxTruth (`if S`), CtxAnyAll (any/all over it), CtxSetEq (== / != another set)
    CtxEqSingleton   `list(S) == [e]`
    CtxFirstLen1     `list(S)[0]` inside `if len(S) == 1:`        CtxPopLen1   `S.pop()` inside `if len(S) == 1:`
    CtxMutate        S.add / update / discard / remove / clear     CtxDefine    being bound to a tracked name / returned
                                                                                 by the `root_names` property
    CtxToSet         converted to a set again (set(S), {.. for x in S})        CtxSetOp   operand of | & - ^ / set method
                     (the RESULT of S.union/intersection/difference/symmetric_difference/copy and of | & - ^ is itself
                      listed as a SrcSetExpr site with the context that consumes it)
    CtxPassTracked   passed to a function of the same file whose parameter is annotated as a set
    CtxIterate       iterated: for / comprehension / list() / tuple() / join() / * / extend() / iter() / unguarded pop()
    CtxEscapeCall    passed to any other callable
Fail-closed: any other parent shape raises "unrecognised shape" with file:line.

Also printed: the key functions `_lckey`, `alphabetical_order_func`, `source_order_func`, `_map_kind` as component
lists (the model INTERPRETS these lists), DocumentableKind / PrivacyClass values, importlib's suffix lists as pydoctor
sees them, and the process-global counters (class attributes incremented in __init__) of the page classes."""
from __future__ import annotations
import ast, importlib.machinery, os
from pathlib import Path

REPO = Path(os.environ.get('PYTHONPATH', '/repo').split(':')[0])

def _all_files() -> list:
    base = REPO / 'pydoctor'
    out = []
    for p in sorted(base.rglob('*.py')):
        rel = p.relative_to(base).as_posix()
        if rel.startswith('test/') or '/test/' in rel or rel.startswith('epydoc/sre_'):
            continue
        out.append(rel)
    return out


FILES_ANCHORED = [
    'driver.py', 'model.py', 'linker.py', 'sphinx.py', 'astutils.py', 'utils.py', 'epydoc2stan.py',
    'templatewriter/__init__.py', 'templatewriter/util.py', 'templatewriter/summary.py', 'templatewriter/search.py',
    'templatewriter/writer.py', 'templatewriter/pages/__init__.py', 'templatewriter/pages/table.py',
    'templatewriter/pages/sidebar.py', 'templatewriter/pages/attributechild.py', 'templatewriter/pages/functionchild.py',
    'extensions/__init__.py', 'themes/__init__.py', 'epydoc/markup/__init__.py',
]
# functions named in Props/C18.v as reviewed escapes: the translator only guarantees they exist and prints their ids
NAMED_FUNCS = [
    ('extensions/__init__.py', '_importlib_resources_contents'),
    ('themes/__init__.py', 'get_themes'),
    ('epydoc/markup/__init__.py', 'get_supported_docformats'),
]
SET_ANN = ('Set', 'MutableSet', 'FrozenSet', 'AbstractSet', 'set', 'frozenset')
SET_METHODS_MUT = {'add', 'update', 'discard', 'remove', 'clear', 'difference_update', 'intersection_update'}
SET_METHODS_RET = {'union', 'intersection', 'difference', 'symmetric_difference', 'copy'}
SET_METHODS_OP = {'union', 'intersection', 'difference', 'symmetric_difference', 'copy', 'issubset', 'issuperset',
                  'isdisjoint'}
LISTING_ATTRS = {'iterdir', 'listdir', 'scandir', 'glob', 'rglob', 'walk'}


def _root_names_is_set() -> bool:
    """the MEANING of System.root_names, asked of the live class: a set (unordered) or something ordered?"""
    from pydoctor import model
    v = model.System().root_names
    return isinstance(v, (set, frozenset)) or not isinstance(v, (list, tuple))


ROOT_NAMES_IS_SET = True


class Shape(ValueError):
    pass


def ann_is_set(a) -> bool:
    if a is None:
        return False
    if isinstance(a, ast.Constant) and isinstance(a.value, str):
        try:
            a = ast.parse(a.value, mode='eval').body
        except SyntaxError:
            return False
    if isinstance(a, ast.Subscript):
        a = a.value
    if isinstance(a, ast.Attribute):
        return a.attr in SET_ANN
    return isinstance(a, ast.Name) and a.id in SET_ANN


class FileScan:
    def __init__(self, rel: str, tree: ast.Module, set_attrs: set, set_returning: set):
        self.rel, self.tree = rel, tree
        self.set_attrs = set_attrs          # attribute names holding sets (global over the scanned files)
        self.set_returning = set_returning  # attribute/function names whose VALUE is a set (root_names)
        self.parent: dict = {}
        self.func_of: dict = {}
        self.sites: list = []
        self.param_ann: dict = {}           # function name -> list of (argname, is_set)
        self.globals_set: set = set()
        for node in ast.walk(tree):
            for ch in ast.iter_child_nodes(node):
                self.parent[ch] = node

    # ---------------------------------------------------------------- scopes
    def qual(self, node) -> str:
        names = []
        p = node
        while p is not None:
            if isinstance(p, (ast.FunctionDef, ast.AsyncFunctionDef, ast.ClassDef)):
                names.append(p.name)
            p = self.parent.get(p)
        return '.'.join(reversed(names)) or '<module>'

    def enclosing_func(self, node):
        p = self.parent.get(node)
        while p is not None and not isinstance(p, (ast.FunctionDef, ast.AsyncFunctionDef, ast.Lambda)):
            p = self.parent.get(p)
        return p

    def in_annotation(self, node) -> bool:
        p, ch = self.parent.get(node), node
        while p is not None:
            if isinstance(p, ast.AnnAssign) and ch is p.annotation:
                return True
            if isinstance(p, ast.arg) and ch is p.annotation:
                return True
            if isinstance(p, (ast.FunctionDef, ast.AsyncFunctionDef)) and ch is p.returns:
                return True
            p, ch = self.parent.get(p), p
        return False

    def derived_set(self, e, names: set) -> bool:
        """set-valued by syntax, OR built from a known set by set algebra: S.union/intersection/difference/
        symmetric_difference/copy(...), S | T, S & T, S - T, S ^ T, a conditional between such"""
        if self.syntactic_set(e):
            return True
        if isinstance(e, ast.Name):
            return e.id in names or e.id in self.globals_set
        if isinstance(e, ast.Attribute):
            return e.attr in self.set_attrs
        if isinstance(e, ast.Call) and isinstance(e.func, ast.Attribute) and e.func.attr in SET_METHODS_RET:
            return self.derived_set(e.func.value, names)
        if isinstance(e, ast.BinOp) and isinstance(e.op, (ast.BitOr, ast.BitAnd, ast.Sub, ast.BitXor)):
            return self.derived_set(e.left, names) or self.derived_set(e.right, names)
        if isinstance(e, ast.IfExp):
            return self.derived_set(e.body, names) or self.derived_set(e.orelse, names)
        return False

    def local_sets(self, fn) -> set:
        """names bound to sets inside the function `fn` (or at module level when fn is None); fixpoint over
        assignments from set algebra on names already known"""
        out = self.local_sets_once(fn, set())
        while True:
            nxt = self.local_sets_once(fn, out)
            if nxt == out:
                return out
            out = nxt

    def local_sets_once(self, fn, known: set) -> set:
        out = set(known)
        body = fn if fn is not None else self.tree
        if fn is not None and not isinstance(fn, ast.Lambda):
            a = fn.args
            for arg in a.posonlyargs + a.args + a.kwonlyargs + [x for x in (a.vararg, a.kwarg) if x]:
                if ann_is_set(arg.annotation):
                    out.add(arg.arg)
        for node in ast.walk(body):
            if isinstance(node, (ast.FunctionDef, ast.AsyncFunctionDef, ast.Lambda)) and node is not body:
                continue
            if isinstance(node, ast.AnnAssign) and isinstance(node.target, ast.Name):
                if ann_is_set(node.annotation) or (node.value is not None and self.derived_set(node.value, known)):
                    if self.enclosing_func(node) is fn:
                        out.add(node.target.id)
            if isinstance(node, ast.Assign) and self.derived_set(node.value, known):
                for t in node.targets:
                    if isinstance(t, ast.Name) and self.enclosing_func(node) is fn:
                        out.add(t.id)
        return out

    def syntactic_set(self, e) -> bool:
        """set-valued by its own syntax (no name tracking)"""
        if isinstance(e, (ast.Set, ast.SetComp)):
            return True
        if isinstance(e, ast.Call) and isinstance(e.func, ast.Name) and e.func.id in ('set', 'frozenset'):
            return True
        if isinstance(e, ast.Attribute) and e.attr in self.set_returning:
            return True
        return False

    # ---------------------------------------------------------------- collecting attribute-level sets (pass 1)
    def collect_attrs(self) -> None:
        for node in ast.walk(self.tree):
            tgt = val = ann = None
            if isinstance(node, ast.AnnAssign):
                tgt, val, ann = node.target, node.value, node.annotation
            elif isinstance(node, ast.Assign) and len(node.targets) == 1:
                tgt, val = node.targets[0], node.value
            else:
                continue
            is_set = ann_is_set(ann) or (val is not None and self.syntactic_set(val))
            if not is_set:
                continue
            if isinstance(tgt, ast.Attribute):
                self.set_attrs.add(tgt.attr)
            elif isinstance(tgt, ast.Name):
                p = self.parent.get(node)
                if isinstance(p, ast.ClassDef):
                    self.set_attrs.add(tgt.id)       # class-level attribute
                elif isinstance(p, ast.Module):
                    self.globals_set.add(tgt.id)
        for node in ast.walk(self.tree):
            if isinstance(node, (ast.FunctionDef, ast.AsyncFunctionDef)):
                a = node.args
                self.param_ann[node.name] = [(x.arg, ann_is_set(x.annotation)) for x in a.posonlyargs + a.args]
                # a function/property that returns a set expression makes its name set-valued
                for sub in ast.walk(node):
                    if isinstance(sub, ast.Return) and sub.value is not None and self.enclosing_func(sub) is node \
                            and isinstance(sub.value, (ast.Set, ast.SetComp)) or (
                                isinstance(sub, ast.Return) and isinstance(sub.value, ast.Call)
                                and isinstance(sub.value.func, ast.Name) and sub.value.func.id in ('set', 'frozenset')
                                and self.enclosing_func(sub) is node):
                        self.set_returning.add(node.name)

    # ---------------------------------------------------------------- sites (pass 2)
    def is_tracked_load(self, node, locs: set) -> bool:
        if isinstance(node, ast.Name) and isinstance(node.ctx, ast.Load):
            return node.id in locs or (node.id in self.globals_set)
        if isinstance(node, ast.Attribute) and isinstance(node.ctx, ast.Load):
            return node.attr in self.set_attrs
        return False

    def is_listing(self, node) -> bool:
        if not isinstance(node, ast.Call):
            return False
        f = node.func
        if isinstance(f, ast.Attribute) and f.attr in LISTING_ATTRS:
            if f.attr == 'walk':          # only os.walk (docutils' node.walk(visitor) is not a listing)
                return isinstance(f.value, ast.Name) and f.value.id == 'os'
            return True
        return isinstance(f, ast.Name) and f.id in ('listdir', 'scandir')

    # ---------------------------------------------------------------- sequence variables
    def is_order_source(self, e, locs: set, seqnames: set) -> bool:
        if self.is_listing(e) or self.derived_set(e, locs):
            return True
        if isinstance(e, ast.Attribute) and e.attr == 'root_names' and ROOT_NAMES_IS_SET:
            return True
        return isinstance(e, ast.Name) and e.id in seqnames

    def seq_value_source(self, v, locs: set, seqnames: set):
        """if `v` is an UNORDERED SEQUENCE built from an order source -- list(S), tuple(S), [.. for x in S ..], (.. for x in S),
        or a listing iterator itself -- return S"""
        if isinstance(v, ast.Call) and isinstance(v.func, ast.Name) and v.func.id in ('list', 'tuple') and len(v.args) == 1 \
                and not v.keywords:
            inner = v.args[0]
            if isinstance(inner, (ast.GeneratorExp, ast.ListComp)):
                inner = inner.generators[0].iter
            return inner if self.is_order_source(inner, locs, seqnames) else None
        if isinstance(v, (ast.ListComp, ast.GeneratorExp)):
            inner = v.generators[0].iter
            return inner if self.is_order_source(inner, locs, seqnames) else None
        if self.is_listing(v):
            return v
        return None

    @staticmethod
    def pos(n) -> tuple:
        return (n.lineno, n.col_offset)

    def seq_vars(self, fn, locs: set) -> list:
        """[(name, from_pos, to_pos, src)]: inside `fn` the loads of `name` between the two positions denote a sequence in
        unspecified order.  Tracking starts at `name = list(S)` (etc.) and ends at the first statement OF THE SAME BLOCK that
        sorts it in place (`name.sort(..)`, still listed, as CtxSorted) or rebinds it."""
        body = fn if fn is not None else self.tree
        out = []
        seqnames: set = set()
        assigns = []
        for node in ast.walk(body):
            if isinstance(node, (ast.Assign, ast.AnnAssign)) and self.enclosing_func(node) is fn:
                tg = node.targets if isinstance(node, ast.Assign) else [node.target]
                if len(tg) == 1 and isinstance(tg[0], ast.Name) and node.value is not None:
                    assigns.append(node)
        assigns.sort(key=self.pos)
        for node in assigns:
            tg = node.targets[0] if isinstance(node, ast.Assign) else node.target
            srcx = self.seq_value_source(node.value, locs, seqnames)
            if srcx is None:
                continue
            name = tg.id
            seqnames.add(name)
            block = None
            par = self.parent.get(node)
            for fld in ('body', 'orelse', 'finalbody'):
                lst = getattr(par, fld, None)
                if isinstance(lst, list) and node in lst:
                    block = lst
            end = (10 ** 9, 0)
            if block is not None:
                for st in block[block.index(node) + 1:]:
                    is_sort = (isinstance(st, ast.Expr) and isinstance(st.value, ast.Call) and isinstance(st.value.func, ast.Attribute)
                               and st.value.func.attr == 'sort' and isinstance(st.value.func.value, ast.Name)
                               and st.value.func.value.id == name)
                    rebinds = isinstance(st, (ast.Assign, ast.AnnAssign, ast.AugAssign)) and any(
                        isinstance(t, ast.Name) and t.id == name
                        for t in (st.targets if isinstance(st, ast.Assign) else [st.target]))
                    if is_sort or rebinds:
                        end = (st.end_lineno, st.end_col_offset)
                        break
            kind = 'SrcListing' if (self.is_listing(srcx) or (isinstance(srcx, ast.Name) and any(
                o[0] == srcx.id and o[3] == 'SrcListing' for o in out))) else 'SrcSetName'
            out.append((name, (node.end_lineno, node.end_col_offset), end, kind))
        return out

    def scan(self) -> None:
        loc_cache: dict = {}
        seq_cache: dict = {}
        for node in ast.walk(self.tree):
            if self.in_annotation(node):
                continue
            fn = self.enclosing_func(node)
            if fn not in loc_cache:
                loc_cache[fn] = self.local_sets(fn)
                # closures see the enclosing function's sets as well
                up = self.enclosing_func(fn) if fn is not None else None
                while up is not None:
                    loc_cache[fn] = loc_cache[fn] | self.local_sets(up)
                    up = self.enclosing_func(up)
            locs = loc_cache[fn]
            if fn not in seq_cache:
                seq_cache[fn] = self.seq_vars(fn, locs)
            self.cur_seq = seq_cache[fn]
            src = None
            if isinstance(node, ast.Attribute) and node.attr == 'root_names' and isinstance(node.ctx, ast.Load):
                src = 'SrcRootNames' if ROOT_NAMES_IS_SET else None
            elif isinstance(node, ast.Attribute) and node.attr in self.set_returning and isinstance(node.ctx, ast.Load):
                src = 'SrcRootNames'
            elif self.syntactic_set(node):
                src = 'SrcSetExpr'
            elif isinstance(node, (ast.Call, ast.BinOp, ast.IfExp)) and self.derived_set(node, locs):
                src = 'SrcSetExpr'          # the RESULT of set algebra is a set again: S.difference(T), S | T ...
            elif self.is_listing(node):
                src = 'SrcListing'
            elif self.is_tracked_load(node, locs):
                # `S.add` etc: the Attribute node S.add is not itself a load of a set attribute
                src = 'SrcSetName'
            elif isinstance(node, ast.Name) and isinstance(node.ctx, ast.Load):
                for name, a, b, kind in self.cur_seq:
                    if node.id == name and a <= self.pos(node) < b:
                        src = kind
            if src is None:
                continue
            ctx = self.context(node, locs)
            if ctx is None:
                continue
            self.sites.append((self.rel, node.lineno, self.qual(node), src, ctx, ast.unparse(node)[:60]))

    @staticmethod
    def norm_cond(t, positive: bool = True) -> list:
        """a condition as a list of normalised atoms that all hold: `not not X` -> X, `A and B` -> both (when positive),
        `not (A or B)` -> not A, not B; comparisons with the constant on the left are turned round; `not a == b` -> a != b"""
        if isinstance(t, ast.UnaryOp) and isinstance(t.op, ast.Not):
            return FileScan.norm_cond(t.operand, not positive)
        if isinstance(t, ast.BoolOp):
            if (isinstance(t.op, ast.And) and positive) or (isinstance(t.op, ast.Or) and not positive):
                return [a for v in t.values for a in FileScan.norm_cond(v, positive)]
            return []
        if isinstance(t, ast.Compare) and len(t.ops) == 1:
            l, r, op = t.left, t.comparators[0], t.ops[0]
            flip = {ast.Lt: ast.Gt, ast.Gt: ast.Lt, ast.LtE: ast.GtE, ast.GtE: ast.LtE}
            if isinstance(l, ast.Constant) and not isinstance(r, ast.Constant) and not isinstance(op, (ast.In, ast.NotIn, ast.Is, ast.IsNot)):
                l, r = r, l
                op = flip.get(type(op), type(op))()
            neg = {ast.Eq: ast.NotEq, ast.NotEq: ast.Eq, ast.Lt: ast.GtE, ast.GtE: ast.Lt, ast.Gt: ast.LtE, ast.LtE: ast.Gt,
                   ast.Is: ast.IsNot, ast.IsNot: ast.Is, ast.In: ast.NotIn, ast.NotIn: ast.In}
            if not positive:
                op = neg[type(op)]()
            sym = {ast.Eq: '==', ast.NotEq: '!=', ast.Lt: '<', ast.GtE: '>=', ast.Gt: '>', ast.LtE: '<=', ast.Is: 'is',
                   ast.IsNot: 'is not', ast.In: 'in', ast.NotIn: 'not in'}[type(op)]
            return ['%s %s %s' % (ast.unparse(l), sym, ast.unparse(r))]
        return [('' if positive else 'not ') + ast.unparse(t)]

    def guards_of(self, node) -> list:
        """normalised conditions known to hold where `node` is evaluated: tests of the enclosing `if`s (negated in the else
        branch), and the negations of earlier guard clauses of the enclosing blocks (`if T: return / continue / raise / break`)"""
        out = []
        p, ch = self.parent.get(node), node
        while p is not None and not isinstance(p, (ast.FunctionDef, ast.AsyncFunctionDef, ast.Lambda, ast.ClassDef, ast.Module)):
            if isinstance(p, (ast.If, ast.IfExp)):
                body = p.body if isinstance(p.body, list) else [p.body]
                orelse = p.orelse if isinstance(p.orelse, list) else [p.orelse]
                if ch in body:
                    out += self.norm_cond(p.test, True)
                elif ch in orelse:
                    out += self.norm_cond(p.test, False)
            for fld in ('body', 'orelse', 'finalbody'):
                lst = getattr(p, fld, None)
                if isinstance(lst, list) and ch in lst:
                    for st in lst[:lst.index(ch)]:
                        if isinstance(st, ast.If) and not st.orelse and st.body and \
                                isinstance(st.body[-1], (ast.Return, ast.Continue, ast.Raise, ast.Break)):
                            out += self.norm_cond(st.test, False)
            p, ch = self.parent.get(p), p
        if isinstance(p, (ast.FunctionDef, ast.AsyncFunctionDef)) and ch in p.body:
            for st in p.body[:p.body.index(ch)]:
                if isinstance(st, ast.If) and not st.orelse and st.body and isinstance(st.body[-1], (ast.Return, ast.Raise)):
                    out += self.norm_cond(st.test, False)
        return out

    def guard_len1(self, node, s_text: str) -> bool:
        """does `len(<s_text>) == 1` hold where `node` is evaluated?"""
        return ('len(%s) == 1' % s_text) in self.guards_of(node)

    def bound_to_seq_var(self, value) -> bool:
        """is the expression `value` the right-hand side of an assignment that starts a tracked sequence variable?"""
        p = self.parent.get(value)
        if isinstance(p, (ast.Assign, ast.AnnAssign)) and p.value is value:
            tg = p.targets if isinstance(p, ast.Assign) else [p.target]
            if len(tg) == 1 and isinstance(tg[0], ast.Name):
                return any(name == tg[0].id and a == (p.end_lineno, p.end_col_offset) for name, a, b, kind in self.cur_seq)
        return False

    def key_kind(self, call: ast.Call) -> str:
        key = None
        for kw in call.keywords:
            if kw.arg == 'key':
                key = kw.value
            elif kw.arg != 'reverse':
                raise Shape('unrecognised shape: sorted(... %s=) at %s:%d' % (kw.arg, self.rel, call.lineno))
        want_args = 0 if (isinstance(call.func, ast.Attribute) and call.func.attr == 'sort') else 1
        if len(call.args) != want_args:
            raise Shape('unrecognised shape: sort with %d positional args at %s:%d' % (len(call.args), self.rel, call.lineno))
        if key is None:
            return 'KeyNone'
        if ast.unparse(key) in ("attrgetter('name')", "operator.attrgetter('name')"):
            return 'KeyAttrName'
        if isinstance(key, ast.Name) and key.id == '_lckey':
            return 'KeyLckey'
        if isinstance(key, ast.Lambda) and len(key.args.args) == 1:
            a = key.args.args[0].arg
            b = key.body
            if isinstance(b, ast.Attribute) and b.attr == 'name' and isinstance(b.value, ast.Name) and b.value.id == a:
                return 'KeyAttrName'
            if (isinstance(b, ast.Tuple) and len(b.elts) == 2 and ast.unparse(b.elts[0]) == a + '.lower()'
                    and isinstance(b.elts[1], ast.Name) and b.elts[1].id == a):
                return 'KeyLowerSelf'
            return 'KeyOther'
        txt = ast.unparse(key)
        if txt.endswith('_order_func') or txt.startswith('objects_order(') or txt.startswith('util.objects_order(') \
                or txt in ('self._order', 'order'):
            return 'KeyOrderFunc'
        return 'KeyOther'

    def context(self, node, locs: set):
        p = self.parent.get(node)
        where = '%s:%d' % (self.rel, node.lineno)
        s_text = ast.unparse(node)
        # ---- definitions
        if isinstance(p, (ast.Assign, ast.AnnAssign)) and node is p.value:
            tgts = p.targets if isinstance(p, ast.Assign) else [p.target]
            if all(isinstance(t, (ast.Name, ast.Attribute)) for t in tgts):
                return 'CtxDefine'
            if len(tgts) == 1 and isinstance(tgts[0], (ast.Tuple, ast.List)) and len(tgts[0].elts) == 1 \
                    and not isinstance(tgts[0].elts[0], ast.Starred):
                return 'CtxFirstLen1'        # (x,) = S : raises unless S has exactly one element
            raise Shape('unrecognised shape: set bound to %s at %s' % (ast.dump(tgts[0])[:40], where))
        if isinstance(p, ast.Return):
            f = self.enclosing_func(node)
            if f is not None and getattr(f, 'name', None) in self.set_returning:
                return 'CtxDefine'
            raise Shape('unrecognised shape: a set is returned from %s at %s' % (self.qual(node), where))
        # ---- method call on the set: S.add(...)
        if isinstance(p, ast.Attribute) and node is p.value:
            gp = self.parent.get(p)
            if isinstance(gp, ast.Call) and gp.func is p:
                if p.attr in SET_METHODS_MUT:
                    return 'CtxMutate'
                if p.attr in SET_METHODS_OP:
                    return 'CtxSetOp'
                if p.attr == 'pop':
                    return 'CtxPopLen1' if self.guard_len1(node, s_text) else 'CtxIterate'
                if p.attr == '__contains__':
                    return 'CtxMember'
                if p.attr in LISTING_ATTRS:
                    return None          # `x.iterdir` of a listing call handled at the Call node
                if p.attr == 'sort':
                    return 'CtxSorted ' + self.key_kind(gp)       # seq.sort(key=..): in place, same as sorted()
                if p.attr in ('append', 'insert', 'remove', 'clear'):
                    return 'CtxMutate'
                if p.attr in ('count', 'index') and p.attr == 'count':
                    return 'CtxMember'
            raise Shape('unrecognised shape: attribute .%s of a set at %s' % (p.attr, where))
        # ---- argument of a call
        if isinstance(p, ast.Call) and node in p.args:
            f = p.func
            if isinstance(f, ast.Name):
                if f.id == 'sorted' and node is p.args[0]:
                    return 'CtxSorted ' + self.key_kind(p)
                if f.id == 'len':
                    return 'CtxLen'
                if f.id in ('any', 'all'):
                    return 'CtxAnyAll'
                if f.id in ('set', 'frozenset'):
                    return 'CtxToSet'
                if f.id == 'bool':
                    return 'CtxTruth'
                if f.id in ('list', 'tuple'):
                    gp = self.parent.get(p)
                    if self.bound_to_seq_var(p):
                        return 'CtxDefine'       # name = list(S): the loads of `name` are listed as sites of their own
                    if isinstance(gp, ast.Call) and isinstance(gp.func, ast.Name) and gp.func.id == 'sorted' and gp.args \
                            and gp.args[0] is p:
                        return 'CtxSorted ' + self.key_kind(gp)
                    if (isinstance(gp, ast.Compare) and gp.left is p and len(gp.ops) == 1 and isinstance(gp.ops[0], (ast.Eq, ast.NotEq))
                            and isinstance(gp.comparators[0], ast.List) and len(gp.comparators[0].elts) == 1):
                        return 'CtxEqSingleton'
                    if (isinstance(gp, ast.Subscript) and gp.value is p and isinstance(gp.slice, ast.Constant)
                            and gp.slice.value == 0 and self.guard_len1(node, s_text)):
                        return 'CtxFirstLen1'
                    return 'CtxIterate'
                if f.id == 'iter':
                    gp = self.parent.get(p)
                    if isinstance(gp, ast.Call) and isinstance(gp.func, ast.Name) and gp.func.id == 'next' and len(gp.args) == 1 \
                            and self.guard_len1(node, s_text):
                        return 'CtxFirstLen1'    # next(iter(S)) where len(S) == 1
                    return 'CtxIterate'
                if f.id in ('next', 'enumerate', 'zip', 'map', 'filter', 'reversed', 'min', 'max', 'sum'):
                    return 'CtxIterate'
                # a function of this file whose parameter is annotated as a set
                if f.id in self.param_ann:
                    i = p.args.index(node)
                    pa = self.param_ann[f.id]
                    if i < len(pa) and pa[i][1]:
                        return 'CtxPassTracked'
                return 'CtxEscapeCall'
            if isinstance(f, ast.Attribute):
                if f.attr in ('join', 'extend'):
                    return 'CtxIterate'
                if f.attr in SET_METHODS_OP or f.attr in SET_METHODS_MUT:
                    return 'CtxSetOp'            # S2.update(S) / S2.union(S): set in, set out
                return 'CtxEscapeCall'
            return 'CtxEscapeCall'
        if isinstance(p, ast.keyword):
            return 'CtxEscapeCall'
        # ---- comparisons
        if isinstance(p, ast.Compare):
            ops = p.ops
            operands = [p.left] + list(p.comparators)
            i = operands.index(node)
            if i > 0 and isinstance(ops[i - 1], (ast.In, ast.NotIn)):
                return 'CtxMember'
            if len(ops) == 1 and isinstance(ops[0], (ast.Is, ast.IsNot)):
                return 'CtxTruth'            # S is None / S is not None
            if len(ops) == 1 and isinstance(ops[0], (ast.Eq, ast.NotEq)):
                other = operands[1 - i]
                if self.syntactic_set(other) or self.is_tracked_load(other, locs):
                    return 'CtxSetEq'
            raise Shape('unrecognised shape: comparison %s at %s' % (ast.unparse(p)[:60], where))
        # ---- iteration
        if isinstance(p, (ast.For, ast.AsyncFor)) and node is p.iter:
            return 'CtxIterate'
        if isinstance(p, ast.comprehension) and node is p.iter:
            comp = self.parent.get(p)
            if isinstance(comp, ast.SetComp):
                return 'CtxToSet'
            first = comp.generators[0] is p if hasattr(comp, 'generators') else False
            if isinstance(comp, (ast.GeneratorExp, ast.ListComp)):
                gp = self.parent.get(comp)
                if isinstance(gp, ast.Call) and isinstance(gp.func, ast.Name) and comp in gp.args:
                    if gp.func.id in ('any', 'all'):
                        return 'CtxAnyAll'
                    if gp.func.id in ('set', 'frozenset'):
                        return 'CtxToSet'
                    if gp.func.id == 'sorted' and gp.args[0] is comp and first:
                        return 'CtxSorted ' + self.key_kind(gp)      # sorted(f(x) for x in S)
                    if gp.func.id in ('list', 'tuple') and first:
                        ggp = self.parent.get(gp)
                        if self.bound_to_seq_var(gp):
                            return 'CtxDefine'
                        if isinstance(ggp, ast.Call) and isinstance(ggp.func, ast.Name) and ggp.func.id == 'sorted' \
                                and ggp.args and ggp.args[0] is gp:
                            return 'CtxSorted ' + self.key_kind(ggp)
                if first and self.bound_to_seq_var(comp):
                    return 'CtxDefine'
            return 'CtxIterate'
        if isinstance(p, (ast.Starred, ast.FormattedValue, ast.Subscript)):
            return 'CtxIterate'
        if isinstance(p, (ast.YieldFrom,)):
            return 'CtxIterate'
        # ---- truthiness
        if isinstance(p, (ast.If, ast.While, ast.IfExp)) and node is p.test:
            return 'CtxTruth'
        if isinstance(p, ast.IfExp):
            return 'CtxSetOp'            # a branch of a conditional: the conditional is listed as a site itself
        if isinstance(p, ast.BoolOp) or (isinstance(p, ast.UnaryOp) and isinstance(p.op, ast.Not)):
            return 'CtxTruth'
        if isinstance(p, ast.BinOp) and isinstance(p.op, (ast.BitOr, ast.BitAnd, ast.Sub, ast.BitXor)):
            return 'CtxSetOp'
        if isinstance(p, ast.Expr):
            return 'CtxTruth'            # a bare expression statement: value discarded
        if isinstance(p, ast.With) or isinstance(p, ast.withitem):
            return 'CtxIterate'          # with os.scandir(..) as it: conservatively an iteration
        raise Shape('unrecognised shape: %s is used by a %s at %s' % (s_text[:40], type(p).__name__, where))


# -------------------------------------------------------------------------------- key functions (by MEANING)
PROBE_SRC = '''
"""Probe module."""
import zlib
CONST = 1
"""doc"""
lower_var = 2
class Alpha:
    """A."""
    attr = 1
    def run(self): pass
    def Run(self): pass
    def _hidden(self): pass
    @classmethod
    def cm(cls): pass
    @staticmethod
    def sm(): pass
    @property
    def prop(self): return 1
    class Inner:
        x = 1
class alpha(Alpha):
    def run(self): pass
class _Private:
    def zz(self): pass
class Err(Exception):
    pass
def func(): pass
def Func(): pass
def _pfunc(): pass
'''


def probe_objects() -> list:
    """real Documentables of a small system: modules, packages, classes, functions, attributes, private ones, names that
    differ only in case, several line numbers"""
    from pydoctor import model
    system = model.System()
    b = system.systemBuilder(system)
    b.addModuleString('"""pkg"""\nfrom .Mod import Alpha\n', 'Pk', is_package=True)
    b.addModuleString(PROBE_SRC, 'Mod', parent_name='Pk')
    b.addModuleString('x = 1\n', '_priv', parent_name='Pk')
    b.addModuleString('"""sub"""\n', 'sub', parent_name='Pk', is_package=True)
    b.addModuleString(PROBE_SRC, 'mod')
    b.buildModules()
    objs = list(system.allobjects.values())
    if len(objs) < 40:
        raise Shape('probe system too small (%d objects)' % len(objs))
    return objs


def learn_key(fn, objs: list, where: str) -> tuple:
    """the tuple `fn(o)` explained position by position by one of the key components, for all probe objects.
    Returns (components, kind map learnt from the KNegKindMapped position)."""
    from pydoctor import model
    rows = [fn(o) for o in objs]
    if not rows or not all(isinstance(r, tuple) and len(r) == len(rows[0]) for r in rows):
        raise Shape('unrecognised shape: %s does not return tuples of one length' % where)
    simple = {
        'KNegPrivacy': lambda o: -o.privacyClass.value,
        'KLowerFullName': lambda o: o.fullName().lower(),
        'KFullName': lambda o: o.fullName(),
        'KLineno': lambda o: o.linenumber,
    }
    comps = []
    kmap: dict = {}
    for i in range(len(rows[0])):
        col = [r[i] for r in rows]
        hit = [name for name, f in simple.items() if all(f(o) == v for o, v in zip(objs, col))]
        if len(hit) == 1:
            comps.append(hit[0])
            continue
        if len(hit) > 1:
            raise Shape('ambiguous sort key component %d of %s: %s (probe set too poor)' % (i, where, hit))
        # a function of the kind only: -(some kind).value, 0 for no kind  -> learn the kind map by setting every kind
        cand = [x for x in objs if isinstance(x, model.Attribute)]
        if not cand:
            cand = objs
        o = cand[0]
        saved = o.kind
        learnt = {}
        try:
            for k in model.DocumentableKind:
                o.kind = k
                v = fn(o)[i]
                back = [k2 for k2 in model.DocumentableKind if -k2.value == v]
                if len(back) != 1:
                    raise Shape('unrecognised shape: sort key component %d of %s is not minus a kind value' % (i, where))
                learnt[k] = back[0]
            o.kind = None
            if fn(o)[i] != 0:
                raise Shape('unrecognised shape: sort key component %d of %s for an object without kind is not 0' % (i, where))
        finally:
            o.kind = saved
        if not all((-(learnt[x.kind].value) if x.kind else 0) == v for x, v in zip(objs, col)):
            raise Shape('unrecognised shape: sort key component %d of %s' % (i, where))
        comps.append('KNegKindMapped')
        kmap = {k.name: v.name for k, v in learnt.items() if k is not v}
    return comps, kmap


def key_functions() -> dict:
    from pydoctor import model
    from pydoctor.templatewriter import util, summary
    objs = probe_objects()
    mods = [o for o in objs if isinstance(o, model.Module)]
    others = [o for o in objs if not isinstance(o, model.Module)]
    out = {}
    for attr_, mod_ in (('_lckey', summary), ('alphabetical_order_func', util), ('source_order_func', util), ('objects_order', util)):
        if not callable(getattr(mod_, attr_, None)):
            raise Shape('%s.%s not found (renamed?)' % (mod_.__name__, attr_))
    out['lckey_def'], _ = learn_key(summary._lckey, objs, 'summary._lckey')
    out['alphabetical_def'], km1 = learn_key(util.alphabetical_order_func, objs, 'util.alphabetical_order_func')
    out['source_module_def'], km2 = learn_key(util.source_order_func, mods, 'util.source_order_func[modules]')
    out['source_other_def'], km3 = learn_key(util.source_order_func, others, 'util.source_order_func[others]')
    if not (km1 == km2 == km3):
        raise Shape('unrecognised shape: the order functions map kinds differently: %r %r %r' % (km1, km2, km3))
    # objects_order(order) hands out exactly these two functions (compared by behaviour, not by identity)
    for order, ref in (('alphabetical', util.alphabetical_order_func), ('source', util.source_order_func)):
        f = util.objects_order(order)
        if not all(f(o) == ref(o) for o in objs):
            raise Shape('unrecognised shape: objects_order(%r) is not %s' % (order, ref.__name__))
    out['map_kind'] = sorted(km1.items())
    return out


def counters() -> list:
    """class attributes initialised to 0 that __init__ increments through the CLASS (Cls.X += 1, Cls.X = Cls.X + 1,
    type(self).X += 1, self.__class__.X += 1) and then copies into the instance"""
    res = []
    for rel in ('templatewriter/pages/table.py', 'templatewriter/pages/sidebar.py'):
        tree = ast.parse((REPO / 'pydoctor' / rel).read_text())
        for cls in [n for n in tree.body if isinstance(n, ast.ClassDef)]:
            zeros = [t.id for st in cls.body if isinstance(st, (ast.Assign, ast.AnnAssign)) and isinstance(st.value, ast.Constant)
                     and st.value.value == 0 for t in (st.targets if isinstance(st, ast.Assign) else [st.target])
                     if isinstance(t, ast.Name)]
            init = [f for f in cls.body if isinstance(f, ast.FunctionDef) and f.name == '__init__']
            for z in zeros:
                if not init:
                    continue
                refs = ['%s.%s' % (c, z) for c in (cls.name, 'type(self)', 'self.__class__')]
                inc_pos = cp_pos = None
                for st in ast.walk(init[0]):
                    if isinstance(st, ast.AugAssign) and ast.unparse(st.target) in refs and isinstance(st.op, ast.Add) \
                            and ast.unparse(st.value) == '1':
                        inc_pos = (st.lineno, st.col_offset)
                    elif isinstance(st, ast.Assign) and ast.unparse(st.targets[-1]) in refs and any(
                            ast.unparse(st.value) in ('%s + 1' % r, '1 + %s' % r) for r in refs):
                        inc_pos = (st.lineno, st.col_offset)
                        if len(st.targets) > 1:          # self._id = Cls.X = Cls.X + 1
                            cp_pos = (st.lineno, st.col_offset + 1)
                    elif isinstance(st, ast.Assign) and isinstance(st.targets[0], ast.Attribute) \
                            and ast.unparse(st.targets[0].value) == 'self' and ast.unparse(st.value) in refs + ['self.' + z]:
                        cp_pos = (st.lineno, st.col_offset)
                if inc_pos and cp_pos:
                    if inc_pos > cp_pos:
                        raise Shape('unrecognised shape: counter %s.%s copied before the increment' % (cls.name, z))
                    res.append((rel, cls.name, z))
                elif inc_pos or cp_pos:
                    raise Shape('unrecognised shape: counter %s.%s in %s' % (cls.name, z, rel))
    if len(res) != 2:
        raise Shape('unrecognised shape: page counters are %r (the model has two: one for child tables, one for sidebar items)'
                    % ([(c, z) for _, c, z in res],))
    return res


def write_modes(scans) -> list:
    """every open(...) / <path>.open(...) of the scanned files whose mode creates or modifies a file"""
    res = []
    for sc in scans:
        for node in ast.walk(sc.tree):
            if not isinstance(node, ast.Call):
                continue
            f = node.func
            if isinstance(f, ast.Name) and f.id == 'open':
                mode = node.args[1] if len(node.args) > 1 else None
            elif isinstance(f, ast.Attribute) and f.attr == 'open':
                mode = node.args[0] if node.args else None
            else:
                continue
            for kw in node.keywords:
                if kw.arg == 'mode':
                    mode = kw.value
            if mode is None:
                continue                       # default 'r'
            if not (isinstance(mode, ast.Constant) and isinstance(mode.value, str)):
                # e.g. webbrowser.open(url): first argument is not a mode; only a str constant is a mode
                if isinstance(f, ast.Attribute) and not (isinstance(mode, ast.Constant)):
                    continue
                raise Shape('unrecognised shape: open() with a computed mode at %s:%d' % (sc.rel, node.lineno))
            m = mode.value
            if not any(c in m for c in 'wax+'):
                continue
            kind = 'WTrunc' if ('w' in m and 'a' not in m and 'x' not in m) else ('WAppend' if 'a' in m else ('WExcl' if 'x' in m else 'WUpdate'))
            res.append((sc.rel, node.lineno, kind, m))
    # the pages, the static files, the search index and the inventory are written somewhere: an (almost) empty table means the
    # translator no longer sees how (wherever the calls live now; Path.write_bytes / write_text truncate by definition)
    nwrite = len([n for sc in scans for n in ast.walk(sc.tree) if isinstance(n, ast.Call) and isinstance(n.func, ast.Attribute)
                  and n.func.attr in ('write_bytes', 'write_text')])
    if len(res) + nwrite < 4:
        raise Shape('expected at least 4 places that write a file in pydoctor, found %d' % (len(res) + nwrite))
    return res


def relink_shape(scans) -> bool:
    """the compat symlink `<x>.symlink_to('index.html')`: the same path is unlinked before, tolerating its absence
    (try/except FileNotFoundError: pass, unlink(missing_ok=True), contextlib.suppress(FileNotFoundError))"""
    found = False
    for sc in scans:
        for node in ast.walk(sc.tree):
            if not (isinstance(node, ast.Call) and isinstance(node.func, ast.Attribute) and node.func.attr == 'symlink_to'):
                continue
            if not (len(node.args) == 1 and isinstance(node.args[0], ast.Constant) and node.args[0].value == 'index.html'):
                raise Shape('unrecognised shape: symlink_to(%s) at %s:%d' % (ast.unparse(node.args[0]) if node.args else '', sc.rel, node.lineno))
            recv = ast.unparse(node.func.value)
            fn = sc.enclosing_func(node)
            ok = False
            for u in ast.walk(fn):
                if isinstance(u, ast.Call) and isinstance(u.func, ast.Attribute) and u.func.attr == 'unlink' \
                        and ast.unparse(u.func.value) == recv and (u.lineno, u.col_offset) < (node.lineno, node.col_offset):
                    if any(kw.arg == 'missing_ok' and isinstance(kw.value, ast.Constant) and kw.value.value is True for kw in u.keywords):
                        ok = True
                    q, ch = sc.parent.get(u), u
                    while q is not None and q is not fn:
                        if isinstance(q, ast.Try) and ch in q.body and any(
                                h.type is not None and 'FileNotFoundError' in ast.unparse(h.type)
                                and all(isinstance(b, ast.Pass) for b in h.body) for h in q.handlers):
                            ok = True
                        if isinstance(q, ast.With) and any('suppress(FileNotFoundError)' in ast.unparse(it.context_expr) for it in q.items):
                            ok = True
                        q, ch = sc.parent.get(q), q
            if not ok:
                raise Shape('unrecognised shape: %s.symlink_to(\'index.html\') at %s:%d is not preceded by an unlink of the same path '
                            'that tolerates its absence' % (recv, sc.rel, node.lineno))
            found = True
    if not found:
        raise Shape('unrecognised shape: no symlink_to(\'index.html\') found (the compat symlink of a single root module)')
    return True


def page_unlink_shape(scans) -> bool:
    """writer._writeDocsFor: the page is opened through a local P and, before, `if P.is_symlink(): P.unlink()` runs in the
    same block (so the page is never written through a link left at its name)"""
    sc = [x for x in scans if x.rel == 'templatewriter/writer.py'][0]
    fns = [n for n in ast.walk(sc.tree) if isinstance(n, ast.FunctionDef) and n.name == '_writeDocsFor']
    if len(fns) != 1:
        raise Shape('TemplateWriter._writeDocsFor not found exactly once')
    opens = [n for n in ast.walk(fns[0]) if isinstance(n, ast.Call) and isinstance(n.func, ast.Attribute) and n.func.attr == 'open'
             and n.args and isinstance(n.args[0], ast.Constant) and n.args[0].value in ('wb', 'w')]
    if len(opens) != 1:
        raise Shape('unrecognised shape: _writeDocsFor opens %d files for writing' % len(opens))
    recv = opens[0].func.value
    if not isinstance(recv, ast.Name):
        return False
    # the enclosing statement of the open and its preceding siblings
    st = opens[0]
    while not isinstance(sc.parent.get(st), (ast.If, ast.For, ast.While, ast.FunctionDef, ast.With, ast.Try)) or isinstance(st, ast.expr) \
            or isinstance(st, ast.withitem):
        st = sc.parent.get(st)
    par = sc.parent.get(st)
    for fld in ('body', 'orelse', 'finalbody'):
        lst = getattr(par, fld, None)
        if isinstance(lst, list) and st in lst:
            for prev in lst[:lst.index(st)]:
                if isinstance(prev, ast.If) and not prev.orelse and ast.unparse(prev.test) == '%s.is_symlink()' % recv.id \
                        and [ast.unparse(x) for x in prev.body] == ['%s.unlink()' % recv.id]:
                    return True
    return False


CLOCK_CALLS = ('time.time', 'time.monotonic', 'time.perf_counter', 'time.localtime', 'time.gmtime', 'time.strftime',
               'datetime.datetime.now', 'datetime.now', 'datetime.datetime.utcnow', 'datetime.utcnow',
               'datetime.datetime.today', 'datetime.date.today', 'date.today')


def clock_reads(scans) -> list:
    """every read of the wall clock in the scanned files with what consumes it:
       ClkDefaultBuildtime  `self.buildtime = <now>` inside class System (the default that get_system overrides)
       ClkLocalTimer        `T = time.time()` where T is only used inside <x>.msg(...)      ClkInMsg   an argument of a <x>.msg(...) call
       ClkOther             anything else"""
    res = []
    for sc in scans:
        for node in ast.walk(sc.tree):
            if not (isinstance(node, ast.Call) and ast.unparse(node.func) in CLOCK_CALLS):
                continue
            if ast.unparse(node.func) in ('time.strftime',) and node.args[1:]:
                continue                        # formats a given time
            p = sc.parent.get(node)
            ctx = 'ClkOther'
            if isinstance(p, (ast.Assign, ast.AnnAssign)) and (len(p.targets) == 1 if isinstance(p, ast.Assign) else True):
                tgt = p.targets[0] if isinstance(p, ast.Assign) else p.target
                t = ast.unparse(tgt)
                if t == 'self.buildtime' and sc.qual(node).split('.')[0] == 'System':
                    ctx = 'ClkDefaultBuildtime'
                elif isinstance(tgt, ast.Name):
                    # a local timer: every load of it must sit inside a .msg(...) call
                    fn = sc.enclosing_func(node)
                    ok = True
                    for sub in ast.walk(fn):
                        if isinstance(sub, ast.Name) and sub.id == t and isinstance(sub.ctx, ast.Load):
                            q = sub
                            inmsg = False
                            while q is not None and q is not fn:
                                if isinstance(q, ast.Call) and isinstance(q.func, ast.Attribute) and q.func.attr == 'msg':
                                    inmsg = True
                                q = sc.parent.get(q)
                            ok = ok and inmsg
                    ctx = 'ClkLocalTimer' if ok else 'ClkOther'
            else:
                q = node
                while q is not None:
                    if isinstance(q, ast.Call) and isinstance(q.func, ast.Attribute) and q.func.attr == 'msg' and q is not node:
                        ctx = 'ClkInMsg'
                    q = sc.parent.get(q)
            res.append((sc.rel, node.lineno, ctx, ast.unparse(node)))
    return res


def buildtime_sources(scans) -> list:
    """the assignments to <system>.buildtime that driver.get_system performs, in execution order, FOLLOWING calls into the
    helper functions of driver.py.  Recognised meanings:
      BEnvEpoch  utcfromtimestamp(int(E)) where E is os.environ['SOURCE_DATE_EPOCH'] with the absence tolerated (KeyError: pass,
                 or under `'SOURCE_DATE_EPOCH' in os.environ`), or a local bound to os.environ.get('SOURCE_DATE_EPOCH') /
                 os.getenv(..) under `is not None`
      BOption    strptime(<options>.buildtime, BUILDTIME_FORMAT) (or through a local alias) under the truth of that value"""
    sc = [x for x in scans if x.rel == 'driver.py'][0]
    funcs = {n.name: n for n in sc.tree.body if isinstance(n, ast.FunctionDef)}
    if 'get_system' not in funcs:
        raise Shape('driver.get_system not found')
    out: list = []
    seen: set = set()

    def local_value(fn, name: str):
        vals = [st.value for st in ast.walk(fn) if isinstance(st, ast.Assign) and len(st.targets) == 1
                and isinstance(st.targets[0], ast.Name) and st.targets[0].id == name]
        return vals[0] if len(vals) == 1 else None

    def classify(node, fn) -> str:
        v = node.value
        txt = ast.unparse(v)
        where = 'driver.py:%d' % node.lineno
        guards = sc.guards_of(node)
        if isinstance(v, ast.Call) and ast.unparse(v.func) == 'datetime.datetime.utcfromtimestamp' and len(v.args) == 1 \
                and isinstance(v.args[0], ast.Call) and ast.unparse(v.args[0].func) == 'int' and len(v.args[0].args) == 1:
            e = v.args[0].args[0]
            et = ast.unparse(e)
            if et == "os.environ['SOURCE_DATE_EPOCH']":
                if "'SOURCE_DATE_EPOCH' in os.environ" in guards:
                    return 'BEnvEpoch'
                q, ch = sc.parent.get(node), node
                while q is not None and q is not fn:
                    if isinstance(q, ast.Try) and ch in q.body and any(
                            h.type is not None and 'KeyError' in ast.unparse(h.type)
                            and all(isinstance(b, ast.Pass) for b in h.body) for h in q.handlers):
                        return 'BEnvEpoch'
                    q, ch = sc.parent.get(q), q
            elif isinstance(e, ast.Name):
                lv = local_value(fn, e.id)
                if lv is not None and ast.unparse(lv) in ("os.environ.get('SOURCE_DATE_EPOCH')", "os.environ.get('SOURCE_DATE_EPOCH', None)",
                                                          "os.getenv('SOURCE_DATE_EPOCH')") and ('%s is not None' % e.id) in guards:
                    return 'BEnvEpoch'
            raise Shape('unrecognised shape: build time from the environment at %s: %s (guards %s)' % (where, txt, guards))
        if isinstance(v, ast.Call) and ast.unparse(v.func) == 'datetime.datetime.strptime' and len(v.args) == 2 \
                and ast.unparse(v.args[1]) == 'BUILDTIME_FORMAT':
            e = v.args[0]
            if isinstance(e, ast.Attribute) and e.attr == 'buildtime' and ast.unparse(e) in guards:
                return 'BOption'
            if isinstance(e, ast.Name):
                lv = local_value(fn, e.id)
                if lv is not None and isinstance(lv, ast.Attribute) and lv.attr == 'buildtime' and e.id in guards:
                    return 'BOption'
            raise Shape('unrecognised shape: build time from the option at %s: %s (guards %s)' % (where, txt, guards))
        raise Shape('unrecognised shape: <system>.buildtime = %s at %s' % (txt, where))

    def walk_fn(fn, stack: list) -> None:
        nodes = [n for n in ast.walk(fn) if isinstance(n, (ast.Assign, ast.Call)) and sc.enclosing_func(n) is fn]
        nodes.sort(key=lambda n: (n.lineno, n.col_offset))
        for n in nodes:
            if isinstance(n, ast.Call) and isinstance(n.func, ast.Name) and n.func.id in funcs and n.func.id not in stack:
                if len(stack) > 6:
                    raise Shape('helper nesting too deep below get_system')
                walk_fn(funcs[n.func.id], stack + [n.func.id])
            elif isinstance(n, ast.Assign) and any(isinstance(t, ast.Attribute) and t.attr == 'buildtime' for t in n.targets):
                out.append(classify(n, fn))
                seen.add(n)
    walk_fn(funcs['get_system'], ['get_system'])
    for sc2 in scans:                      # nobody else may set it
        for node in ast.walk(sc2.tree):
            if isinstance(node, (ast.Assign, ast.AugAssign, ast.AnnAssign)):
                tg = node.targets if isinstance(node, ast.Assign) else [node.target]
                for t in tg:
                    if isinstance(t, ast.Attribute) and t.attr == 'buildtime' and node not in seen:
                        if not (sc2.rel == 'model.py' and sc2.qual(node).split('.')[0] == 'System' and ast.unparse(t) == 'self.buildtime'):
                            raise Shape('unrecognised shape: buildtime assigned in %s:%s, not reachable from driver.get_system'
                                        % (sc2.rel, sc2.qual(node)))
    return out


def coq_text(s: str) -> str:
    return '[' + '; '.join(str(ord(c)) for c in s) + ']'


def generate() -> dict:
    global ROOT_NAMES_IS_SET
    ROOT_NAMES_IS_SET = _root_names_is_set()
    FILES = _all_files()
    for rel in FILES_ANCHORED:
        if rel not in FILES:
            raise Shape('anchored file pydoctor/%s is missing' % rel)
    set_attrs: set = set()
    set_returning: set = set()
    scans = []
    for rel in FILES:
        path = REPO / 'pydoctor' / rel
        tree = ast.parse(path.read_text())
        scans.append(FileScan(rel, tree, set_attrs, set_returning))
    for s in scans:
        s.collect_attrs()
    if 'root_names' not in set_returning:
        # the property became e.g. a sorted list: then `.root_names` loads are still listed (SrcRootNames) but the
        # definition site disappears -- REQUIRED below reports it
        pass
    for s in scans:
        s.scan()
    sites = [x for s in scans for x in s.sites]
    named = {fn for _, fn in NAMED_FUNCS}
    if not any(c == 'SrcListing' and b not in named for _, _, b, c, _, _ in sites):
        raise Shape('no directory listing of the PROJECT found anywhere (System.addPackage moved out of sight?)')
    if ROOT_NAMES_IS_SET and not any(c == 'SrcRootNames' for _, _, _, c, _, _ in sites):
        raise Shape('System.root_names is a set but no use of it was found')
    funcs = sorted({(a, b) for a, _, b, _, _, _ in sites} | set(NAMED_FUNCS))
    fid = {f: i for i, f in enumerate(funcs)}
    file_id = {rel: i for i, rel in enumerate(FILES)}
    for rel, fn in NAMED_FUNCS:
        tree = [s.tree for s in scans if s.rel == rel][0]
        cur = tree.body
        for part in fn.split('.'):
            hit = [n for n in cur if isinstance(n, (ast.FunctionDef, ast.ClassDef)) and n.name == part]
            if not hit:
                raise Shape('named function %s:%s not found' % (rel, fn))
            cur = hit[0].body
    keys = key_functions()
    cnts = counters()

    from pydoctor import model
    kinds = [(k.name, k.value) for k in model.DocumentableKind]
    privs = [(k.name, k.value) for k in model.PrivacyClass]

    L = ['From Coq Require Import ZArith NArith List.', 'Import ListNotations.',
         'From PydoctorVerif Require Import Base.Sexp Model.DetTypes.', 'Local Open Scope N_scope.', '']
    L.append('(* scanned files *)')
    for rel, i in file_id.items():
        L.append('(* file %d = pydoctor/%s *)' % (i, rel))
    L.append('')
    for rel, fn in NAMED_FUNCS:
        L.append('Definition fn_%s : N := %d.  (* %s:%s *)' % (fn.replace('.', '_').strip('_'), fid[(rel, fn)], rel, fn))
    L.append('')
    L.append('Definition sources : list site := [')
    rows = []
    for rel, line, fn, src, ctx, txt in sites:
        c = '(%s)' % ctx if ' ' in ctx else ctx
        txt = txt.replace('(*', '( *').replace('*)', '* )')
        rows.append('  mkSite %d %d %d %s %s  (* %s:%d %s : %s *)' % (file_id[rel], line, fid[(rel, fn)], src, c, rel, line, fn, txt))
    body = ''
    for i, r in enumerate(rows):
        head, _, com = r.partition('  (*')
        body += head + (';' if i + 1 < len(rows) else '') + '  (*' + com + '\n'
    L.append(body.rstrip('\n'))
    L.append('].')
    L.append('')
    for name in ('lckey_def', 'alphabetical_def', 'source_module_def', 'source_other_def'):
        L.append('Definition %s : list kcomp := [%s].' % (name, '; '.join(keys[name])))
    kv = dict(kinds)
    L.append('Definition map_kind_table : list (Z * Z) := [%s].' % '; '.join(
        '(%d, %d)%%Z' % (kv[a], kv[b]) for a, b in keys['map_kind']))
    L.append('')
    L.append('(* DocumentableKind: (value, name) -- IndexPage.rootkind sorts a SET of kinds by name *)')
    L.append('Definition kind_table : list (Z * text) := [%s].' % '; '.join('(%d%%Z, %s)' % (v, coq_text(n)) for n, v in kinds))
    L.append('Definition kind_package : Z := %d%%Z.' % kv['PACKAGE'])
    L.append('Definition kind_module : Z := %d%%Z.' % kv['MODULE'])
    L.append('Definition privacy_table : list (Z * text) := [%s].' % '; '.join('(%d%%Z, %s)' % (v, coq_text(n)) for n, v in privs))
    L.append('')
    L.append('(* importlib.machinery, in the order addModuleFromPath walks them *)')
    L.append('Definition all_suffixes : list text := [%s].' % '; '.join(coq_text(s) for s in importlib.machinery.all_suffixes()))
    L.append('Definition source_suffixes : list text := [%s].' % '; '.join(coq_text(s) for s in importlib.machinery.SOURCE_SUFFIXES))
    L.append('Definition extension_suffixes : list text := [%s].' % '; '.join(coq_text(s) for s in importlib.machinery.EXTENSION_SUFFIXES))
    L.append('')
    wm = write_modes(scans)
    L.append('(* every open() with a writing mode: how the output files are opened *)')
    L.append('Definition write_modes : list (N * N * wmode) := [')
    L.append(';\n'.join('  (%d, %d, %s)  (* %s:%d mode %r *)' % (file_id[rel], line, kind, rel, line, m) for rel, line, kind, m in wm)
             .replace(')  (*', ')  (*'))
    L.append('].')
    L.append('')
    L.append('Definition relink_is_unlink_then_symlink : bool := %s.' % ('true' if relink_shape(scans) else 'false'))
    L.append('Definition page_write_unlinks_symlink : bool := %s.' % ('true' if page_unlink_shape(scans) else 'false'))
    L.append('')
    L.append('(* wall-clock reads and what consumes them; the assignments to system.buildtime in get_system, in order *)')
    L.append('Definition clock_reads : list (N * N * clock_ctx) := [%s].' % '; '.join(
        '(%d, %d, %s)' % (file_id[rel], line, c) for rel, line, c, _ in clock_reads(scans)))
    L.append('Definition buildtime_sources : list bt_source := [%s].' % '; '.join(buildtime_sources(scans)))
    L.append('')
    L.append('(* process-global counters of the page classes: (file, line-independent) count *)')
    L.append('Definition page_counters : N := %d.  (* %s *)' % (len(cnts), ', '.join('%s.%s' % (c, z) for _, c, z in cnts)))
    return {'TablesC18.v': '\n'.join(L) + '\n'}


def escapes() -> list:
    """for the harness: human-readable list of the sites with an iterating / escaping context"""
    txt = generate()['TablesC18.v']
    return [l.strip() for l in txt.split('\n') if 'CtxIterate' in l or 'CtxEscapeCall' in l or 'KeyOther' in l or 'KeyOrderFunc' in l]


if __name__ == '__main__':
    print(generate()['TablesC18.v'])
