"""Translator A for C18: the ORDER SOURCES of pydoctor, from the AST of the working tree.

An *order source* is an expression whose iteration order is not a function of the inputs of a run:
    SrcRootNames   `<x>.root_names`                     (System.root_names is a set comprehension)
    SrcSetExpr     `set(...)`, `frozenset(...)`, `{a, b}`, `{x for ...}`, set operators / set methods on one of these
    SrcSetName     a load of a name / attribute that holds a set (assigned from a set expression, or annotated
                   Set/MutableSet/FrozenSet/AbstractSet/set/frozenset; attributes are tracked by attribute name
                   across all scanned files, locals and parameters per function, module globals per file)
    SrcListing     `<p>.iterdir()`, `os.listdir(..)`, `os.scandir(..)`, `os.walk(..)`, `<p>.glob(..)`, `<p>.rglob(..)`
For every occurrence (a *site*) the translator prints the syntactic CONTEXT that consumes it (it does NOT decide
whether that context is order free: `order_free` in Model/DetTypes.v does, and `order_sources_checked` in Props/C18.v
evaluates it on this table):
    CtxSorted k      first argument of sorted(...); k = the shape of key= (KeyNone, KeyLckey = `_lckey`, KeyAttrName =
                     `lambda k: k.name`, KeyLowerSelf = `lambda x: (x.lower(), x)`, KeyOrderFunc = *_order_func /
                     objects_order / self._order, KeyOther)
    CtxLen, CtxMember (`x in S`), CtxTruth (`if S`), CtxAnyAll (any/all over it), CtxSetEq (== / != another set)
    CtxEqSingleton   `list(S) == [e]`
    CtxFirstLen1     `list(S)[0]` inside `if len(S) == 1:`        CtxPopLen1   `S.pop()` inside `if len(S) == 1:`
    CtxMutate        S.add / update / discard / remove / clear     CtxDefine    being bound to a tracked name / returned
                                                                                 by the `root_names` property
    CtxToSet         converted to a set again (set(S), {.. for x in S})        CtxSetOp   operand of | & - ^ / set method
                     (the RESULT of S.union/intersection/difference/symmetric_difference/copy and of | & - ^ is itself
                      listed as a SrcSetExpr site with the context that consumes it)
    CtxPassTracked   passed to a function of the same file whose parameter is annotated as a set
    CtxIterate       iterated: for / comprehension / list() / tuple() / join() / * / extend() / iter() / unguarded pop()
    CtxEscapeCall    passed to any other callable
Fail-closed: any other parent shape raises "unrecognised shape" with file:line.

Also printed: the key functions `_lckey`, `alphabetical_order_func`, `source_order_func`, `_map_kind` as component
lists (the model INTERPRETS these lists), DocumentableKind / PrivacyClass values, importlib's suffix lists as pydoctor
sees them, and the process-global counters (class attributes incremented in __init__) of the page classes."""
from __future__ import annotations
import ast, importlib.machinery, os
from pathlib import Path

REPO = Path(os.environ.get('PYTHONPATH', '/repo').split(':')[0])

def _all_files() -> list:
    base = REPO / 'pydoctor'
    out = []
    for p in sorted(base.rglob('*.py')):
        rel = p.relative_to(base).as_posix()
        if rel.startswith('test/') or '/test/' in rel or rel.startswith('epydoc/sre_'):
            continue
        out.append(rel)
    return out


FILES_ANCHORED = [
    'driver.py', 'model.py', 'linker.py', 'sphinx.py', 'astutils.py', 'utils.py', 'epydoc2stan.py',
    'templatewriter/__init__.py', 'templatewriter/util.py', 'templatewriter/summary.py', 'templatewriter/search.py',
    'templatewriter/writer.py', 'templatewriter/pages/__init__.py', 'templatewriter/pages/table.py',
    'templatewriter/pages/sidebar.py', 'templatewriter/pages/attributechild.py', 'templatewriter/pages/functionchild.py',
    'extensions/__init__.py', 'themes/__init__.py', 'epydoc/markup/__init__.py',
]
# sites that MUST be found (so that a rename of the anchored code cannot silently empty the table)
REQUIRED = [
    ('model.py', 'System.addPackage', 'SrcListing'),
    ('model.py', 'Documentable.url', 'SrcRootNames'),
    ('model.py', 'System.root_names', 'SrcSetExpr'),
    ('templatewriter/writer.py', 'TemplateWriter.writeSummaryPages', 'SrcRootNames'),
    ('templatewriter/summary.py', 'summaryPages', 'SrcRootNames'),
    ('templatewriter/summary.py', 'IndexPage.rootkind', 'SrcSetExpr'),
    ('linker.py', '_EpydocLinker._resolve_identifier_xref', 'SrcRootNames'),
    ('templatewriter/__init__.py', 'Template.fromdir', 'SrcListing'),
    ('extensions/__init__.py', '_importlib_resources_contents', 'SrcListing'),
]
# functions named in Props/C18.v as reviewed escapes: the translator only guarantees they exist and prints their ids
NAMED_FUNCS = [
    ('extensions/__init__.py', '_importlib_resources_contents'),
    ('themes/__init__.py', 'get_themes'),
    ('epydoc/markup/__init__.py', 'get_supported_docformats'),
]
SET_ANN = ('Set', 'MutableSet', 'FrozenSet', 'AbstractSet', 'set', 'frozenset')
SET_METHODS_MUT = {'add', 'update', 'discard', 'remove', 'clear', 'difference_update', 'intersection_update'}
SET_METHODS_RET = {'union', 'intersection', 'difference', 'symmetric_difference', 'copy'}
SET_METHODS_OP = {'union', 'intersection', 'difference', 'symmetric_difference', 'copy', 'issubset', 'issuperset',
                  'isdisjoint'}
LISTING_ATTRS = {'iterdir', 'listdir', 'scandir', 'glob', 'rglob', 'walk'}


class Shape(ValueError):
    pass


def ann_is_set(a) -> bool:
    if a is None:
        return False
    if isinstance(a, ast.Constant) and isinstance(a.value, str):
        try:
            a = ast.parse(a.value, mode='eval').body
        except SyntaxError:
            return False
    if isinstance(a, ast.Subscript):
        a = a.value
    if isinstance(a, ast.Attribute):
        return a.attr in SET_ANN
    return isinstance(a, ast.Name) and a.id in SET_ANN


class FileScan:
    def __init__(self, rel: str, tree: ast.Module, set_attrs: set, set_returning: set):
        self.rel, self.tree = rel, tree
        self.set_attrs = set_attrs          # attribute names holding sets (global over the scanned files)
        self.set_returning = set_returning  # attribute/function names whose VALUE is a set (root_names)
        self.parent: dict = {}
        self.func_of: dict = {}
        self.sites: list = []
        self.param_ann: dict = {}           # function name -> list of (argname, is_set)
        self.globals_set: set = set()
        for node in ast.walk(tree):
            for ch in ast.iter_child_nodes(node):
                self.parent[ch] = node

    # ---------------------------------------------------------------- scopes
    def qual(self, node) -> str:
        names = []
        p = node
        while p is not None:
            if isinstance(p, (ast.FunctionDef, ast.AsyncFunctionDef, ast.ClassDef)):
                names.append(p.name)
            p = self.parent.get(p)
        return '.'.join(reversed(names)) or '<module>'

    def enclosing_func(self, node):
        p = self.parent.get(node)
        while p is not None and not isinstance(p, (ast.FunctionDef, ast.AsyncFunctionDef, ast.Lambda)):
            p = self.parent.get(p)
        return p

    def in_annotation(self, node) -> bool:
        p, ch = self.parent.get(node), node
        while p is not None:
            if isinstance(p, ast.AnnAssign) and ch is p.annotation:
                return True
            if isinstance(p, ast.arg) and ch is p.annotation:
                return True
            if isinstance(p, (ast.FunctionDef, ast.AsyncFunctionDef)) and ch is p.returns:
                return True
            p, ch = self.parent.get(p), p
        return False

    def derived_set(self, e, names: set) -> bool:
        """set-valued by syntax, OR built from a known set by set algebra: S.union/intersection/difference/
        symmetric_difference/copy(...), S | T, S & T, S - T, S ^ T, a conditional between such"""
        if self.syntactic_set(e):
            return True
        if isinstance(e, ast.Name):
            return e.id in names or e.id in self.globals_set
        if isinstance(e, ast.Attribute):
            return e.attr in self.set_attrs
        if isinstance(e, ast.Call) and isinstance(e.func, ast.Attribute) and e.func.attr in SET_METHODS_RET:
            return self.derived_set(e.func.value, names)
        if isinstance(e, ast.BinOp) and isinstance(e.op, (ast.BitOr, ast.BitAnd, ast.Sub, ast.BitXor)):
            return self.derived_set(e.left, names) or self.derived_set(e.right, names)
        if isinstance(e, ast.IfExp):
            return self.derived_set(e.body, names) or self.derived_set(e.orelse, names)
        return False

    def local_sets(self, fn) -> set:
        """names bound to sets inside the function `fn` (or at module level when fn is None); fixpoint over
        assignments from set algebra on names already known"""
        out = self.local_sets_once(fn, set())
        while True:
            nxt = self.local_sets_once(fn, out)
            if nxt == out:
                return out
            out = nxt

    def local_sets_once(self, fn, known: set) -> set:
        out = set(known)
        body = fn if fn is not None else self.tree
        if fn is not None and not isinstance(fn, ast.Lambda):
            a = fn.args
            for arg in a.posonlyargs + a.args + a.kwonlyargs + [x for x in (a.vararg, a.kwarg) if x]:
                if ann_is_set(arg.annotation):
                    out.add(arg.arg)
        for node in ast.walk(body):
            if isinstance(node, (ast.FunctionDef, ast.AsyncFunctionDef, ast.Lambda)) and node is not body:
                continue
            if isinstance(node, ast.AnnAssign) and isinstance(node.target, ast.Name):
                if ann_is_set(node.annotation) or (node.value is not None and self.derived_set(node.value, known)):
                    if self.enclosing_func(node) is fn:
                        out.add(node.target.id)
            if isinstance(node, ast.Assign) and self.derived_set(node.value, known):
                for t in node.targets:
                    if isinstance(t, ast.Name) and self.enclosing_func(node) is fn:
                        out.add(t.id)
        return out

    def syntactic_set(self, e) -> bool:
        """set-valued by its own syntax (no name tracking)"""
        if isinstance(e, (ast.Set, ast.SetComp)):
            return True
        if isinstance(e, ast.Call) and isinstance(e.func, ast.Name) and e.func.id in ('set', 'frozenset'):
            return True
        if isinstance(e, ast.Attribute) and e.attr in self.set_returning:
            return True
        return False

    # ---------------------------------------------------------------- collecting attribute-level sets (pass 1)
    def collect_attrs(self) -> None:
        for node in ast.walk(self.tree):
            tgt = val = ann = None
            if isinstance(node, ast.AnnAssign):
                tgt, val, ann = node.target, node.value, node.annotation
            elif isinstance(node, ast.Assign) and len(node.targets) == 1:
                tgt, val = node.targets[0], node.value
            else:
                continue
            is_set = ann_is_set(ann) or (val is not None and self.syntactic_set(val))
            if not is_set:
                continue
            if isinstance(tgt, ast.Attribute):
                self.set_attrs.add(tgt.attr)
            elif isinstance(tgt, ast.Name):
                p = self.parent.get(node)
                if isinstance(p, ast.ClassDef):
                    self.set_attrs.add(tgt.id)       # class-level attribute
                elif isinstance(p, ast.Module):
                    self.globals_set.add(tgt.id)
        for node in ast.walk(self.tree):
            if isinstance(node, (ast.FunctionDef, ast.AsyncFunctionDef)):
                a = node.args
                self.param_ann[node.name] = [(x.arg, ann_is_set(x.annotation)) for x in a.posonlyargs + a.args]
                # a function/property that returns a set expression makes its name set-valued
                for sub in ast.walk(node):
                    if isinstance(sub, ast.Return) and sub.value is not None and self.enclosing_func(sub) is node \
                            and isinstance(sub.value, (ast.Set, ast.SetComp)) or (
                                isinstance(sub, ast.Return) and isinstance(sub.value, ast.Call)
                                and isinstance(sub.value.func, ast.Name) and sub.value.func.id in ('set', 'frozenset')
                                and self.enclosing_func(sub) is node):
                        self.set_returning.add(node.name)

    # ---------------------------------------------------------------- sites (pass 2)
    def is_tracked_load(self, node, locs: set) -> bool:
        if isinstance(node, ast.Name) and isinstance(node.ctx, ast.Load):
            return node.id in locs or (node.id in self.globals_set)
        if isinstance(node, ast.Attribute) and isinstance(node.ctx, ast.Load):
            return node.attr in self.set_attrs
        return False

    def is_listing(self, node) -> bool:
        if not isinstance(node, ast.Call):
            return False
        f = node.func
        if isinstance(f, ast.Attribute) and f.attr in LISTING_ATTRS:
            if f.attr == 'walk':          # only os.walk (docutils' node.walk(visitor) is not a listing)
                return isinstance(f.value, ast.Name) and f.value.id == 'os'
            return True
        return isinstance(f, ast.Name) and f.id in ('listdir', 'scandir')

    def scan(self) -> None:
        loc_cache: dict = {}
        for node in ast.walk(self.tree):
            if self.in_annotation(node):
                continue
            fn = self.enclosing_func(node)
            if fn not in loc_cache:
                loc_cache[fn] = self.local_sets(fn)
                # closures see the enclosing function's sets as well
                up = self.enclosing_func(fn) if fn is not None else None
                while up is not None:
                    loc_cache[fn] = loc_cache[fn] | self.local_sets(up)
                    up = self.enclosing_func(up)
            locs = loc_cache[fn]
            src = None
            if isinstance(node, ast.Attribute) and node.attr == 'root_names' and isinstance(node.ctx, ast.Load):
                src = 'SrcRootNames'
            elif isinstance(node, ast.Attribute) and node.attr in self.set_returning and isinstance(node.ctx, ast.Load):
                src = 'SrcRootNames'
            elif self.syntactic_set(node):
                src = 'SrcSetExpr'
            elif isinstance(node, (ast.Call, ast.BinOp, ast.IfExp)) and self.derived_set(node, locs):
                src = 'SrcSetExpr'          # the RESULT of set algebra is a set again: S.difference(T), S | T ...
            elif self.is_listing(node):
                src = 'SrcListing'
            elif self.is_tracked_load(node, locs):
                # `S.add` etc: the Attribute node S.add is not itself a load of a set attribute
                src = 'SrcSetName'
            if src is None:
                continue
            ctx = self.context(node, locs)
            if ctx is None:
                continue
            self.sites.append((self.rel, node.lineno, self.qual(node), src, ctx, ast.unparse(node)[:60]))

    def guard_len1(self, node, s_text: str) -> bool:
        """is `node` inside the body of `if len(<s_text>) == 1:` ?"""
        p, ch = self.parent.get(node), node
        while p is not None:
            if isinstance(p, ast.If) and ch in p.body:
                t = p.test
                if (isinstance(t, ast.Compare) and len(t.ops) == 1 and isinstance(t.ops[0], ast.Eq)
                        and isinstance(t.left, ast.Call) and isinstance(t.left.func, ast.Name) and t.left.func.id == 'len'
                        and len(t.left.args) == 1 and ast.unparse(t.left.args[0]) == s_text
                        and isinstance(t.comparators[0], ast.Constant) and t.comparators[0].value == 1):
                    return True
            p, ch = self.parent.get(p), p
        return False

    def key_kind(self, call: ast.Call) -> str:
        key = None
        for kw in call.keywords:
            if kw.arg == 'key':
                key = kw.value
            elif kw.arg != 'reverse':
                raise Shape('unrecognised shape: sorted(... %s=) at %s:%d' % (kw.arg, self.rel, call.lineno))
        if len(call.args) != 1:
            raise Shape('unrecognised shape: sorted with %d positional args at %s:%d' % (len(call.args), self.rel, call.lineno))
        if key is None:
            return 'KeyNone'
        if isinstance(key, ast.Name) and key.id == '_lckey':
            return 'KeyLckey'
        if isinstance(key, ast.Lambda) and len(key.args.args) == 1:
            a = key.args.args[0].arg
            b = key.body
            if isinstance(b, ast.Attribute) and b.attr == 'name' and isinstance(b.value, ast.Name) and b.value.id == a:
                return 'KeyAttrName'
            if (isinstance(b, ast.Tuple) and len(b.elts) == 2 and ast.unparse(b.elts[0]) == a + '.lower()'
                    and isinstance(b.elts[1], ast.Name) and b.elts[1].id == a):
                return 'KeyLowerSelf'
            return 'KeyOther'
        txt = ast.unparse(key)
        if txt.endswith('_order_func') or txt.startswith('objects_order(') or txt.startswith('util.objects_order(') \
                or txt in ('self._order', 'order'):
            return 'KeyOrderFunc'
        return 'KeyOther'

    def context(self, node, locs: set):
        p = self.parent.get(node)
        where = '%s:%d' % (self.rel, node.lineno)
        s_text = ast.unparse(node)
        # ---- definitions
        if isinstance(p, (ast.Assign, ast.AnnAssign)) and node is p.value:
            tgts = p.targets if isinstance(p, ast.Assign) else [p.target]
            if all(isinstance(t, (ast.Name, ast.Attribute)) for t in tgts):
                return 'CtxDefine'
            raise Shape('unrecognised shape: set bound to %s at %s' % (ast.dump(tgts[0])[:40], where))
        if isinstance(p, ast.Return):
            f = self.enclosing_func(node)
            if f is not None and getattr(f, 'name', None) in self.set_returning:
                return 'CtxDefine'
            raise Shape('unrecognised shape: a set is returned from %s at %s' % (self.qual(node), where))
        # ---- method call on the set: S.add(...)
        if isinstance(p, ast.Attribute) and node is p.value:
            gp = self.parent.get(p)
            if isinstance(gp, ast.Call) and gp.func is p:
                if p.attr in SET_METHODS_MUT:
                    return 'CtxMutate'
                if p.attr in SET_METHODS_OP:
                    return 'CtxSetOp'
                if p.attr == 'pop':
                    return 'CtxPopLen1' if self.guard_len1(node, s_text) else 'CtxIterate'
                if p.attr == '__contains__':
                    return 'CtxMember'
                if p.attr in LISTING_ATTRS:
                    return None          # `x.iterdir` of a listing call handled at the Call node
            raise Shape('unrecognised shape: attribute .%s of a set at %s' % (p.attr, where))
        # ---- argument of a call
        if isinstance(p, ast.Call) and node in p.args:
            f = p.func
            if isinstance(f, ast.Name):
                if f.id == 'sorted' and node is p.args[0]:
                    return 'CtxSorted ' + self.key_kind(p)
                if f.id == 'len':
                    return 'CtxLen'
                if f.id in ('any', 'all'):
                    return 'CtxAnyAll'
                if f.id in ('set', 'frozenset'):
                    return 'CtxToSet'
                if f.id == 'bool':
                    return 'CtxTruth'
                if f.id in ('list', 'tuple'):
                    gp = self.parent.get(p)
                    if (isinstance(gp, ast.Compare) and gp.left is p and len(gp.ops) == 1 and isinstance(gp.ops[0], (ast.Eq, ast.NotEq))
                            and isinstance(gp.comparators[0], ast.List) and len(gp.comparators[0].elts) == 1):
                        return 'CtxEqSingleton'
                    if (isinstance(gp, ast.Subscript) and gp.value is p and isinstance(gp.slice, ast.Constant)
                            and gp.slice.value == 0 and self.guard_len1(node, s_text)):
                        return 'CtxFirstLen1'
                    return 'CtxIterate'
                if f.id in ('iter', 'next', 'enumerate', 'zip', 'map', 'filter', 'reversed', 'min', 'max', 'sum'):
                    return 'CtxIterate'
                # a function of this file whose parameter is annotated as a set
                if f.id in self.param_ann:
                    i = p.args.index(node)
                    pa = self.param_ann[f.id]
                    if i < len(pa) and pa[i][1]:
                        return 'CtxPassTracked'
                return 'CtxEscapeCall'
            if isinstance(f, ast.Attribute):
                if f.attr in ('join', 'extend'):
                    return 'CtxIterate'
                if f.attr in SET_METHODS_OP or f.attr in SET_METHODS_MUT:
                    return 'CtxSetOp'            # S2.update(S) / S2.union(S): set in, set out
                return 'CtxEscapeCall'
            return 'CtxEscapeCall'
        if isinstance(p, ast.keyword):
            return 'CtxEscapeCall'
        # ---- comparisons
        if isinstance(p, ast.Compare):
            ops = p.ops
            operands = [p.left] + list(p.comparators)
            i = operands.index(node)
            if i > 0 and isinstance(ops[i - 1], (ast.In, ast.NotIn)):
                return 'CtxMember'
            if len(ops) == 1 and isinstance(ops[0], (ast.Eq, ast.NotEq)):
                other = operands[1 - i]
                if self.syntactic_set(other) or self.is_tracked_load(other, locs):
                    return 'CtxSetEq'
            raise Shape('unrecognised shape: comparison %s at %s' % (ast.unparse(p)[:60], where))
        # ---- iteration
        if isinstance(p, (ast.For, ast.AsyncFor)) and node is p.iter:
            return 'CtxIterate'
        if isinstance(p, ast.comprehension) and node is p.iter:
            comp = self.parent.get(p)
            if isinstance(comp, ast.SetComp):
                return 'CtxToSet'
            if isinstance(comp, ast.GeneratorExp):
                gp = self.parent.get(comp)
                if isinstance(gp, ast.Call) and isinstance(gp.func, ast.Name) and comp in gp.args:
                    if gp.func.id in ('any', 'all'):
                        return 'CtxAnyAll'
                    if gp.func.id in ('set', 'frozenset'):
                        return 'CtxToSet'
            return 'CtxIterate'
        if isinstance(p, ast.Starred):
            return 'CtxIterate'
        if isinstance(p, (ast.YieldFrom,)):
            return 'CtxIterate'
        # ---- truthiness
        if isinstance(p, (ast.If, ast.While, ast.IfExp)) and node is p.test:
            return 'CtxTruth'
        if isinstance(p, ast.IfExp):
            return 'CtxSetOp'            # a branch of a conditional: the conditional is listed as a site itself
        if isinstance(p, ast.BoolOp) or (isinstance(p, ast.UnaryOp) and isinstance(p.op, ast.Not)):
            return 'CtxTruth'
        if isinstance(p, ast.BinOp) and isinstance(p.op, (ast.BitOr, ast.BitAnd, ast.Sub, ast.BitXor)):
            return 'CtxSetOp'
        if isinstance(p, ast.Expr):
            return 'CtxTruth'            # a bare expression statement: value discarded
        if isinstance(p, ast.With) or isinstance(p, ast.withitem):
            return 'CtxIterate'          # with os.scandir(..) as it: conservatively an iteration
        raise Shape('unrecognised shape: %s is used by a %s at %s' % (s_text[:40], type(p).__name__, where))


# -------------------------------------------------------------------------------- key functions
def find_def(tree: ast.Module, name: str):
    for st in tree.body:
        if isinstance(st, ast.FunctionDef) and st.name == name:
            return st
    raise Shape('function %s not found' % name)


def comp_of(e, arg: str, where: str) -> str:
    t = ast.unparse(e)
    table = {
        '-%s.privacyClass.value' % arg: 'KNegPrivacy',
        '-_map_kind(%s.kind).value if %s.kind else 0' % (arg, arg): 'KNegKindMapped',
        '%s.fullName().lower()' % arg: 'KLowerFullName',
        '%s.fullName()' % arg: 'KFullName',
        '%s.linenumber' % arg: 'KLineno',
    }
    if t in table:
        return table[t]
    raise Shape('unrecognised shape: sort key component %r in %s' % (t, where))


def key_tuple(ret, arg: str, where: str) -> list:
    if not (isinstance(ret, ast.Return) and isinstance(ret.value, ast.Tuple)):
        raise Shape('unrecognised shape: %s does not return a tuple' % where)
    return [comp_of(e, arg, where) for e in ret.value.elts]


def body_wo_doc(fn) -> list:
    b = fn.body
    if b and isinstance(b[0], ast.Expr) and isinstance(b[0].value, ast.Constant) and isinstance(b[0].value.value, str):
        b = b[1:]
    return b


def key_functions() -> dict:
    out = {}
    util = ast.parse((REPO / 'pydoctor/templatewriter/util.py').read_text())
    summ = ast.parse((REPO / 'pydoctor/templatewriter/summary.py').read_text())
    f = find_def(summ, '_lckey')
    b = body_wo_doc(f)
    if len(b) != 1:
        raise Shape('unrecognised shape: _lckey body')
    out['lckey_def'] = key_tuple(b[0], f.args.args[0].arg, 'summary._lckey')
    f = find_def(util, 'alphabetical_order_func')
    b = body_wo_doc(f)
    if len(b) != 1:
        raise Shape('unrecognised shape: alphabetical_order_func body')
    out['alphabetical_def'] = key_tuple(b[0], f.args.args[0].arg, 'util.alphabetical_order_func')
    f = find_def(util, 'source_order_func')
    b = body_wo_doc(f)
    a = f.args.args[0].arg
    if not (len(b) == 1 and isinstance(b[0], ast.If) and ast.unparse(b[0].test) == 'isinstance(%s, model.Module)' % a
            and len(b[0].orelse) == 1):
        raise Shape('unrecognised shape: source_order_func body')
    mb = [s for s in b[0].body if isinstance(s, ast.Return)]
    ob = [s for s in b[0].orelse if isinstance(s, ast.Return)]
    if len(mb) != 1 or len(ob) != 1:
        raise Shape('unrecognised shape: source_order_func returns')
    out['source_module_def'] = key_tuple(mb[0], a, 'util.source_order_func[module]')
    out['source_other_def'] = key_tuple(ob[0], a, 'util.source_order_func[other]')
    f = find_def(util, 'objects_order')
    b = body_wo_doc(f)
    txt = ast.unparse(ast.Module(body=b, type_ignores=[]))
    want = ("if order == 'alphabetical':\n    return alphabetical_order_func\nelif order == 'source':\n"
            "    return source_order_func\nelse:\n    assert False")
    if txt != want:
        raise Shape('unrecognised shape: objects_order body:\n' + txt)
    f = find_def(util, '_map_kind')
    b = body_wo_doc(f)
    txt = ast.unparse(ast.Module(body=b, type_ignores=[]))
    want = ("if kind == model.DocumentableKind.PACKAGE:\n    return model.DocumentableKind.MODULE\nreturn kind")
    if txt != want:
        raise Shape('unrecognised shape: _map_kind body:\n' + txt)
    out['map_kind'] = [('PACKAGE', 'MODULE')]
    return out


def counters() -> list:
    """class attributes `X = 0` incremented as `Cls.X += 1` inside __init__ and copied to self._id"""
    res = []
    for rel in ('templatewriter/pages/table.py', 'templatewriter/pages/sidebar.py'):
        tree = ast.parse((REPO / 'pydoctor' / rel).read_text())
        for cls in [n for n in tree.body if isinstance(n, ast.ClassDef)]:
            zeros = [t.id for st in cls.body if isinstance(st, ast.Assign) and isinstance(st.value, ast.Constant)
                     and st.value.value == 0 for t in st.targets if isinstance(t, ast.Name)]
            for z in zeros:
                init = [f for f in cls.body if isinstance(f, ast.FunctionDef) and f.name == '__init__']
                if not init:
                    continue
                stmts = [ast.unparse(s) for s in ast.walk(init[0]) if isinstance(s, (ast.AugAssign, ast.Assign))]
                inc = '%s.%s += 1' % (cls.name, z)
                cp = 'self._id = %s.%s' % (cls.name, z)
                if inc in stmts and cp in stmts:
                    if stmts.index(inc) > stmts.index(cp):
                        raise Shape('unrecognised shape: counter %s.%s copied before the increment' % (cls.name, z))
                    res.append((rel, cls.name, z))
                elif inc in stmts or cp in stmts:
                    raise Shape('unrecognised shape: counter %s.%s in %s' % (cls.name, z, rel))
    names = [(c, z) for _, c, z in res]
    if names != [('ChildTable', 'last_id'), ('ExpandableItem', 'last_ExpandableItem_id')]:
        raise Shape('unrecognised shape: page counters are %r' % (names,))
    return res


def write_modes(scans) -> list:
    """every open(...) / <path>.open(...) of the scanned files whose mode creates or modifies a file"""
    res = []
    for sc in scans:
        for node in ast.walk(sc.tree):
            if not isinstance(node, ast.Call):
                continue
            f = node.func
            if isinstance(f, ast.Name) and f.id == 'open':
                mode = node.args[1] if len(node.args) > 1 else None
            elif isinstance(f, ast.Attribute) and f.attr == 'open':
                mode = node.args[0] if node.args else None
            else:
                continue
            for kw in node.keywords:
                if kw.arg == 'mode':
                    mode = kw.value
            if mode is None:
                continue                       # default 'r'
            if not (isinstance(mode, ast.Constant) and isinstance(mode.value, str)):
                # e.g. webbrowser.open(url): first argument is not a mode; only a str constant is a mode
                if isinstance(f, ast.Attribute) and not (isinstance(mode, ast.Constant)):
                    continue
                raise Shape('unrecognised shape: open() with a computed mode at %s:%d' % (sc.rel, node.lineno))
            m = mode.value
            if not any(c in m for c in 'wax+'):
                continue
            kind = 'WTrunc' if ('w' in m and 'a' not in m and 'x' not in m) else ('WAppend' if 'a' in m else ('WExcl' if 'x' in m else 'WUpdate'))
            res.append((sc.rel, node.lineno, kind, m))
    need = {'templatewriter/writer.py': 2, 'templatewriter/__init__.py': 1, 'templatewriter/search.py': 1, 'sphinx.py': 1}
    for rel, n in need.items():
        got = len([r for r in res if r[0] == rel])
        if got < n:
            raise Shape('expected at least %d writing open() calls in %s, found %d' % (n, rel, got))
    return res


def relink_shape(scans) -> bool:
    """writer.writeSummaryPages: the compat symlink is removed (FileNotFoundError tolerated) and created again"""
    sc = [x for x in scans if x.rel == 'templatewriter/writer.py'][0]
    for node in ast.walk(sc.tree):
        if isinstance(node, ast.FunctionDef) and node.name == 'writeSummaryPages':
            for st in ast.walk(node):
                if isinstance(st, ast.If) and ast.unparse(st.test) == 'len(system.root_names) == 1':
                    body = [ast.unparse(x) for x in st.body]
                    want_try = 'try:\n    root_module_path.unlink()\nexcept FileNotFoundError:\n    pass'
                    if (len(body) == 2 and body[0].startswith('root_module_path = ') and isinstance(st.body[1], ast.If)
                            and ast.unparse(st.body[1].test) == "root_module_path.name != 'index.html'"
                            and not st.body[1].orelse
                            and [ast.unparse(x) for x in st.body[1].body] == [want_try, "root_module_path.symlink_to('index.html')"]):
                        return True
                    raise Shape('unrecognised shape: symlink handling in writeSummaryPages:\n' + '\n'.join(body))
    raise Shape('unrecognised shape: writeSummaryPages has no `if len(system.root_names) == 1` block')


CLOCK_CALLS = ('time.time', 'time.monotonic', 'time.perf_counter', 'time.localtime', 'time.gmtime', 'time.strftime',
               'datetime.datetime.now', 'datetime.now', 'datetime.datetime.utcnow', 'datetime.utcnow',
               'datetime.datetime.today', 'datetime.date.today', 'date.today')


def clock_reads(scans) -> list:
    """every read of the wall clock in the scanned files with what consumes it:
       ClkDefaultBuildtime  `self.buildtime = datetime.datetime.now()` in System.__init__ (the default that get_system overrides)
       ClkLocalTimer        `T = time.time()`                           ClkInMsg   an argument of a <x>.msg(...) call
       ClkOther             anything else"""
    res = []
    for sc in scans:
        for node in ast.walk(sc.tree):
            if not (isinstance(node, ast.Call) and ast.unparse(node.func) in CLOCK_CALLS):
                continue
            if ast.unparse(node.func) in ('time.strftime',) and node.args[1:]:
                continue                        # formats a given time
            p = sc.parent.get(node)
            ctx = 'ClkOther'
            if isinstance(p, ast.Assign) and len(p.targets) == 1:
                t = ast.unparse(p.targets[0])
                if t == 'self.buildtime' and sc.qual(node) == 'System.__init__':
                    ctx = 'ClkDefaultBuildtime'
                elif isinstance(p.targets[0], ast.Name):
                    # a local timer: every load of it must sit inside a .msg(...) call
                    fn = sc.enclosing_func(node)
                    ok = True
                    for sub in ast.walk(fn):
                        if isinstance(sub, ast.Name) and sub.id == t and isinstance(sub.ctx, ast.Load):
                            q = sub
                            inmsg = False
                            while q is not None and q is not fn:
                                if isinstance(q, ast.Call) and isinstance(q.func, ast.Attribute) and q.func.attr == 'msg':
                                    inmsg = True
                                q = sc.parent.get(q)
                            ok = ok and inmsg
                    ctx = 'ClkLocalTimer' if ok else 'ClkOther'
            else:
                q = node
                while q is not None:
                    if isinstance(q, ast.Call) and isinstance(q.func, ast.Attribute) and q.func.attr == 'msg' and q is not node:
                        ctx = 'ClkInMsg'
                    q = sc.parent.get(q)
            res.append((sc.rel, node.lineno, ctx, ast.unparse(node)))
    if not any(c == 'ClkDefaultBuildtime' for _, _, c, _ in res):
        raise Shape('unrecognised shape: System.__init__ no longer sets self.buildtime = datetime.datetime.now()')
    return res


def buildtime_sources(scans) -> list:
    """driver.get_system: the assignments to system.buildtime, in order"""
    sc = [x for x in scans if x.rel == 'driver.py'][0]
    fn = [n for n in sc.tree.body if isinstance(n, ast.FunctionDef) and n.name == 'get_system']
    if not fn:
        raise Shape('driver.get_system not found')
    out = []
    for node in ast.walk(fn[0]):
        if isinstance(node, ast.Assign) and ast.unparse(node.targets[0]) == 'system.buildtime':
            v = ast.unparse(node.value)
            p = sc.parent.get(node)
            if v == "datetime.datetime.utcfromtimestamp(int(os.environ['SOURCE_DATE_EPOCH']))" and isinstance(p, ast.Try) \
                    and [ast.unparse(h.type) for h in p.handlers] == ['ValueError', 'KeyError'] \
                    and ast.unparse(p.handlers[1].body[0]) == 'pass':
                out.append((node.lineno, 'BEnvEpoch'))
            elif v == 'datetime.datetime.strptime(options.buildtime, BUILDTIME_FORMAT)':
                q = p
                while q is not None and not isinstance(q, ast.If):
                    q = sc.parent.get(q)
                if q is None or ast.unparse(q.test) != 'options.buildtime':
                    raise Shape('unrecognised shape: --buildtime assignment is not under `if options.buildtime:`')
                out.append((node.lineno, 'BOption'))
            else:
                raise Shape('unrecognised shape: system.buildtime = %s at driver.py:%d' % (v, node.lineno))
    out.sort()
    for sc2 in scans:                      # nobody else may set it
        for node in ast.walk(sc2.tree):
            if isinstance(node, (ast.Assign, ast.AugAssign, ast.AnnAssign)):
                tg = node.targets if isinstance(node, ast.Assign) else [node.target]
                for t in tg:
                    if isinstance(t, ast.Attribute) and t.attr == 'buildtime':
                        where = (sc2.rel, sc2.qual(node))
                        if where not in (('driver.py', 'get_system'), ('model.py', 'System.__init__')):
                            raise Shape('unrecognised shape: buildtime assigned in %s:%s' % where)
    return [k for _, k in out]


def coq_text(s: str) -> str:
    return '[' + '; '.join(str(ord(c)) for c in s) + ']'


def generate() -> dict:
    FILES = _all_files()
    for rel in FILES_ANCHORED:
        if rel not in FILES:
            raise Shape('anchored file pydoctor/%s is missing' % rel)
    set_attrs: set = set()
    set_returning: set = set()
    scans = []
    for rel in FILES:
        path = REPO / 'pydoctor' / rel
        tree = ast.parse(path.read_text())
        scans.append(FileScan(rel, tree, set_attrs, set_returning))
    for s in scans:
        s.collect_attrs()
    if 'root_names' not in set_returning:
        # the property became e.g. a sorted list: then `.root_names` loads are still listed (SrcRootNames) but the
        # definition site disappears -- REQUIRED below reports it
        pass
    for s in scans:
        s.scan()
    sites = [x for s in scans for x in s.sites]
    for rel, fn, src in REQUIRED:
        if not any(a == rel and b == fn and c == src for a, _, b, c, _, _ in sites):
            raise Shape('required order source %s in %s:%s not found (code moved or renamed?)' % (src, rel, fn))
    funcs = sorted({(a, b) for a, _, b, _, _, _ in sites} | set(NAMED_FUNCS))
    fid = {f: i for i, f in enumerate(funcs)}
    file_id = {rel: i for i, rel in enumerate(FILES)}
    for rel, fn in NAMED_FUNCS:
        tree = [s.tree for s in scans if s.rel == rel][0]
        cur = tree.body
        for part in fn.split('.'):
            hit = [n for n in cur if isinstance(n, (ast.FunctionDef, ast.ClassDef)) and n.name == part]
            if not hit:
                raise Shape('named function %s:%s not found' % (rel, fn))
            cur = hit[0].body
    keys = key_functions()
    cnts = counters()

    from pydoctor import model
    kinds = [(k.name, k.value) for k in model.DocumentableKind]
    privs = [(k.name, k.value) for k in model.PrivacyClass]

    L = ['From Coq Require Import ZArith NArith List.', 'Import ListNotations.',
         'From PydoctorVerif Require Import Base.Sexp Model.DetTypes.', 'Local Open Scope N_scope.', '']
    L.append('(* scanned files *)')
    for rel, i in file_id.items():
        L.append('(* file %d = pydoctor/%s *)' % (i, rel))
    L.append('')
    for rel, fn in NAMED_FUNCS:
        L.append('Definition fn_%s : N := %d.  (* %s:%s *)' % (fn.replace('.', '_').strip('_'), fid[(rel, fn)], rel, fn))
    L.append('')
    L.append('Definition sources : list site := [')
    rows = []
    for rel, line, fn, src, ctx, txt in sites:
        c = '(%s)' % ctx if ' ' in ctx else ctx
        txt = txt.replace('(*', '( *').replace('*)', '* )')
        rows.append('  mkSite %d %d %d %s %s  (* %s:%d %s : %s *)' % (file_id[rel], line, fid[(rel, fn)], src, c, rel, line, fn, txt))
    body = ''
    for i, r in enumerate(rows):
        head, _, com = r.partition('  (*')
        body += head + (';' if i + 1 < len(rows) else '') + '  (*' + com + '\n'
    L.append(body.rstrip('\n'))
    L.append('].')
    L.append('')
    for name in ('lckey_def', 'alphabetical_def', 'source_module_def', 'source_other_def'):
        L.append('Definition %s : list kcomp := [%s].' % (name, '; '.join(keys[name])))
    kv = dict(kinds)
    L.append('Definition map_kind_table : list (Z * Z) := [%s].' % '; '.join(
        '(%d, %d)%%Z' % (kv[a], kv[b]) for a, b in keys['map_kind']))
    L.append('')
    L.append('(* DocumentableKind: (value, name) -- IndexPage.rootkind sorts a SET of kinds by name *)')
    L.append('Definition kind_table : list (Z * text) := [%s].' % '; '.join('(%d%%Z, %s)' % (v, coq_text(n)) for n, v in kinds))
    L.append('Definition kind_package : Z := %d%%Z.' % kv['PACKAGE'])
    L.append('Definition kind_module : Z := %d%%Z.' % kv['MODULE'])
    L.append('Definition privacy_table : list (Z * text) := [%s].' % '; '.join('(%d%%Z, %s)' % (v, coq_text(n)) for n, v in privs))
    L.append('')
    L.append('(* importlib.machinery, in the order addModuleFromPath walks them *)')
    L.append('Definition all_suffixes : list text := [%s].' % '; '.join(coq_text(s) for s in importlib.machinery.all_suffixes()))
    L.append('Definition source_suffixes : list text := [%s].' % '; '.join(coq_text(s) for s in importlib.machinery.SOURCE_SUFFIXES))
    L.append('Definition extension_suffixes : list text := [%s].' % '; '.join(coq_text(s) for s in importlib.machinery.EXTENSION_SUFFIXES))
    L.append('')
    wm = write_modes(scans)
    L.append('(* every open() with a writing mode: how the output files are opened *)')
    L.append('Definition write_modes : list (N * N * wmode) := [')
    L.append(';\n'.join('  (%d, %d, %s)  (* %s:%d mode %r *)' % (file_id[rel], line, kind, rel, line, m) for rel, line, kind, m in wm)
             .replace(')  (*', ')  (*'))
    L.append('].')
    L.append('')
    L.append('Definition relink_is_unlink_then_symlink : bool := %s.' % ('true' if relink_shape(scans) else 'false'))
    L.append('')
    L.append('(* wall-clock reads and what consumes them; the assignments to system.buildtime in get_system, in order *)')
    L.append('Definition clock_reads : list (N * N * clock_ctx) := [%s].' % '; '.join(
        '(%d, %d, %s)' % (file_id[rel], line, c) for rel, line, c, _ in clock_reads(scans)))
    L.append('Definition buildtime_sources : list bt_source := [%s].' % '; '.join(buildtime_sources(scans)))
    L.append('')
    L.append('(* process-global counters of the page classes: (file, line-independent) count *)')
    L.append('Definition page_counters : N := %d.  (* %s *)' % (len(cnts), ', '.join('%s.%s' % (c, z) for _, c, z in cnts)))
    return {'TablesC18.v': '\n'.join(L) + '\n'}


def escapes() -> list:
    """for the harness: human-readable list of the sites with an iterating / escaping context"""
    txt = generate()['TablesC18.v']
    return [l.strip() for l in txt.split('\n') if 'CtxIterate' in l or 'CtxEscapeCall' in l or 'KeyOther' in l or 'KeyOrderFunc' in l]


if __name__ == '__main__':
    print(generate()['TablesC18.v'])
