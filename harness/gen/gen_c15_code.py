"""Translator A for C15 (second part): the BODY of pydoctor/epydoc/markup/_pyval_repr.py _OperatorDelimiter.__init__ -- the
decision to put parentheses around an operator -- translated statement by statement into the deep-embedded language of
Model/DelimIR.v.  Calls to functions and methods defined in pydoctor itself (astutils.get_parent,
PyvalColorizer._requires_delimiters, ...) are followed and inlined, so it does not matter whether the decision sits in the
constructor, in a helper method or in a module-level function.  Proofs/DelimIRProofs.v proves, for every operator and
every parent situation, that interpreting THIS output is Model/ExprPrint.needs_paren; a change to the decision changes
Gen/DelimCode.v and breaks that obligation.

Names are resolved against the live module (PYTHONPATH=/repo): a dotted name that is not a local evaluates to the object it
denotes, so `astor.op_util.get_op_precedence`, an alias imported under another name, `Precedence.highest` or a class
tuple bound to a module constant are all recognised by what they ARE.  Primitives (see Model/DelimIR.v): next(get_parents(
node)[, None]), isinstance over the ast classes, get_op_precedence(x.op), <colorizer>.explicit_precedence.get(node, d),
x.op / x.left / x.right, integer + and comparisons, is / is not, not / and / or on boolean operands.

Fail-closed: any statement, expression, class, callee or receiver outside the recognised shapes aborts the generation
with `unrecognised shape`."""
from __future__ import annotations
import ast
import builtins
import inspect
import textwrap
from typing import Any, Dict, List, Optional, Tuple


class Bad(ValueError):
    pass


def bad(what: str, node: Optional[ast.AST] = None) -> None:
    where = ''
    if node is not None and hasattr(node, 'lineno'):
        where = ' at line %d: %s' % (node.lineno, ast.unparse(node)[:90])
    raise Bad('unrecognised shape: %s%s' % (what, where))


UOPS = {'USub': 'USub', 'UAdd': 'UAdd', 'Not': 'UNot', 'Invert': 'UInvert'}
BOPS = ['Sub', 'Add', 'Mult', 'Div', 'FloorDiv', 'Mod', 'Pow', 'LShift', 'RShift', 'BitOr', 'BitXor', 'BitAnd', 'MatMult']
BOOLOPS = ['And', 'Or']


def pycls_of(c: Any, node: ast.AST) -> str:
    if c is ast.expr:
        return 'CExpr'
    if c is ast.keyword:
        return 'CKeyword'
    if c is ast.comprehension:
        return 'CComprehension'
    if c is ast.UnaryOp:
        return 'CUnaryOp'
    if c is ast.BinOp:
        return 'CBinOp'
    if c is ast.BoolOp:
        return 'CBoolOp'
    if c is ast.AST:
        return 'CAST'
    if isinstance(c, type) and c.__module__ == 'ast':
        if c.__name__ in UOPS and issubclass(c, ast.unaryop):
            return 'COp (OU %s)' % UOPS[c.__name__]
        if c.__name__ in BOPS and issubclass(c, ast.operator):
            return 'COp (OB %s)' % c.__name__
        if c.__name__ in BOOLOPS and issubclass(c, ast.boolop):
            return 'COp (OO %s)' % c.__name__
    bad('isinstance against a class outside the modelled hierarchy: %r' % (c,), node)
    return ''


class Unit:
    """One translation: fresh variables, the statements, the module whose names are in scope."""
    def __init__(self) -> None:
        self.vars: List[str] = []
        self.depth = 0

    def fresh(self, base: str) -> str:
        n = 'dv_%s_%d' % (''.join(ch if ch.isalnum() else '_' for ch in base), len(self.vars))
        self.vars.append(n)
        return n


class Scope:
    """Translation of one function body.  env: python name -> ('var', coq name) | ('static', kind) with kind in
    node / colorizer / delim / state | ('global', the module-level object a local alias stands for)."""
    def __init__(self, unit: Unit, fn: ast.FunctionDef, globs: Dict[str, Any], env: Dict[str, Tuple[str, str]]):
        self.u, self.fn, self.globs, self.env = unit, fn, globs, dict(env)
        self.assigned = {k for k, v in env.items()}
        self.alias: Dict[str, str] = {}          # self.<attr> -> static kind (stored parameters)

    # ---------------------------------------------------------------- names
    def resolve(self, e: ast.AST) -> Tuple[bool, Any]:
        """A dotted name whose root is not a local: the object it denotes in the module."""
        parts = []
        x = e
        while isinstance(x, ast.Attribute):
            parts.append(x.attr)
            x = x.value
        if not isinstance(x, ast.Name):
            return False, None
        if x.id in self.env:
            if self.env[x.id][0] != 'global':
                return False, None
            obj = self.env[x.id][1]
            for a in reversed(parts):
                if not hasattr(obj, a):
                    return False, None
                obj = getattr(obj, a)
            return True, obj
        if x.id in self.globs:
            obj = self.globs[x.id]
        elif hasattr(builtins, x.id):
            obj = getattr(builtins, x.id)
        else:
            return False, None
        for a in reversed(parts):
            if not hasattr(obj, a):
                return False, None
            obj = getattr(obj, a)
        return True, obj

    def static_of(self, e: ast.AST) -> Optional[str]:
        if isinstance(e, ast.Name) and e.id in self.env and self.env[e.id][0] == 'static':
            return self.env[e.id][1]
        if isinstance(e, ast.Attribute) and self.static_of(e.value) == 'delim' and e.attr in self.alias:
            return self.alias[e.attr]
        return None

    # ---------------------------------------------------------------- expressions
    def boolish(self, e: ast.AST) -> bool:
        if isinstance(e, ast.Compare):
            return True
        if isinstance(e, ast.UnaryOp) and isinstance(e.op, ast.Not):
            return True
        if isinstance(e, ast.BoolOp):
            return all(self.boolish(v) for v in e.values)
        if isinstance(e, ast.Constant) and isinstance(e.value, bool):
            return True
        if isinstance(e, ast.Call):
            ok, f = self.resolve(e.func)
            if ok and f in (isinstance, bool):
                return True
        return False

    def const(self, v: Any, node: ast.AST) -> str:
        if v is True:
            return 'XConst (VBool true)'
        if v is False:
            return 'XConst (VBool false)'
        if v is None:
            return 'XConst VNone'
        if isinstance(v, int) and not isinstance(v, bool) and 0 <= v < 10 ** 6:
            return 'XConst (VInt %d)' % v
        bad('constant %r' % (v,), node)
        return ''

    def expr(self, e: ast.AST) -> str:
        if isinstance(e, ast.Constant):
            return self.const(e.value, e)
        if isinstance(e, ast.Name):
            if e.id in self.env:
                kind, val = self.env[e.id]
                if kind == 'var':
                    if e.id not in self.assigned:
                        bad('local %r read before it is bound' % e.id, e)
                    return 'XVar %s' % val
                if val == 'node':
                    return 'XNode'
                bad('the %s object used as a value' % val, e)
            ok, obj = self.resolve(e)
            if ok and (obj is None or isinstance(obj, (bool, int))):
                return self.const(obj, e)
            bad('name %r' % e.id, e)
        if isinstance(e, ast.Attribute):
            ok, obj = self.resolve(e)
            if ok and (obj is None or isinstance(obj, (bool, int))):
                return self.const(obj, e)
            if e.attr in ('op', 'left', 'right'):
                return 'XAttr (%s) %s' % (self.expr(e.value), {'op': 'FOp', 'left': 'FLeft', 'right': 'FRight'}[e.attr])
            bad('attribute .%s' % e.attr, e)
        if isinstance(e, ast.UnaryOp) and isinstance(e.op, ast.Not):
            return 'XNot (%s)' % self.expr(e.operand)
        if isinstance(e, ast.BoolOp):
            if not all(self.boolish(v) for v in e.values):
                bad('and/or over operands that are not plainly boolean', e)
            ctor = 'XAnd' if isinstance(e.op, ast.And) else 'XOr'
            r = self.expr(e.values[-1])
            for v in reversed(e.values[:-1]):
                r = '%s (%s) (%s)' % (ctor, self.expr(v), r)
            return r
        if isinstance(e, ast.BinOp) and isinstance(e.op, ast.Add):
            return 'XAdd (%s) (%s)' % (self.expr(e.left), self.expr(e.right))
        if isinstance(e, ast.Compare) and len(e.ops) == 1:
            a, b, op = self.expr(e.left), self.expr(e.comparators[0]), e.ops[0]
            if isinstance(op, ast.Lt):
                return 'XLt (%s) (%s)' % (a, b)
            if isinstance(op, ast.LtE):
                return 'XLe (%s) (%s)' % (a, b)
            if isinstance(op, ast.Gt):
                return 'XLt (%s) (%s)' % (b, a)      # evaluation order of two side-effect-free operands does not matter
            if isinstance(op, ast.GtE):
                return 'XLe (%s) (%s)' % (b, a)
            if isinstance(op, ast.Eq):
                return 'XEq (%s) (%s)' % (a, b)
            if isinstance(op, ast.NotEq):
                return 'XNot (XEq (%s) (%s))' % (a, b)
            if isinstance(op, ast.Is):
                return 'XIs (%s) (%s)' % (a, b)
            if isinstance(op, ast.IsNot):
                return 'XNot (XIs (%s) (%s))' % (a, b)
            bad('comparison operator', e)
        if isinstance(e, ast.Call):
            return self.call(e)
        bad('expression %s' % type(e).__name__, e)
        return ''

    def is_node(self, e: ast.AST) -> bool:
        return self.static_of(e) == 'node'

    def call(self, e: ast.Call) -> str:
        import astor.op_util as ou
        from pydoctor import astutils
        f = e.func
        ok, obj = self.resolve(f)
        if ok:
            if obj is next:
                if not e.keywords and len(e.args) in (1, 2) and isinstance(e.args[0], ast.Call):
                    ok2, g = self.resolve(e.args[0].func)
                    if ok2 and g is astutils.get_parents and len(e.args[0].args) == 1 and not e.args[0].keywords \
                            and self.is_node(e.args[0].args[0]):
                        if len(e.args) == 1:
                            return 'XNextParent'
                        if isinstance(e.args[1], ast.Constant) and e.args[1].value is None:
                            return 'XParentOrNone'
                bad('next(...) of something other than get_parents(node)', e)
            if obj is isinstance:
                if e.keywords or len(e.args) != 2:
                    bad('isinstance arguments', e)
                ok2, cls = self.resolve(e.args[1])
                if not ok2 and isinstance(e.args[1], ast.Tuple):
                    cls = []
                    for el in e.args[1].elts:
                        ok3, c = self.resolve(el)
                        if not ok3:
                            bad('isinstance class', el)
                        cls.append(c)
                    cls = tuple(cls)
                    ok2 = True
                if not ok2:
                    bad('isinstance class', e.args[1])
                flat: List[Any] = []

                def fl(c: Any) -> None:
                    if isinstance(c, tuple):
                        for x in c:
                            fl(x)
                    else:
                        flat.append(c)
                fl(cls)
                return 'XIsInstance (%s) [%s]' % (self.expr(e.args[0]), '; '.join(pycls_of(c, e) for c in flat))
            if obj is ou.get_op_precedence:
                if e.keywords or len(e.args) != 1:
                    bad('get_op_precedence arguments', e)
                return 'XPrec (%s)' % self.expr(e.args[0])
            if obj is bool and len(e.args) == 1 and not e.keywords:
                return 'XNot (XNot (%s))' % self.expr(e.args[0])
            if inspect.isfunction(obj) and (obj.__module__ or '').startswith('pydoctor'):
                return self.inline(obj, None, e)
            bad('call of %r' % (obj,), e)
        # <colorizer>.explicit_precedence.get(node, default)
        if (isinstance(f, ast.Attribute) and f.attr == 'get' and isinstance(f.value, ast.Attribute)
                and f.value.attr == 'explicit_precedence' and self.static_of(f.value.value) == 'colorizer'):
            if e.keywords or len(e.args) not in (1, 2) or not self.is_node(e.args[0]):
                bad('explicit_precedence.get arguments', e)
            d = self.expr(e.args[1]) if len(e.args) == 2 else 'XConst VNone'
            return 'XExplicitGet (%s)' % d
        # a method of the colouriser or of the delimiter itself
        if isinstance(f, ast.Attribute):
            recv = self.static_of(f.value)
            if recv in ('colorizer', 'delim'):
                from pydoctor.epydoc.markup import _pyval_repr as R
                cls = R.PyvalColorizer if recv == 'colorizer' else R._OperatorDelimiter
                m = inspect.getattr_static(cls, f.attr, None)
                if isinstance(m, staticmethod):
                    return self.inline(m.__func__, None, e)
                if inspect.isfunction(m):
                    return self.inline(m, recv, e)
                bad('%s has no plain method %s' % (cls.__name__, f.attr), e)
        bad('call', e)
        return ''

    def inline(self, func: Any, self_kind: Optional[str], e: ast.Call) -> str:
        if self.u.depth >= 6:
            bad('helper calls nested too deeply', e)
        try:
            src = textwrap.dedent(inspect.getsource(func))
        except (OSError, TypeError):
            bad('no source for %r' % (func,), e)
        fn = ast.parse(src).body[0]
        if not isinstance(fn, ast.FunctionDef) or fn.decorator_list and self_kind is not None:
            bad('helper %s is not a plain function' % getattr(func, '__name__', '?'), e)
        a = fn.args
        if a.vararg or a.kwarg or a.kwonlyargs:
            bad('parameter list of helper %s' % fn.name, e)
        params = [p.arg for p in a.posonlyargs + a.args]
        env: Dict[str, Tuple[str, str]] = {}
        pre: List[str] = []
        if self_kind is not None:
            if not params:
                bad('method %s without self' % fn.name, e)
            env[params[0]] = ('static', self_kind)
            params = params[1:]
        if any(isinstance(x, ast.Starred) for x in e.args) or any(k.arg is None for k in e.keywords):
            bad('star arguments', e)
        given: Dict[str, ast.AST] = {}
        if len(e.args) > len(params):
            bad('too many arguments for %s' % fn.name, e)
        for p, x in zip(params, e.args):
            given[p] = x
        for k in e.keywords:
            if k.arg not in params or k.arg in given:
                bad('keyword argument %s of %s' % (k.arg, fn.name), e)
            given[k.arg] = k.value
        defaults = dict(zip(params[len(params) - len(a.defaults):], a.defaults))
        callee = Scope(self.u, fn, getattr(func, '__globals__', self.globs), {})
        for p in params:
            if p in given:
                st = self.static_of(given[p])
                if st is not None:
                    env[p] = ('static', st)
                else:
                    v = self.u.fresh(fn.name + '_' + p)
                    pre.append('SAssign %s (%s)' % (v, self.expr(given[p])))
                    env[p] = ('var', v)
            elif p in defaults:
                v = self.u.fresh(fn.name + '_' + p)
                pre.append('SAssign %s (%s)' % (v, callee.expr(defaults[p])))
                env[p] = ('var', v)
            else:
                bad('missing argument %s of %s' % (p, fn.name), e)
        callee.env = env
        callee.assigned = set(env)
        self.u.depth += 1
        body = callee.block(strip_doc(fn.body))
        self.u.depth -= 1
        return 'XCall (%s)' % seq(pre + [body])

    # ---------------------------------------------------------------- statements
    def local(self, name: str) -> str:
        if name in self.env:
            kind, val = self.env[name]
            if kind != 'var':
                bad('assignment to the parameter %s' % name)
            return val
        v = self.u.fresh(self.fn.name + '_' + name)
        self.env[name] = ('var', v)
        return v

    def block(self, stmts: List[ast.stmt]) -> str:
        out = [self.stmt(s) for s in stmts]
        return seq([o for o in out if o is not None])

    def stmt(self, s: ast.stmt) -> Optional[str]:
        if isinstance(s, ast.Pass):
            return None
        if isinstance(s, ast.Expr) and isinstance(s.value, ast.Constant):
            return None                                           # docstring / attribute docstring
        if isinstance(s, ast.AnnAssign):
            if s.value is None:
                return None
            s = ast.copy_location(ast.Assign(targets=[s.target], value=s.value), s)
        if isinstance(s, ast.Assign):
            if len(s.targets) != 1:
                bad('assignment target', s)
            t = s.targets[0]
            if isinstance(t, ast.Name):
                # a local name for a module-level function / class / constant: `get_precedence = astor.op_util.get_op_precedence`
                ok, obj = self.resolve(s.value)
                if ok and (callable(obj) or isinstance(obj, (type, tuple))) and t.id not in self.env:
                    self.env[t.id] = ('global', obj)
                    self.assigned.add(t.id)
                    return None
                if t.id in self.env and self.env[t.id][0] == 'global':
                    bad('rebinding of the alias %s' % t.id, s)
                rhs = self.expr(s.value)
                v = self.local(t.id)
                self.assigned.add(t.id)
                return 'SAssign %s (%s)' % (v, rhs)
            if isinstance(t, ast.Attribute) and self.static_of(t.value) == 'delim':
                if t.attr == 'discard':
                    return 'SSetDiscard (%s)' % self.expr(s.value)
                # a parameter (or state.mark()) stored for __enter__/__exit__: never read by the decision
                st = self.static_of(s.value)
                if st is not None:
                    self.alias[t.attr] = st
                    return None
                v = s.value
                if (isinstance(v, ast.Call) and isinstance(v.func, ast.Attribute) and v.func.attr == 'mark'
                        and self.static_of(v.func.value) == 'state' and not v.args and not v.keywords):
                    return None
                bad('value stored on the delimiter', s)
            bad('assignment target', s)
        if isinstance(s, ast.AugAssign):
            if not (isinstance(s.target, ast.Name) and isinstance(s.op, ast.Add)):
                bad('augmented assignment', s)
            cur = self.expr(ast.copy_location(ast.Name(id=s.target.id, ctx=ast.Load()), s))
            return 'SAssign %s (XAdd (%s) (%s))' % (self.local(s.target.id), cur, self.expr(s.value))
        if isinstance(s, ast.If):
            c = self.expr(s.test)
            before = set(self.assigned)
            th = self.block(s.body)
            a1 = self.assigned
            self.assigned = set(before)
            el = self.block(s.orelse)
            # a branch that always returns does not constrain what is bound afterwards
            t_ret, e_ret = always_returns(s.body), always_returns(s.orelse)
            if t_ret and not e_ret:
                pass
            elif e_ret and not t_ret:
                self.assigned = a1
            else:
                self.assigned = a1 & self.assigned
            return 'SIf (%s) (%s) (%s)' % (c, th, el)
        if isinstance(s, ast.Return):
            return 'SReturn (%s)' % ('None' if s.value is None else 'Some (%s)' % self.expr(s.value))
        if isinstance(s, ast.Try):
            if s.orelse or s.finalbody or len(s.handlers) != 1:
                bad('try with else/finally/several handlers', s)
            h = s.handlers[0]
            ok, cls = self.resolve(h.type) if h.type is not None else (False, None)
            if not ok or cls is not StopIteration or h.name:
                bad('except clause other than `except StopIteration:`', h)
            before = set(self.assigned)
            body = self.block(s.body)
            after = self.assigned
            self.assigned = set(before)
            hb = self.block(h.body)
            if always_returns(h.body):
                self.assigned = after
            else:
                self.assigned = after & self.assigned
            return 'STryStop (%s) (%s)' % (body, hb)
        if isinstance(s, ast.Expr) and isinstance(s.value, ast.Call):
            return 'SExpr (%s)' % self.expr(s.value)
        bad('statement %s' % type(s).__name__, s)
        return None


def always_returns(stmts: List[ast.stmt]) -> bool:
    if not stmts:
        return False
    last = stmts[-1]
    if isinstance(last, (ast.Return, ast.Raise)):
        return True
    if isinstance(last, ast.If):
        return always_returns(last.body) and always_returns(last.orelse)
    return False


def seq(parts: List[str]) -> str:
    if not parts:
        return 'SSkip'
    r = parts[-1]
    for p in reversed(parts[:-1]):
        r = 'SSeq (%s) (%s)' % (p, r)
    return r


def strip_doc(body: List[ast.stmt]) -> List[ast.stmt]:
    if body and isinstance(body[0], ast.Expr) and isinstance(body[0].value, ast.Constant) and isinstance(body[0].value.value, str):
        return body[1:]
    return body


def generate() -> Dict[str, str]:
    from pydoctor.epydoc.markup import _pyval_repr as R
    init = inspect.getattr_static(R._OperatorDelimiter, '__init__')
    if not inspect.isfunction(init):
        bad('_OperatorDelimiter.__init__ is not a plain function')
    fn = ast.parse(textwrap.dedent(inspect.getsource(init))).body[0]
    a = fn.args
    names = [p.arg for p in a.posonlyargs + a.args]
    if a.vararg or a.kwarg or a.kwonlyargs or a.defaults or len(names) != 4:
        bad('parameters of _OperatorDelimiter.__init__', fn)
    # how the three arguments are used by the callers: _OperatorDelimiter(self, state, pyval)
    callers = [n for n in ast.walk(ast.parse(inspect.getsource(R))) if isinstance(n, ast.Call)
               and isinstance(n.func, ast.Name) and n.func.id == '_OperatorDelimiter']
    if not callers or any(len(c.args) != 3 or c.keywords or ast.unparse(c.args[0]) != 'self' for c in callers):
        bad('_OperatorDelimiter is not constructed as _OperatorDelimiter(self, state, node) everywhere')
    u = Unit()
    sc = Scope(u, fn, R.__dict__, {names[0]: ('static', 'delim'), names[1]: ('static', 'colorizer'),
                                    names[2]: ('static', 'state'), names[3]: ('static', 'node')})
    code = sc.block(strip_doc(fn.body))
    probe_exit()

    delimited = probe_dispatch()

    lines = ['From Coq Require Import NArith List.', 'Import ListNotations.',
             'From PydoctorVerif Require Import Base.PyExpr Model.DelimIR.', 'Local Open Scope N_scope.', '']
    lines.append('(* locals of _OperatorDelimiter.__init__ and of the helpers inlined into it *)')
    for i, v in enumerate(u.vars):
        lines.append('Definition %s : var := %d.' % (v, i))
    lines.append('Definition delim_init_code : stmt :=')
    lines.append(textwrap.fill(code, 110, initial_indent='  ', subsequent_indent='  ', break_long_words=False) + '.')
    lines.append('')
    lines.append('(* which node classes PyvalColorizer._colorize_ast displays under an _OperatorDelimiter built for that very node')
    lines.append('   (observed on the live code, one representative node per class) *)')
    lines.append('Definition code_delimited (k : nodecls) : bool :=')
    lines.append('  match k with')
    for k, v in delimited:
        lines.append('  | %s => %s' % (k, 'true' if v else 'false'))
    lines.append('  end.')
    return {'DelimCode.v': '\n'.join(lines) + '\n'}


def probe_exit() -> None:
    """__exit__ puts what was emitted since the constructor between ( and ) exactly when self.discard is false, and leaves
    it alone otherwise -- checked on the live code (whatever its control flow) for both values of the flag."""
    from docutils import nodes
    from pydoctor.epydoc.markup import _pyval_repr as R
    for flag in (True, False):
        col = R.PyvalColorizer(linelen=None, maxlines=0, linebreakok=False)
        st = R._ColorizerState()
        st.linebreakok = False
        st.result.append(nodes.Text('before'))
        node = ast.UnaryOp(op=ast.USub(), operand=ast.Name(id='a', ctx=ast.Load()))
        ast.fix_missing_locations(node)
        d = R._OperatorDelimiter(col, st, node)
        if not hasattr(d, 'discard'):
            bad('_OperatorDelimiter has no attribute discard')
        d.discard = flag
        with d:
            st.result.append(nodes.Text('x'))
            st.result.append(nodes.Text('y'))
        got = [n.astext() for n in st.result]
        want = ['before', 'x', 'y'] if flag else ['before', '(', 'x', 'y', ')']
        if got != want:
            bad('_OperatorDelimiter.__exit__ with discard=%s leaves %r, expected %r' % (flag, got, want))


def probe_dispatch() -> List[Tuple[str, bool]]:
    """The dispatch of _colorize_ast, by what it DOES: for one representative node of every class the model distinguishes,
    is an _OperatorDelimiter constructed with (the colouriser, the state, that node)?"""
    from pydoctor.epydoc.markup import _pyval_repr as R
    n = lambda s: ast.Name(id=s, ctx=ast.Load())
    reps = [
        ('NCConstant', ast.Constant(value=1)),
        ('NCUnaryOp', ast.UnaryOp(op=ast.USub(), operand=n('a'))),
        ('NCBinOp', ast.BinOp(left=n('a'), op=ast.Add(), right=n('b'))),
        ('NCBoolOp', ast.BoolOp(op=ast.And(), values=[n('a'), n('b')])),
        ('NCList', ast.List(elts=[n('a')], ctx=ast.Load())),
        ('NCTuple', ast.Tuple(elts=[n('a'), n('b')], ctx=ast.Load())),
        ('NCSet', ast.Set(elts=[n('a')])),
        ('NCDict', ast.Dict(keys=[n('a')], values=[n('b')])),
        ('NCName', n('a')),
        ('NCAttribute', ast.Attribute(value=n('a'), attr='b', ctx=ast.Load())),
        ('NCSubscript', ast.Subscript(value=n('a'), slice=n('b'), ctx=ast.Load())),
        ('NCCall', ast.Call(func=n('f'), args=[n('a')], keywords=[])),
        ('NCStarred', ast.Starred(value=n('a'), ctx=ast.Load())),
        ('NCOther', ast.Compare(left=n('a'), ops=[ast.Lt()], comparators=[n('b')])),
    ]
    real = R._OperatorDelimiter
    out: List[Tuple[str, bool]] = []
    try:
        for name, node in reps:
            ast.fix_missing_locations(node)
            seen: List[Tuple[Any, Any, Any]] = []

            class Rec(real):          # type: ignore[misc, valid-type]
                def __init__(self, colorizer: Any, state: Any, nd: Any) -> None:
                    seen.append((colorizer, state, nd))
                    real.__init__(self, colorizer, state, nd)
            R._OperatorDelimiter = Rec
            col = R.PyvalColorizer(linelen=None, maxlines=0, linebreakok=False)
            st = R._ColorizerState()
            st.linebreakok = False
            col._colorize_ast(node, st)
            mine = [x for x in seen if x[2] is node]
            if mine and not all(x[0] is col and x[1] is st for x in mine):
                bad('_OperatorDelimiter built for %s with other arguments than (self, state, node)' % name)
            if len(mine) > 1:
                bad('%s is wrapped in more than one _OperatorDelimiter' % name)
            out.append((name, bool(mine)))
    finally:
        R._OperatorDelimiter = real
    return out


if __name__ == '__main__':
    print(generate()['DelimCode.v'])
