"""Translator A for C20 (second part): the BODIES of pydoctor/_configparser.py is_quoted, unquote_str and the per-item
part of IniConfigParser.parse, translated statement by statement into the deep-embedded language of Model/IniIR.v.
Proofs/IniIRProofs.v proves, for every text, that the interpretation of THIS output is Model/Quote.v / Model/IniValue.v;
so a change to the control flow or to a test of those functions changes Gen/IniCode.v and breaks that proof obligation,
not only the sampled correspondence.  Meaning-preserving rewrites (renamed locals, early return instead of nested if,
elif chains, a local assigned in every branch and stored once, the section filter hoisted into a comprehension) still
translate and still prove.

Normalisations done on the Python AST before the translation (each keeps the meaning):
  * a call of a helper defined in the same module / the same class (not recursive, parameters never re-bound) that
    is the whole right-hand side of an assignment / the returned value / the iterable of a list comprehension is
    INLINED: parameters are replaced by the (pure) argument expressions or bound to fresh locals, the helper's
    locals are renamed apart, its `return e` in tail positions become `<fresh> = e`;
  * try/except/else: `f = False; try: body; f = True except ...; if f: else-part` with a fresh local f;
  * R.match(x) without bool() where only its truth value is used (test of an if, operand of not/and/or inside one).

Fail-closed: any statement, expression, call or exception class outside the recognised shapes aborts the generation with
`unrecognised shape`.  Pinned (checked here, not translated): the prologue of IniConfigParser.parse (ConfigParser(),
read_string inside try/except -> ConfigFileParserException), the two loop headers, `return result`; exception MESSAGES are
not translated (any expression built from constants, f-strings, str(name), + of those).
"""
import ast
import inspect
import textwrap
from pathlib import Path

EXC_RAISE = {'ValueError': 'XValueError', 'ConfigFileParserException': 'XConfigError'}
EXC_CATCH = {'Exception': 'KException', 'ValueError': 'KValueError', 'ConfigFileParserException': 'KConfigError',
             'AssertionError': 'KAssertion'}
REGEX = {'_QUOTED_STR_REGEX': 'RQuoted', '_TRIPLE_QUOTED_STR_REGEX': 'RTriple'}
FUNCS = {'is_quoted': 'FIsQuoted', 'unquote_str': 'FUnquoteStr'}


class Bad(ValueError):
    pass


def bad(what, node=None):
    raise Bad('unrecognised shape: %s%s' % (what, (' at line %d: %s' % (node.lineno, ast.unparse(node)[:90]))
                                            if node is not None and hasattr(node, 'lineno') else ''))


def strip_doc(body):
    if body and isinstance(body[0], ast.Expr) and isinstance(body[0].value, ast.Constant) and isinstance(body[0].value.value, str):
        return body[1:]
    return body


def one_char(node):
    if isinstance(node, ast.Constant) and isinstance(node.value, str) and len(node.value) == 1:
        return ord(node.value)
    bad('expected a one-character string constant', node)


def is_message(e):
    """an expression that only builds a text from constants, names, str(name) and formatted values"""
    if isinstance(e, ast.Constant) and isinstance(e.value, str):
        return True
    if isinstance(e, ast.Name):
        return True
    if isinstance(e, ast.JoinedStr):
        return all(is_message(v) for v in e.values)
    if isinstance(e, ast.FormattedValue):
        return is_message(e.value) and (e.format_spec is None or is_message(e.format_spec))
    if isinstance(e, ast.BinOp) and isinstance(e.op, (ast.Add, ast.Mod)):
        return is_message(e.left) and is_message(e.right)
    if isinstance(e, ast.Call) and isinstance(e.func, ast.Name) and e.func.id in ('str', 'repr') and len(e.args) == 1 \
            and not e.keywords:
        return is_message(e.args[0])
    return False


class Fn:
    """translation of one function body (or of the item-loop body)"""
    def __init__(self, name, signatures, selfname=None, result=None, key=None):
        self.name = name
        self.sigs = signatures          # callee name -> [(param, default expr text or None), ...]
        self.selfname = selfname
        self.result = result            # name of the result dict (item body only)
        self.key = key                  # name of the key loop variable (item body only)
        self.vars = {}
        self.assigned = set()
        self.msg_only = set()           # locals that only ever hold message text / a caught exception

    def var(self, name):
        if name not in self.vars:
            self.vars[name] = len(self.vars)
        return 'v_%s_%s' % (self.name, name)

    def use(self, name, node):
        if name not in self.assigned:
            bad('local %r read before it is bound' % name, node)
        return self.var(name)

    # ---- expressions
    def expr(self, e, boolctx=False):
        if boolctx and isinstance(e, ast.Call) and isinstance(e.func, ast.Attribute) and e.func.attr == 'match' \
                and isinstance(e.func.value, ast.Name) and e.func.value.id in REGEX and len(e.args) == 1 and not e.keywords:
            # only the truth value of the match object is used here
            return 'EReMatch %s (%s)' % (REGEX[e.func.value.id], self.expr(e.args[0]))
        if isinstance(e, ast.Name):
            return 'EVar %s' % self.use(e.id, e)
        if isinstance(e, ast.Constant):
            if e.value is True:
                return 'EConstBool true'
            if e.value is False:
                return 'EConstBool false'
            if e.value is None:
                return 'ENone'
            if isinstance(e.value, str):
                return 'EConstStr [%s]' % '; '.join(str(ord(c)) for c in e.value)
            bad('constant', e)
        if isinstance(e, ast.Attribute) and isinstance(e.value, ast.Name) and e.value.id == self.selfname \
                and e.attr == 'split_ml_text_to_list':
            return 'ESplitFlag'
        if isinstance(e, ast.UnaryOp) and isinstance(e.op, ast.Not):
            return 'ENot (%s)' % self.expr(e.operand, True)
        if isinstance(e, ast.BoolOp):
            op = 'EAnd' if isinstance(e.op, ast.And) else 'EOr'
            parts = [self.expr(v, boolctx) for v in e.values]
            r = parts[-1]
            for p in reversed(parts[:-1]):          # a and b and c == a and (b and c), values and short-circuit alike
                r = '%s (%s) (%s)' % (op, p, r)
            return r
        if isinstance(e, ast.IfExp):
            return 'EIfExp (%s) (%s) (%s)' % (self.expr(e.test), self.expr(e.body), self.expr(e.orelse))
        if isinstance(e, ast.Compare) and len(e.ops) == 1:
            op, l, r = e.ops[0], e.left, e.comparators[0]
            if isinstance(op, ast.In):
                return 'EContains %d (%s)' % (one_char(l), self.expr(r))
            if isinstance(op, ast.NotIn):
                return 'ENot (EContains %d (%s))' % (one_char(l), self.expr(r))
            bad('comparison', e)
        if isinstance(e, ast.ListComp):
            if len(e.generators) != 1 or e.generators[0].is_async or not isinstance(e.generators[0].target, ast.Name):
                bad('comprehension', e)
            g = e.generators[0]
            t = g.target.id
            src = self.expr(g.iter)
            # [i for i in X if i]
            if isinstance(e.elt, ast.Name) and e.elt.id == t and len(g.ifs) == 1 and isinstance(g.ifs[0], ast.Name) \
                    and g.ifs[0].id == t:
                return 'EFilterTruthy (%s)' % src
            # [str(i) for i in X]
            if isinstance(e.elt, ast.Call) and isinstance(e.elt.func, ast.Name) and e.elt.func.id == 'str' \
                    and len(e.elt.args) == 1 and isinstance(e.elt.args[0], ast.Name) and e.elt.args[0].id == t \
                    and not e.elt.keywords and not g.ifs:
                return 'EStrItems (%s)' % src
            bad('comprehension', e)
        if isinstance(e, ast.Call):
            f = e.func
            if isinstance(f, ast.Name):
                if f.id == 'bool' and len(e.args) == 1 and not e.keywords:
                    a = e.args[0]
                    # bool(R.match(x))
                    if isinstance(a, ast.Call) and isinstance(a.func, ast.Attribute) and a.func.attr == 'match' \
                            and isinstance(a.func.value, ast.Name) and a.func.value.id in REGEX and len(a.args) == 1 \
                            and not a.keywords:
                        return 'EReMatch %s (%s)' % (REGEX[a.func.value.id], self.expr(a.args[0]))
                    return 'EBool (%s)' % self.expr(a, True)
                if f.id == 'literal_eval' and len(e.args) == 1 and not e.keywords:
                    return 'ELiteralEval (%s)' % self.expr(e.args[0])
                if f.id == 'isinstance' and len(e.args) == 2 and not e.keywords and isinstance(e.args[1], ast.Name) \
                        and e.args[1].id in ('list', 'str'):
                    return 'EIsInstance (%s) %s' % (self.expr(e.args[0]), 'TyList' if e.args[1].id == 'list' else 'TyString')
                if f.id in FUNCS:
                    sig = self.sigs[f.id]
                    if len(e.args) > len(sig):
                        bad('too many arguments', e)
                    given = {}
                    for (p, _), a in zip(sig, e.args):
                        given[p] = self.expr(a)
                    for kw in e.keywords:
                        if kw.arg is None or kw.arg not in [p for p, _ in sig] or kw.arg in given:
                            bad('keyword argument', e)
                        given[kw.arg] = self.expr(kw.value)
                    args = []
                    for p, d in sig:
                        if p in given:
                            args.append(given[p])
                        elif d is not None:
                            args.append(d)
                        else:
                            bad('missing argument %s' % p, e)
                    return 'ECall %s (%s) (%s)' % (FUNCS[f.id], args[0], args[1])
                if f.id in ('str', 'repr') and is_message(e):
                    return 'EMessage'
            if isinstance(f, ast.Attribute) and not e.keywords:
                recv = f.value
                if f.attr in ('startswith', 'endswith') and len(e.args) == 1:
                    return '%s (%s) %d' % ('EStartsWith' if f.attr == 'startswith' else 'EEndsWith', self.expr(recv),
                                           one_char(e.args[0]))
                if f.attr in ('strip', 'lstrip', 'rstrip') and len(e.args) == 1:
                    sd = {'strip': 'SBoth', 'lstrip': 'SLeft', 'rstrip': 'SRight'}[f.attr]
                    return 'EStrip %s (%s) %d' % (sd, self.expr(recv), one_char(e.args[0]))
                if f.attr == 'split' and len(e.args) == 1:
                    return 'ESplit (%s) %d' % (self.expr(recv), one_char(e.args[0]))
            bad('call', e)
        if isinstance(e, (ast.JoinedStr, ast.BinOp)) and is_message(e):
            return 'EMessage'
        bad('expression %s' % type(e).__name__, e)

    # ---- statements
    def block(self, stmts):
        out = [self.stmt(s) for s in stmts]
        out = [o for o in out if o is not None]
        if not out:
            return 'SSkip'
        r = out[-1]
        for o in reversed(out[:-1]):
            r = 'SSeq (%s) (%s)' % (o, r)
        return r

    def stmt(self, s):
        if isinstance(s, ast.Pass):
            return None
        if isinstance(s, ast.Continue):
            if self.result is None:
                bad('continue outside the item loop', s)
            return 'SContinue'
        if isinstance(s, ast.Return):
            if self.result is not None:
                bad('return inside the item loop', s)
            return 'SReturn (%s)' % (self.expr(s.value) if s.value is not None else 'ENone')
        if isinstance(s, ast.AnnAssign):
            if not isinstance(s.target, ast.Name):
                bad('annotated assignment target', s)
            if s.value is None:
                return None                                    # a bare annotation binds nothing
            s = ast.Assign(targets=[s.target], value=s.value, lineno=s.lineno)
        if isinstance(s, ast.Assign):
            if len(s.targets) != 1:
                bad('assignment', s)
            t = s.targets[0]
            if isinstance(t, ast.Name):
                v = self.expr(s.value)
                out = 'SAssign %s (%s)' % (self.var(t.id), v)
                self.assigned.add(t.id)
                return out
            # result[key] = e
            if isinstance(t, ast.Subscript) and isinstance(t.value, ast.Name) and t.value.id == self.result \
                    and isinstance(t.slice, ast.Name) and t.slice.id == self.key:
                return 'SStore (%s)' % self.expr(s.value)
            bad('assignment target', s)
        if isinstance(s, ast.Assert):
            return 'SAssert (%s)' % self.expr(s.test)
        if isinstance(s, ast.Raise):
            x = s.exc
            if not (isinstance(x, ast.Call) and isinstance(x.func, ast.Name) and x.func.id in EXC_RAISE and not x.keywords
                    and len(x.args) == 1 and is_message(x.args[0])):
                bad('raise', s)
            if s.cause is not None and not isinstance(s.cause, ast.Name):
                bad('raise ... from', s)
            return 'SRaise %s' % EXC_RAISE[x.func.id]
        if isinstance(s, ast.If):
            c = self.expr(s.test, True)
            before = set(self.assigned)
            th = self.block(s.body)
            a1 = self.assigned
            self.assigned = set(before)
            el = self.block(s.orelse)
            # a branch that cannot fall through (ends in continue/return/raise) does not constrain what is bound after
            def leaves(b):
                return bool(b) and isinstance(b[-1], (ast.Continue, ast.Return, ast.Raise))
            if leaves(s.body):
                pass
            elif leaves(s.orelse):
                self.assigned = a1
            else:
                self.assigned = a1 & self.assigned
            return 'SIf (%s) (%s) (%s)' % (c, th, el)
        if isinstance(s, ast.Try):
            if s.orelse or s.finalbody:
                bad('try with else/finally', s)
            before = set(self.assigned)
            body = self.block(s.body)
            after_body = set(self.assigned)
            joined = set(after_body)
            handlers = []
            for h in s.handlers:
                if h.type is None:
                    bad('bare except', h)
                ts = h.type.elts if isinstance(h.type, ast.Tuple) else [h.type]
                ks = []
                for t in ts:
                    if not (isinstance(t, ast.Name) and t.id in EXC_CATCH):
                        bad('except clause class', t)
                    ks.append(EXC_CATCH[t.id])
                self.assigned = set(before)
                bind = 'None'
                if h.name:
                    bind = 'Some %s' % self.var(h.name)
                    self.assigned.add(h.name)
                hb = self.block(h.body)
                if h.name:
                    self.assigned.discard(h.name)
                if not (h.body and isinstance(h.body[-1], (ast.Raise, ast.Continue, ast.Return))):
                    joined &= self.assigned
                handlers.append((ks, bind, hb))
            hs = 'HNil'
            for ks, bind, hb in reversed(handlers):
                hs = 'HCons [%s] (%s) (%s) (%s)' % ('; '.join(ks), bind, hb, hs)
            self.assigned = joined
            return 'STry (%s) (%s)' % (body, hs)
        bad('statement %s' % type(s).__name__, s)



# ------------------------------------------------------------------------------------------------ AST normalisation
def always_leaves(stmts):
    if not stmts:
        return False
    s = stmts[-1]
    if isinstance(s, (ast.Return, ast.Raise, ast.Continue)):
        return True
    if isinstance(s, ast.If):
        return always_leaves(s.body) and always_leaves(s.orelse)
    if isinstance(s, ast.Try):
        return not s.orelse and not s.finalbody and always_leaves(s.body) and all(always_leaves(h.body) for h in s.handlers)
    return False


def has_return(node):
    return any(isinstance(n, ast.Return) for n in ast.walk(node))


def name_load(n):
    return ast.Name(id=n, ctx=ast.Load())


def assign(n, value):
    return ast.Assign(targets=[ast.Name(id=n, ctx=ast.Store())], value=value)


class Rename(ast.NodeTransformer):
    def __init__(self, subst, ren):
        self.subst, self.ren = subst, ren

    def visit_Name(self, n):
        if n.id in self.subst:
            if not isinstance(n.ctx, ast.Load):
                bad('helper re-binds its parameter %r' % n.id, n)
            import copy
            return copy.deepcopy(self.subst[n.id])
        if n.id in self.ren:
            return ast.Name(id=self.ren[n.id], ctx=n.ctx)
        return n

    def visit_ExceptHandler(self, h):
        self.generic_visit(h)
        if h.name and h.name in self.ren:
            h.name = self.ren[h.name]
        return h


class Normaliser:
    """inlines helper calls, removes try/else; see the module docstring"""
    def __init__(self, helpers, selfname):
        self.helpers = helpers          # name -> FunctionDef (module level)   'self.name' -> FunctionDef (method)
        self.selfname = selfname
        self.n = 0
        self.depth = 0

    def fresh(self, base):
        self.n += 1
        return '_n%d_%s' % (self.n, base)

    def callee(self, c):
        if not isinstance(c, ast.Call):
            return None
        f = c.func
        if isinstance(f, ast.Name) and f.id in self.helpers:
            return self.helpers[f.id], False
        if isinstance(f, ast.Attribute) and isinstance(f.value, ast.Name) and f.value.id == self.selfname \
                and ('self.' + f.attr) in self.helpers:
            return self.helpers['self.' + f.attr], True
        return None

    def site(self, e):
        """(get, set) for the helper call this expression holds in an inlinable position, or None"""
        if e is None:
            return None
        if self.callee(e):
            return e, (lambda new: new)
        if isinstance(e, ast.ListComp) and len(e.generators) == 1 and self.callee(e.generators[0].iter):
            def put(new, e=e):
                g = e.generators[0]
                return ast.ListComp(elt=e.elt, generators=[ast.comprehension(target=g.target, iter=new, ifs=g.ifs,
                                                                              is_async=g.is_async)])
            return e.generators[0].iter, put
        # a helper call anywhere else would have to be evaluated out of order: refuse
        for n in ast.walk(e):
            if self.callee(n):
                bad('call of a helper in a position that cannot be inlined', e)
        return None

    def ret2assign(self, stmts, tmp):
        out = []
        for i, s in enumerate(stmts):
            rest = stmts[i + 1:]
            if isinstance(s, ast.Return):
                out.append(assign(tmp, s.value if s.value is not None else ast.Constant(value=None)))
                return out
            if not has_return(s):
                out.append(s)
                continue
            if isinstance(s, ast.If):
                if always_leaves(s.body):
                    out.append(ast.If(test=s.test, body=self.ret2assign(s.body, tmp),
                                      orelse=self.ret2assign(list(s.orelse) + rest, tmp)))
                    return out
                if s.orelse and always_leaves(s.orelse):
                    out.append(ast.If(test=s.test, body=self.ret2assign(list(s.body) + rest, tmp),
                                      orelse=self.ret2assign(s.orelse, tmp)))
                    return out
                bad('helper returns from a branch that may also fall through', s)
            if isinstance(s, ast.Try) and not s.orelse and not s.finalbody and always_leaves([s]):
                hs = [ast.ExceptHandler(type=h.type, name=h.name, body=self.ret2assign(h.body, tmp)) for h in s.handlers]
                out.append(ast.Try(body=self.ret2assign(s.body, tmp), handlers=hs, orelse=[], finalbody=[]))
                return out
            bad('return inside a statement of a helper that cannot be normalised', s)
        if not always_leaves(out):
            out.append(assign(tmp, ast.Constant(value=None)))      # falls off the end: returns None
        return out

    def expand(self, call, tmp):
        """statements that compute the helper call into the fresh local tmp"""
        fn, is_method = self.callee(call)
        self.depth += 1
        if self.depth > 6:
            bad('helpers nest too deep (recursive?)', call)
        a = fn.args
        if a.vararg or a.kwarg or a.kwonlyargs or a.posonlyargs or fn.decorator_list:
            bad('signature / decorators of helper %s' % fn.name, fn)
        params = [x.arg for x in a.args]
        if is_method:
            if not params or params[0] != self.selfname:
                bad('first parameter of method %s' % fn.name, fn)
            params = params[1:]
        defaults = [None] * (len(params) - len(a.defaults)) + list(a.defaults)
        given = {}
        if len(call.args) > len(params):
            bad('too many arguments for %s' % fn.name, call)
        for p_, x in zip(params, call.args):
            given[p_] = x
        for kw in call.keywords:
            if kw.arg is None or kw.arg not in params or kw.arg in given:
                bad('keyword argument for %s' % fn.name, call)
            given[kw.arg] = kw.value
        pre, subst = [], {}
        for p_, d in zip(params, defaults):
            x = given.get(p_, d)
            if x is None:
                bad('missing argument %s of %s' % (p_, fn.name), call)
            pure = isinstance(x, (ast.Name, ast.Constant)) or (
                isinstance(x, ast.Attribute) and isinstance(x.value, ast.Name) and x.value.id == self.selfname)
            if pure:
                subst[p_] = x
            else:
                v = self.fresh(p_)
                pre.append(assign(v, x))
                subst[p_] = name_load(v)
        body = strip_doc(fn.body)
        for n in ast.walk(ast.Module(body=body, type_ignores=[])):
            if isinstance(n, (ast.FunctionDef, ast.Lambda, ast.Global, ast.Nonlocal, ast.ClassDef, ast.Yield, ast.YieldFrom,
                              ast.For, ast.While, ast.With)):
                bad('helper %s contains %s' % (fn.name, type(n).__name__), n)
        locs = set()
        for n in ast.walk(ast.Module(body=body, type_ignores=[])):
            if isinstance(n, ast.Name) and isinstance(n.ctx, ast.Store) and n.id not in subst:
                locs.add(n.id)
            if isinstance(n, ast.ExceptHandler) and n.name:
                locs.add(n.name)
            if isinstance(n, ast.comprehension) and isinstance(n.target, ast.Name):
                locs.discard(n.target.id)
        ren = dict((l, self.fresh(l)) for l in sorted(locs))
        import copy
        body = [Rename(subst, ren).visit(copy.deepcopy(st)) for st in body]
        out = pre + self.block(self.ret2assign(body, tmp))
        self.depth -= 1
        return out

    def block(self, stmts):
        out = []
        for s in stmts:
            out.extend(self.stmt(s))
        return out

    def stmt(self, s):
        if isinstance(s, ast.If):
            if self.site(s.test):
                bad('helper call in the test of an if', s)
            return [ast.If(test=s.test, body=self.block(s.body), orelse=self.block(s.orelse))]
        if isinstance(s, ast.Try):
            if s.finalbody:
                bad('try/finally', s)
            hs = [ast.ExceptHandler(type=h.type, name=h.name, body=self.block(h.body)) for h in s.handlers]
            body = self.block(s.body)
            if not s.orelse:
                return [ast.Try(body=body, handlers=hs, orelse=[], finalbody=[])]
            flag = self.fresh('no_exception')
            return [assign(flag, ast.Constant(value=False)),
                    ast.Try(body=body + [assign(flag, ast.Constant(value=True))], handlers=hs, orelse=[], finalbody=[]),
                    ast.If(test=name_load(flag), body=self.block(s.orelse), orelse=[])]
        if isinstance(s, (ast.Assign, ast.AnnAssign, ast.Return, ast.Expr)):
            st = self.site(getattr(s, 'value', None))
            if st is None:
                return [s]
            call, put = st
            tmp = self.fresh('ret')
            pre = self.expand(call, tmp)
            new_value = put(name_load(tmp))
            if isinstance(s, ast.Assign):
                new = ast.Assign(targets=s.targets, value=new_value)
            elif isinstance(s, ast.AnnAssign):
                new = ast.Assign(targets=[s.target], value=new_value)
            elif isinstance(s, ast.Return):
                new = ast.Return(value=new_value)
            else:
                new = ast.Expr(value=new_value)
            return pre + [new]
        for n in ast.walk(s):
            if self.callee(n):
                bad('helper call inside %s' % type(s).__name__, s)
        return [s]


def pin(cond, what):
    if not cond:
        bad('pinned code changed: ' + what)


def signature(fn):
    a = fn.args
    if a.vararg or a.kwarg or a.kwonlyargs or a.posonlyargs:
        bad('parameter list of %s' % fn.name, fn)
    names = [x.arg for x in a.args]
    defaults = [None] * (len(names) - len(a.defaults)) + list(a.defaults)
    out = []
    for n, d in zip(names, defaults):
        if d is None:
            out.append((n, None))
        elif isinstance(d, ast.Constant) and d.value in (True, False) and isinstance(d.value, bool):
            out.append((n, 'EConstBool true' if d.value else 'EConstBool false'))
        else:
            bad('default of parameter %s of %s' % (n, fn.name), fn)
    return out


def find_fn(body, name):
    fs = [n for n in body if isinstance(n, ast.FunctionDef) and n.name == name]
    if len(fs) != 1:
        bad('%s not found exactly once' % name)
    return fs[0]


def item_loop(parse):
    """Recognises the two loops of IniConfigParser.parse; returns (item body statements, key name, value name, result name)."""
    body = strip_doc(parse.body)
    pin([a.arg for a in parse.args.args] == ['self', 'stream'], 'parse(self, stream)')
    pin(len(body) >= 5, 'IniConfigParser.parse is too short')
    pin(ast.unparse(body[0]) == 'config = configparser.ConfigParser()', 'config = configparser.ConfigParser()')
    t = body[1]
    pin(isinstance(t, ast.Try) and [ast.unparse(x) for x in t.body] == ['config.read_string(stream.read())']
        and len(t.handlers) == 1 and ast.unparse(t.handlers[0].type) == 'Exception' and not t.orelse and not t.finalbody
        and len(t.handlers[0].body) == 1 and isinstance(t.handlers[0].body[0], ast.Raise)
        and ast.unparse(t.handlers[0].body[0].exc).startswith('ConfigFileParserException('), 'read_string try/except')
    rest = body[2:]
    pin(isinstance(rest[-1], ast.Return) and isinstance(rest[-1].value, ast.Name), 'return <result>')
    result = rest[-1].value.id
    rest = rest[:-1]
    SECS = ('config.sections() + [configparser.DEFAULTSECT]', '[*config.sections(), configparser.DEFAULTSECT]')
    selected = None
    loops = []
    seen_result = False
    for s in rest:
        if isinstance(s, (ast.Assign, ast.AnnAssign)) and isinstance((s.targets[0] if isinstance(s, ast.Assign) else s.target), ast.Name):
            tgt = (s.targets[0] if isinstance(s, ast.Assign) else s.target).id
            val = ast.unparse(s.value) if s.value is not None else None
            if tgt == result and val == 'OrderedDict()' and not seen_result:
                seen_result = True
                continue
            # selected = [n for n in <sections> if n in self.sections]   (a list or a generator, used once)
            v = s.value
            if (selected is None and isinstance(v, (ast.ListComp, ast.GeneratorExp)) and len(v.generators) == 1
                    and isinstance(v.generators[0].target, ast.Name) and isinstance(v.elt, ast.Name)
                    and v.elt.id == v.generators[0].target.id and ast.unparse(v.generators[0].iter) in SECS
                    and len(v.generators[0].ifs) == 1
                    and ast.unparse(v.generators[0].ifs[0]) == '%s in self.sections' % v.elt.id):
                selected = tgt
                continue
            bad('statement before the section loop', s)
        if isinstance(s, ast.For):
            loops.append(s)
            continue
        bad('statement in IniConfigParser.parse', s)
    pin(seen_result, '<result> = OrderedDict()')
    pin(len(loops) == 1, 'exactly one section loop')
    outer = loops[0]
    pin(isinstance(outer.target, ast.Name) and not outer.orelse, 'section loop header')
    sec = outer.target.id
    ob = list(outer.body)
    if selected is not None:
        pin(ast.unparse(outer.iter) == selected, 'section loop iterates over the filtered list')
    else:
        pin(ast.unparse(outer.iter) in SECS, 'section loop iterable')
        f = ob[0] if ob else None
        if (isinstance(f, ast.If) and not f.orelse and len(f.body) == 1 and isinstance(f.body[0], ast.Continue)
                and ast.unparse(f.test) == '%s not in self.sections' % sec):
            ob = ob[1:]                                     # if <section> not in self.sections: continue
        elif (len(ob) == 1 and isinstance(f, ast.If) and not f.orelse
              and ast.unparse(f.test) == '%s in self.sections' % sec):
            ob = list(f.body)                               # if <section> in self.sections: <item loop>
        else:
            pin(False, 'the section loop filters on membership in self.sections')
    pin(len(ob) == 1 and isinstance(ob[0], ast.For), 'the section loop holds exactly the item loop')
    inner = ob[0]
    pin(not inner.orelse and isinstance(inner.target, ast.Tuple) and len(inner.target.elts) == 2
        and all(isinstance(x, ast.Name) for x in inner.target.elts)
        and ast.unparse(inner.iter) == 'config[%s].items()' % sec, 'item loop header')
    return inner.body, inner.target.elts[0].id, inner.target.elts[1].id, result


def generate() -> dict:
    from pydoctor import _configparser as C
    src = Path(inspect.getsourcefile(C)).read_text()
    tree = ast.parse(src)
    fq = find_fn(tree.body, 'is_quoted')
    fu = find_fn(tree.body, 'unquote_str')
    cls = [n for n in tree.body if isinstance(n, ast.ClassDef) and n.name == 'IniConfigParser']
    pin(len(cls) == 1, 'class IniConfigParser')
    parse = find_fn(cls[0].body, 'parse')
    # decorators: is_quoted may be memoised (pure function), nothing else
    for d in fq.decorator_list:
        pin(ast.unparse(d).startswith('functools.lru_cache'), 'decorator of is_quoted: ' + ast.unparse(d))
    pin(not fu.decorator_list and not parse.decorator_list, 'decorators of unquote_str / parse')
    # names the bodies use must be the module-level ones
    pin(C.literal_eval.__module__ == 'ast' and C.literal_eval.__name__ == 'literal_eval', 'literal_eval is ast.literal_eval')
    init = find_fn(cls[0].body, '__init__')
    pin('self.split_ml_text_to_list = split_ml_text_to_list' in [ast.unparse(s) for s in init.body]
        and 'self.sections = sections' in [ast.unparse(s) for s in init.body], 'IniConfigParser.__init__')

    helpers = {}
    for n in tree.body:
        if isinstance(n, ast.FunctionDef) and n.name not in FUNCS:
            helpers[n.name] = n
    for n in cls[0].body:
        if isinstance(n, ast.FunctionDef) and n.name not in ('parse', '__init__', '__call__'):
            helpers['self.' + n.name] = n
    norm = Normaliser(helpers, 'self')
    sigs = {'is_quoted': signature(fq), 'unquote_str': signature(fu)}
    for n, sg in sigs.items():
        pin(len(sg) == 2, '%s takes two parameters' % n)

    out = ['From Coq Require Import NArith List.', 'Import ListNotations.',
           'From PydoctorVerif Require Import Model.IniIR.', 'Local Open Scope N_scope.', '']
    recs = {}
    for name, fn, allowed in (('is_quoted', fq, {}), ('unquote_str', fu, {'is_quoted': sigs['is_quoted']})):
        m = Fn(name, allowed)
        for p, _ in sigs[name]:
            m.var(p)
            m.assigned.add(p)
        text = m.block(norm.block(strip_doc(fn.body)))
        out.append('(* locals of %s *)' % name)
        for py, i in m.vars.items():
            out.append('Definition v_%s_%s : var := %d.' % (name, py, i))
        out.append('Definition body_%s : stmt :=' % name)
        out.append(textwrap.fill(text, 110, initial_indent='  ', subsequent_indent='  ', break_long_words=False) + '.')
        out.append('Definition code_%s : fdef := {| f_p1 := v_%s_%s; f_p2 := v_%s_%s; f_body := body_%s |}.'
                   % (name, name, sigs[name][0][0], name, sigs[name][1][0], name))
        out.append('')
        recs[name] = m
    body, key, val, result = item_loop(parse)
    m = Fn('item', sigs, selfname='self', result=result, key=key)
    for p in (key, val):
        m.var(p)
        m.assigned.add(p)
    text = m.block(norm.block(body))
    out.append('(* locals of the item loop of IniConfigParser.parse *)')
    for py, i in m.vars.items():
        out.append('Definition v_item_%s : var := %d.' % (py, i))
    out.append('Definition body_item : stmt :=')
    out.append(textwrap.fill(text, 110, initial_indent='  ', subsequent_indent='  ', break_long_words=False) + '.')
    out.append('')
    out.append('Definition ini_code : code :=')
    out.append('  {| c_is_quoted := code_is_quoted; c_unquote_str := code_unquote_str; c_item_body := body_item;')
    out.append('     c_key := v_item_%s; c_value := v_item_%s |}.' % (key, val))
    return {'IniCode.v': '\n'.join(out) + '\n'}


if __name__ == '__main__':
    print(generate()['IniCode.v'])
