"""Translator A for C03 (code): the BODIES of
    pydoctor/astutils.py   infer_type, _annotation_for_value, _annotation_for_elements
    pydoctor/model.py      is_exception
    pydoctor/astbuilder.py ModuleVistor._handleOldSchoolMethodDecoration
translated statement by statement into the deep-embedded language of Model/BuilderIR.v (-> Gen/BuilderCode.v).
Proofs/BuilderIRProofs.v proves, for all inputs, that interpreting THIS output is the hand-written model
(Model/Infer.v annotation_for_value / annotation_for_elements / infer_value, Model/Builder.v oldschool, is_exception over
the MRO entries); a behavioural edit of those bodies changes Gen/BuilderCode.v and breaks that obligation.

Fail-closed: any statement, expression, receiver or call outside the recognised shapes aborts with `unrecognised shape`.
Normalisations (meaning-preserving, done here): docstrings / annotations / `pass` dropped; `elif` = nested if; locals
numbered in order of first binding (renaming locals or parameters does not change the output); `s.add(x)` is
`s = s | {x}`; `x, = e` is a one-element unpack; `ast.Index(value=e)` is e; ast.fix_missing_locations / ast.copy_location
are the identity on the tree; a module-level tuple/list/set/frozenset of str on the right of `in` is evaluated from the
live module and emitted sorted; statements following a `try ... except: return` go into its `else`; `a > b` is `b < a`;
a comparison with the constant on the left is written with it on the right; `next(iter(s))` is `s.pop()` without the mutation (both only have a meaning on a one-element set); list(e) / tuple(e).
A call of a function of the same module / a method of the same class (`helper(..)`, `self.helper(..)`, positional
arguments only, no decorators, not recursive) whose body is itself translatable is INLINED: fresh numbers for its
parameters and locals, `p_i = <argument>` emitted before, then `SCall tmp <body>` and the call expression becomes `tmp`.
The statements are hoisted in front of the statement that contains the call; that is only done where it cannot change
the order or the number of evaluations (not below and/or/conditional expressions/generators: fail-closed there).
"""
import ast
import inspect
import textwrap
from pathlib import Path


class Bad(ValueError):
    pass


def bad(what, node=None):
    raise Bad('unrecognised shape: %s%s' % (what, (' at line %d: %s' % (node.lineno, ast.unparse(node)[:90]))
                                            if node is not None and hasattr(node, 'lineno') else ''))


def coq_text(s):
    return '[' + '; '.join('%d%%N' % ord(c) for c in s) + ']'


def strip_doc(body):
    if body and isinstance(body[0], ast.Expr) and isinstance(body[0].value, ast.Constant) and isinstance(body[0].value.value, str):
        return body[1:]
    return body


def dotted(e):
    parts = []
    while isinstance(e, ast.Attribute):
        parts.append(e.attr)
        e = e.value
    if isinstance(e, ast.Name):
        parts.append(e.id)
        return '.'.join(reversed(parts))
    return None


KINDS = {'FUNCTION': 'KFunction', 'METHOD': 'KMethod', 'CLASS_METHOD': 'KClassMethod', 'STATIC_METHOD': 'KStaticMethod'}
CLASSES = {'dict': 'TDict', 'list': 'TList', 'set': 'TSet', 'tuple': 'TTupleC', 'ast.Name': 'TAstName', 'ast.Call': 'TAstCall',
           'model.Function': 'TFunction', 'Function': 'TFunction'}


CONSTS = {}          # module-level collections of str referenced by the translated bodies: name -> sorted values


class Fn:
    """translation of one function body"""

    def __init__(self, fn, module, n_params, has_self=False, tree=None, cls=None):
        self.fn = fn
        self.module = module
        self.tree = tree          # the parsed module, for helpers
        self.klass = cls          # the class the method lives in
        self.pending = []         # statements hoisted in front of the statement being translated
        self.no_hoist = 0
        self.inlining = []        # helpers being inlined (no recursion)
        self.helper_scopes = []   # name -> number, innermost last
        self.counter = 0
        self.all_vars = []
        a = fn.args
        names = [x.arg for x in a.args]
        if has_self:
            if not names or names[0] != 'self':
                bad('first parameter of %s is not self' % fn.name, fn)
            names = names[1:]
        if a.vararg or a.kwarg or a.kwonlyargs or a.posonlyargs or a.defaults or len(names) != n_params:
            bad('parameters of %s' % fn.name, fn)
        if fn.decorator_list:
            bad('decorated %s' % fn.name, fn)
        self.params = {n: i for i, n in enumerate(names)}
        self.vars = {}
        self.consts = []

    def fresh(self, label):
        n = self.counter
        self.counter += 1
        self.all_vars.append('%s=%d' % (label, n))
        return n

    def var(self, name):
        if self.helper_scopes:
            sc = self.helper_scopes[-1]
            if name not in sc:
                sc[name] = self.fresh('%s.%s' % (self.inlining[-1], name))
            return sc[name]
        if name in self.params:
            bad('assignment to parameter %s' % name)
        if name not in self.vars:
            self.vars[name] = self.fresh(name)
        return self.vars[name]

    # ------------------------------------------------------------------ expressions
    def name(self, n, node):
        if self.helper_scopes:
            if n in self.helper_scopes[-1]:
                return '(EVar %d)' % self.helper_scopes[-1][n]
            bad('unknown name %s in helper' % n, node)
        if n in self.vars:
            return '(EVar %d)' % self.vars[n]
        if n in self.params:
            return '(EArg %d)' % self.params[n]
        bad('unknown name %s' % n, node)

    def strs_of_global(self, e):
        """a module-level constant collection of str on the right of `in`"""
        d = dotted(e)
        if d is None:
            return None
        obj = self.module
        for part in d.split('.'):
            if not hasattr(obj, part):
                return None
            obj = getattr(obj, part)
        if isinstance(obj, (tuple, list, set, frozenset)) and all(isinstance(x, str) for x in obj):
            return sorted(set(obj))
        return None

    def cls(self, e):
        d = dotted(e)
        if d not in CLASSES:
            bad('class in isinstance', e)
        return CLASSES[d]

    def kw(self, call, names):
        if call.args or sorted(k.arg for k in call.keywords) != sorted(names):
            bad('constructor arguments', call)
        return {k.arg: k.value for k in call.keywords}

    def expr(self, e):
        if isinstance(e, ast.Constant):
            v = e.value
            if v is None:
                return '(EConst VNone)'
            if v is True or v is False:
                return '(EConst (VBool %s))' % ('true' if v else 'false')
            if isinstance(v, str):
                return '(EConst (VStr %s))' % coq_text(v)
            if isinstance(v, int):
                return '(EConst (VInt (%d)%%Z))' % v
            bad('constant', e)
        if isinstance(e, ast.Name):
            return self.name(e.id, e)
        if isinstance(e, ast.UnaryOp) and isinstance(e.op, ast.Not):
            return '(ENot %s)' % self.expr(e.operand)
        if isinstance(e, ast.BoolOp):
            op = 'EAnd' if isinstance(e.op, ast.And) else 'EOr'
            first = self.expr(e.values[0])
            self.no_hoist += 1          # the other operands are evaluated conditionally
            try:
                rest = [self.expr(v) for v in e.values[1:]]
            finally:
                self.no_hoist -= 1
            vals = [first] + rest
            out = vals[-1]
            for v in reversed(vals[:-1]):
                out = '(%s %s %s)' % (op, v, out)
            return out
        if isinstance(e, ast.Compare):
            if len(e.ops) != 1:
                bad('chained comparison', e)
            op, l, r = e.ops[0], e.left, e.comparators[0]
            if isinstance(l, ast.Constant) and not isinstance(r, ast.Constant) and l.value is not None:
                # constant on the right (the operands are pure; == and != are symmetric on the values of the language)
                flip = {ast.Eq: ast.Eq, ast.NotEq: ast.NotEq, ast.Lt: ast.Gt, ast.LtE: ast.GtE, ast.Gt: ast.Lt, ast.GtE: ast.LtE}
                if type(op) in flip:
                    op, l, r = flip[type(op)](), r, l
            isnone = isinstance(r, ast.Constant) and r.value is None
            if isinstance(op, ast.Is) and isnone:
                return '(EIsNone %s)' % self.expr(l)
            if isinstance(op, ast.IsNot) and isnone:
                return '(EIsNotNone %s)' % self.expr(l)
            if isinstance(op, ast.Eq):
                return '(EEq %s %s)' % (self.expr(l), self.expr(r))
            if isinstance(op, ast.NotEq):
                return '(ENe %s %s)' % (self.expr(l), self.expr(r))
            if isinstance(op, (ast.Lt, ast.LtE, ast.Gt, ast.GtE)):
                a, b = self.expr(l), self.expr(r)
                if isinstance(op, (ast.Gt, ast.GtE)):
                    a, b = b, a          # pure operands: the order of evaluation is not observable
                return '(%s %s %s)' % ('ELt' if isinstance(op, (ast.Lt, ast.Gt)) else 'ELe', a, b)
            if isinstance(op, (ast.In, ast.NotIn)):
                if isinstance(r, (ast.List, ast.Tuple)):
                    t = '(EInList %s [%s])' % (self.expr(l), '; '.join(self.expr(x) for x in r.elts))
                else:
                    strs = self.strs_of_global(r)
                    if strs is None:
                        bad('right operand of `in`', e)
                    cname = 'code_const_' + dotted(r).replace('.', '_')
                    CONSTS[cname] = strs
                    self.consts.append(cname)
                    t = '(EInStrs %s %s)' % (self.expr(l), cname)
                return t if isinstance(op, ast.In) else '(ENot %s)' % t
            bad('comparison operator', e)
        if isinstance(e, ast.IfExp):
            c = self.expr(e.test)
            self.no_hoist += 1
            try:
                a, b = self.expr(e.body), self.expr(e.orelse)
            finally:
                self.no_hoist -= 1
            return '(EIfExp %s %s %s)' % (c, a, b)
        if isinstance(e, ast.Subscript):
            if isinstance(e.slice, ast.Constant) and isinstance(e.slice.value, int):
                return '(EIndex %s (%d)%%Z)' % (self.expr(e.value), e.slice.value)
            bad('subscript', e)
        if isinstance(e, ast.Dict):
            if not all(isinstance(k, ast.Constant) and isinstance(k.value, str) for k in e.keys):
                bad('dict literal keys', e)
            return '(EDictLit [%s])' % '; '.join('(%s, %s)' % (coq_text(k.value), self.expr(v)) for k, v in zip(e.keys, e.values))
        if isinstance(e, ast.Attribute):
            d = dotted(e)
            if d is not None:
                last = d.split('.')
                if len(last) >= 2 and last[-2] == 'DocumentableKind' and last[-1] in KINDS:
                    return '(EConst (VKind %s))' % KINDS[last[-1]]
            if e.attr == 'id':
                return '(EAttrId %s)' % self.expr(e.value)
            if e.attr == 'func':
                return '(EAttrFunc %s)' % self.expr(e.value)
            if e.attr == 'args':
                return '(EAttrArgs %s)' % self.expr(e.value)
            if e.attr == 'kind':
                return '(EAttrKind %s)' % self.expr(e.value)
            if e.attr == '__name__' and isinstance(e.value, ast.Call) and isinstance(e.value.func, ast.Name) \
                    and e.value.func.id == 'type' and len(e.value.args) == 1 and not e.value.keywords:
                return '(ETypeName %s)' % self.expr(e.value.args[0])
            bad('attribute', e)
        if isinstance(e, ast.Call):
            return self.call(e)
        bad('expression', e)

    def call(self, e):
        f = e.func
        d = dotted(f)
        if d == 'isinstance' and len(e.args) == 2 and not e.keywords:
            c = e.args[1]
            cs = [self.cls(x) for x in c.elts] if isinstance(c, ast.Tuple) else [self.cls(c)]
            return '(EIsInstance %s [%s])' % (self.expr(e.args[0]), '; '.join(cs))
        if d == 'len' and len(e.args) == 1 and not e.keywords:
            return '(ELen %s)' % self.expr(e.args[0])
        if d == 'set' and not e.args and not e.keywords:
            return 'ESetEmpty'
        if d == 'next' and len(e.args) == 1 and not e.keywords and isinstance(e.args[0], ast.Call) \
                and dotted(e.args[0].func) == 'iter' and len(e.args[0].args) == 1 and not e.args[0].keywords:
            return '(ESetPop %s)' % self.expr(e.args[0].args[0])
        if d in ('list', 'tuple') and len(e.args) == 1 and not e.keywords:
            return '(EToList %s)' % self.expr(e.args[0])
        if d == '_annotation_for_value' and len(e.args) == 1 and not e.keywords:
            return '(ECallValue %s)' % self.expr(e.args[0])
        if d == '_annotation_for_elements' and len(e.args) == 1 and not e.keywords:
            return '(ECallElems %s)' % self.expr(e.args[0])
        if d == 'any' and len(e.args) == 1 and isinstance(e.args[0], ast.GeneratorExp) and not e.keywords:
            g = e.args[0]
            if len(g.generators) != 1 or g.generators[0].ifs or g.generators[0].is_async or not isinstance(g.generators[0].target, ast.Name):
                bad('generator expression', e)
            it = self.expr(g.generators[0].iter)
            x = self.var(g.generators[0].target.id)
            self.no_hoist += 1
            try:
                cond = self.expr(g.elt)
            finally:
                self.no_hoist -= 1
            return '(EAny %d %s %s)' % (x, it, cond)
        if d == 'ast.Name':
            k = self.kw(e, ['id'])
            return '(EMkName %s)' % self.expr(k['id'])
        if d == 'ast.Tuple':
            k = self.kw(e, ['elts'])
            if not isinstance(k['elts'], ast.List):
                bad('ast.Tuple elts', e)
            return '(EMkTuple [%s])' % '; '.join(self.expr(x) for x in k['elts'].elts)
        if d == 'ast.Constant':
            k = self.kw(e, ['value'])
            if not (isinstance(k['value'], ast.Constant) and k['value'].value is Ellipsis):
                bad('ast.Constant of something else than ...', e)
            return 'EMkEllipsis'
        if d == 'ast.Subscript':
            k = self.kw(e, ['value', 'slice'])
            return '(EMkSubscript %s %s)' % (self.expr(k['value']), self.expr(k['slice']))
        if d == 'ast.Index':
            k = self.kw(e, ['value'])
            return self.expr(k['value'])
        if d == 'ast.fix_missing_locations' and len(e.args) == 1 and not e.keywords:
            return self.expr(e.args[0])
        if d == 'ast.copy_location' and len(e.args) == 2 and not e.keywords:
            return self.expr(e.args[0])
        if isinstance(f, ast.Attribute):
            recv, m = f.value, f.attr
            if m == 'values' and not e.args and not e.keywords:
                return '(EDictValues %s)' % self.expr(recv)
            if m == 'pop' and not e.args and not e.keywords:
                return '(ESetPop %s)' % self.expr(recv)
            if m == 'mro' and not e.keywords and [ast.unparse(a) for a in e.args] == ['True', 'False']:
                return '(EMro %s)' % self.expr(recv)
            if m == 'get' and len(e.args) == 1 and not e.keywords:
                if dotted(recv) == 'self.builder.current.contents':
                    return '(EContentsGet %s)' % self.expr(e.args[0])
                return '(EDictGet %s %s)' % (self.expr(recv), self.expr(e.args[0]))
        h = self.helper(e)
        if h is not None:
            return h
        bad('call', e)

    def helper(self, e):
        """a call of a same-module function / same-class method: inlined, see the module docstring"""
        f = e.func
        if self.tree is None or e.keywords or any(isinstance(a, ast.Starred) for a in e.args):
            return None
        if isinstance(f, ast.Name):
            cands = [n for n in self.tree.body if isinstance(n, ast.FunctionDef) and n.name == f.id]
            has_self = False
        elif isinstance(f, ast.Attribute) and isinstance(f.value, ast.Name) and f.value.id == 'self' and self.klass is not None:
            cs = [n for n in self.tree.body if isinstance(n, ast.ClassDef) and n.name == self.klass]
            cands = [n for c in cs for n in c.body if isinstance(n, ast.FunctionDef) and n.name == f.attr]
            has_self = True
        else:
            return None
        if len(cands) != 1:
            return None
        fn = cands[0]
        if self.no_hoist:
            bad('call of helper %s in a conditionally evaluated position' % fn.name, e)
        if fn.name in self.inlining or fn.name == self.fn.name:
            bad('recursive helper %s' % fn.name, e)
        a = fn.args
        names = [x.arg for x in a.args]
        if has_self:
            if not names or names[0] != 'self':
                bad('first parameter of helper %s is not self' % fn.name, fn)
            names = names[1:]
        if a.vararg or a.kwarg or a.kwonlyargs or a.posonlyargs or a.defaults or len(names) != len(e.args) or fn.decorator_list:
            bad('parameters of helper %s' % fn.name, fn)
        # the arguments, in the caller's scope
        argv = [self.expr(x) for x in e.args]
        self.inlining.append(fn.name)
        scope = {}
        self.helper_scopes.append(scope)
        saved, self.pending = self.pending, []
        try:
            pre = []
            for n, v in zip(names, argv):
                scope[n] = self.fresh('%s.%s' % (fn.name, n))
                pre.append('(SAssign %d %s)' % (scope[n], v))
            hbody = strip_doc(fn.body)
            self.check_pop(hbody)
            self.check_params_not_assigned(fn, names)
            body = self.seq(hbody)
        finally:
            self.helper_scopes.pop()
            self.inlining.pop()
            self.pending = saved
        if self.helper_scopes:
            tmp = self.fresh('%s.<result of %s>' % (self.inlining[-1], fn.name))
        else:
            tmp = self.fresh('<result of %s>' % fn.name)
        self.pending.extend(pre)
        self.pending.append('(SCall %d %s)' % (tmp, body))
        return '(EVar %d)' % tmp

    def check_params_not_assigned(self, fn, names):
        for n in ast.walk(fn):
            if isinstance(n, ast.Name) and isinstance(n.ctx, (ast.Store, ast.Del)) and n.id in names:
                bad('helper %s assigns its parameter %s' % (fn.name, n.id), n)
            if isinstance(n, (ast.FunctionDef, ast.Lambda, ast.ClassDef, ast.Global, ast.Nonlocal)) and n is not fn:
                bad('nested scope in helper %s' % fn.name, n)

    # ------------------------------------------------------------------ statements
    def seq(self, stmts):
        stmts = [s for s in stmts if not isinstance(s, ast.Pass)]
        out = []
        i = 0
        while i < len(stmts):
            s = stmts[i]
            if isinstance(s, ast.Try):
                out.append(self.try_stmt(s, stmts[i + 1:]))
                break
            out.extend(self.hoisted(s))
            i += 1
        if not out:
            return 'SSkip'
        t = out[-1]
        for x in reversed(out[:-1]):
            t = '(SSeq %s %s)' % (x, t)
        return t

    def try_stmt(self, s, rest):
        if s.finalbody or len(s.handlers) != 1 or len(s.body) != 1:
            bad('try statement', s)
        h = s.handlers[0]
        types = sorted(ast.unparse(x) for x in (h.type.elts if isinstance(h.type, ast.Tuple) else [h.type])) if h.type else []
        if types != ['TypeError', 'ValueError'] or h.name:
            bad('except clause (expected exactly ValueError and TypeError)', s)
        b = s.body[0]
        if isinstance(b, ast.AnnAssign) and b.value is not None and isinstance(b.target, ast.Name):
            tgt, val = b.target.id, b.value
        elif isinstance(b, ast.Assign) and len(b.targets) == 1 and isinstance(b.targets[0], ast.Name):
            tgt, val = b.targets[0].id, b.value
        else:
            bad('try body', s)
        if not (isinstance(val, ast.Call) and dotted(val.func) == 'ast.literal_eval' and len(val.args) == 1 and not val.keywords):
            bad('try body is not x = ast.literal_eval(e)', s)
        npend = len(self.pending)
        arg = self.expr(val.args[0])
        if len(self.pending) != npend:
            bad('helper call inside the try body', s)
        x = self.var(tgt)
        orelse = list(s.orelse)
        if rest:
            if not (h.body and isinstance(h.body[-1], ast.Return)):
                bad('statements after a try whose handler does not return', s)
            orelse = orelse + list(rest)
        return '(STryLit %d %s %s %s)' % (x, arg, self.seq(h.body), self.seq(orelse))

    def hoisted(self, s):
        """the translation of s, preceded by the inlined helper calls its own expressions contain"""
        saved, self.pending = self.pending, []
        try:
            t = self.stmt(s)
            return self.pending + [t]
        finally:
            self.pending = saved

    def stmt(self, s):
        if isinstance(s, ast.Return):
            return '(SReturn %s)' % (self.expr(s.value) if s.value is not None else '(EConst VNone)')
        if isinstance(s, ast.AnnAssign):
            if s.value is None or not isinstance(s.target, ast.Name):
                bad('annotated assignment', s)
            e = self.expr(s.value)
            return '(SAssign %d %s)' % (self.var(s.target.id), e)
        if isinstance(s, ast.Assign):
            if len(s.targets) != 1:
                bad('multiple assignment', s)
            t = s.targets[0]
            if isinstance(t, ast.Name):
                e = self.expr(s.value)
                return '(SAssign %d %s)' % (self.var(t.id), e)
            if isinstance(t, ast.Tuple) and len(t.elts) == 1 and isinstance(t.elts[0], ast.Name):
                e = self.expr(s.value)
                return '(SAssign %d (EUnpack1 %s))' % (self.var(t.elts[0].id), e)
            if isinstance(t, ast.Attribute) and t.attr == 'kind':
                return '(SSetKind %s %s)' % (self.expr(t.value), self.expr(s.value))
            bad('assignment target', s)
        if isinstance(s, ast.If):
            test = self.expr(s.test)
            return '(SIf %s %s %s)' % (test, self.seq(s.body), self.seq(s.orelse))
        if isinstance(s, ast.For):
            if s.orelse or not isinstance(s.target, ast.Name):
                bad('for statement', s)
            it = self.expr(s.iter)
            x = self.var(s.target.id)
            return '(SFor %d %s %s)' % (x, it, self.seq(s.body))
        if isinstance(s, ast.Assert):
            return '(SAssert %s)' % self.expr(s.test)
        if isinstance(s, ast.Expr) and isinstance(s.value, ast.Call) and isinstance(s.value.func, ast.Attribute) \
                and s.value.func.attr == 'add' and isinstance(s.value.func.value, ast.Name) and len(s.value.args) == 1 \
                and not s.value.keywords:
            n = s.value.func.value.id
            if n not in self.vars:
                bad('add on something that is not a local set', s)
            return '(SAssign %d (ESetAdd (EVar %d) %s))' % (self.vars[n], self.vars[n], self.expr(s.value.args[0]))
        bad('statement', s)

    def translate(self):
        body = strip_doc(self.fn.body)
        self.check_pop(body)
        return self.seq(body)

    def check_pop(self, body):
        """`x = s.pop()` is translated without the mutation of s: s must not be read afterwards"""
        class V(ast.NodeVisitor):
            def __init__(v):
                v.popped = {}
                v.err = None

            def visit_Call(v, n):
                if isinstance(n.func, ast.Attribute) and n.func.attr == 'pop' and isinstance(n.func.value, ast.Name):
                    v.popped[n.func.value.id] = (n.lineno, n.col_offset)
                v.generic_visit(n)
        v = V()
        for s in body:
            v.visit(s)
        for name, pos in v.popped.items():
            for n in ast.walk(ast.Module(body=body, type_ignores=[])):
                if isinstance(n, ast.Name) and n.id == name and (n.lineno, n.col_offset) > pos:
                    bad('set %s is used after pop()' % name, n)


def find_fn(tree, name, cls=None):
    body = tree.body
    if cls is not None:
        cs = [n for n in body if isinstance(n, ast.ClassDef) and n.name == cls]
        if len(cs) != 1:
            bad('class %s not found exactly once' % cls)
        body = cs[0].body
    fs = [n for n in body if isinstance(n, ast.FunctionDef) and n.name == name]
    if len(fs) != 1:
        bad('function %s not found exactly once' % name)
    return fs[0]


def generate() -> dict:
    from pydoctor import astutils, model, astbuilder
    t_utils = ast.parse(Path(inspect.getsourcefile(astutils)).read_text())
    t_model = ast.parse(Path(inspect.getsourcefile(model)).read_text())
    t_build = ast.parse(Path(inspect.getsourcefile(astbuilder)).read_text())
    items = [('infer_type', find_fn(t_utils, 'infer_type'), astutils, 1, False, 'astutils.infer_type', t_utils, None),
             ('annotation_for_value', find_fn(t_utils, '_annotation_for_value'), astutils, 1, False, 'astutils._annotation_for_value',
              t_utils, None),
             ('annotation_for_elements', find_fn(t_utils, '_annotation_for_elements'), astutils, 1, False,
              'astutils._annotation_for_elements', t_utils, None),
             ('is_exception', find_fn(t_model, 'is_exception'), model, 1, False, 'model.is_exception', t_model, None),
             ('oldschool', find_fn(t_build, '_handleOldSchoolMethodDecoration', 'ModuleVistor'), astbuilder, 2, True,
              'astbuilder.ModuleVistor._handleOldSchoolMethodDecoration', t_build, 'ModuleVistor')]
    CONSTS.clear()
    lines = []
    for key, fn, module, npar, has_self, title, tree, cls in items:
        f = Fn(fn, module, npar, has_self, tree, cls)
        text = f.translate()
        if key == 'is_exception':
            exc_consts = list(f.consts)
        lines.append('(* %s ; parameters: %s ; locals: %s *)' % (
            title, ', '.join('%s=%d' % kv for kv in f.params.items()), ', '.join(f.all_vars) or 'none'))
        lines.append('Definition code_%s : istmt :=' % key)
        lines.append(textwrap.fill(text, 110, initial_indent='  ', subsequent_indent='  ', break_long_words=False) + '.')
        lines.append('')
    head = ['From Coq Require Import ZArith NArith List Bool.', 'Import ListNotations.',
            'From PydoctorVerif Require Import Base.Sexp Model.MiniPy Model.Infer Model.Builder Model.BuilderIR.', '']
    for cname, strs in sorted(CONSTS.items()):
        head.append('(* a module-level collection of str the code tests membership in, evaluated from the live module, sorted *)')
        head.append('Definition %s : list text :=' % cname)
        head.append(textwrap.fill('[' + '; '.join(coq_text(x) for x in strs) + ']', 110, initial_indent='  ', subsequent_indent='  ') + '.')
        head.append('')
    if len(set(exc_consts)) != 1:
        bad('is_exception does not test membership in exactly one module-level collection of str (%s)' % exc_consts)
    head.append('(* the collection is_exception tests membership in (whatever its name) *)')
    head.append('Definition code_exception_names : list text := %s.' % exc_consts[0])
    head.append('')
    return {'BuilderCode.v': '\n'.join(head + lines) + '\n'}


if __name__ == '__main__':
    print(generate()['BuilderCode.v'])
