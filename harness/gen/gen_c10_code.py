"""Translator A for C10 (code tie): the BODIES of
    pydoctor/stanutils.py : html2stan
    pydoctor/extensions/deprecate.py : deprecatedToUsefulText  (from the point where name, package, version and replacement
                                       are known; the statements before it only take the decorator's AST apart)
translated into the deep-embedded language of Model/ReparseIR.v (-> Gen/ReparseCode.v).  Proofs/ReparseIRProofs.v proves,
for every input, that interpreting THIS output is Model/Html2Stan.html2stan resp. Model/DeprecateText.deprecation_text; a
behavioural edit of those bodies changes Gen/ReparseCode.v and breaks that obligation.

Fail-closed: any statement, expression or call outside the recognised shapes aborts with `unrecognised shape`.
Normalisations (meaning-preserving, done here):
  * docstrings, annotations, `pass` dropped; `elif` = nested if; locals numbered in order of first binding (renaming a
    local does not change the output); inputs are found by how they are computed, not by name;
  * str.format on a (module-level or local constant) template, %-formatting, f-strings and + all become concatenations;
    module-level string constants are evaluated from the live module;
  * a nested or same-module helper function is inlined at its call: its body (returns, if/else, assignments, the loop
    `for p in L: if not P(p): return False` + `return True`) becomes ONE expression (ELet / EIf);
  * `a, b = x, y` = two assignments (when the right-hand side reads no target); a dict display with constant keys that is only
    used as `**kwargs` of str.format = one hidden local per key; `SEP.join(x)` / `x.split()` also apart from each other;
  * `any(not P for ..)` = `not all(P for ..)`; `x == None` = `x is None`; `x is not None` = `not (x is None)`;
  * REGEX.sub(lambda m: ..., data) for a compiled one-byte character class: the class and the lambda are EVALUATED
    (live regex object, lambda compiled from its source) into the substitution table the term carries.
Not translated: the statements of deprecatedToUsefulText before the inputs are known; twisted's XMLString (primitive)."""
import ast, inspect, re, string, sys, textwrap
from pathlib import Path


class Bad(ValueError):
    pass


def bad(what, node=None):
    raise Bad('unrecognised shape: %s%s' % (what, (' at line %d: %s' % (node.lineno, ast.unparse(node)[:100]))
                                            if node is not None and hasattr(node, 'lineno') else ''))


def strip_doc(body):
    if body and isinstance(body[0], ast.Expr) and isinstance(body[0].value, ast.Constant) and isinstance(body[0].value.value, str):
        return body[1:]
    return body


def fn_ast(fn):
    mod = ast.parse(textwrap.dedent(inspect.getsource(fn)))
    if len(mod.body) != 1 or not isinstance(mod.body[0], ast.FunctionDef):
        bad('source of %r is not one def' % fn)
    return mod.body[0]


def text(s):
    cps = list(s) if isinstance(s, (bytes, bytearray)) else [ord(c) for c in s]
    return '[' + '; '.join(str(c) for c in cps) + ']'


EXC = {'ValueError': 'ExValueError', 'AssertionError': 'ExAssertion'}


class Fn:
    """translation of one function body; `inputs`: python name -> variable number"""

    def __init__(self, module, inputs):
        self.module = module
        self.vars = dict(inputs)
        self.bound = set(inputs)
        self.helpers = {}
        self.dicts = {}          # local name -> {constant key: hidden variable holding the value at assignment time}
        self.nextvar = max(list(inputs.values()) + [-1]) + 1
        self.names = {v: k for k, v in inputs.items()}
        self.depth = 0

    # ---- variables
    def bind(self, name):
        if name not in self.vars:
            self.vars[name] = self.nextvar
            self.names[self.nextvar] = name
            self.nextvar += 1
        self.bound.add(name)
        return self.vars[name]

    def fresh(self, name):
        n = self.nextvar
        self.nextvar += 1
        self.names[n] = name
        return n

    # ---- constants
    def const_of(self, e, scope):
        """the python constant an expression denotes (literal, or module-level str/bytes constant), else None"""
        if isinstance(e, ast.Constant) and isinstance(e.value, (str, bytes)):
            return e.value
        if isinstance(e, ast.Name) and e.id not in scope and e.id not in self.bound:
            v = getattr(self.module, e.id, None)
            if isinstance(v, (str, bytes)):
                return v
        return None

    def lit(self, v):
        return 'EConst (%s %s)' % ('VBytes' if isinstance(v, bytes) else 'VStr', text(v))

    def concat(self, parts):
        parts = [p for p in parts if p not in ('EConst (VStr [])', 'EConst (VBytes [])')] or parts[:1]
        r = parts[-1]
        for p in reversed(parts[:-1]):
            r = 'EConcat (%s) (%s)' % (p, r)
        return r

    # ---- expressions; scope: python name -> variable number for inlined helpers (None = the function's own locals)
    def look(self, name, scope, node):
        if scope is not None:
            if name in scope:
                return 'EVar %d%%nat' % scope[name]
        elif name in self.bound:
            return 'EVar %d%%nat' % self.vars[name]
        c = getattr(self.module, name, None)
        if isinstance(c, (str, bytes)):
            return self.lit(c)
        bad('name %r is not a bound local or a module-level string constant' % name, node)

    def expr(self, e, scope=None):
        E = lambda x: self.expr(x, scope)
        if isinstance(e, ast.Constant):
            if e.value is None:
                return 'EConst VNone'
            if e.value is True or e.value is False:
                return 'EConst (VBool %s)' % ('true' if e.value else 'false')
            if isinstance(e.value, (str, bytes)):
                return self.lit(e.value)
            bad('constant', e)
        if isinstance(e, ast.Name):
            return self.look(e.id, scope, e)
        if isinstance(e, ast.Tuple) and len(e.elts) == 2:
            return 'EPair (%s) (%s)' % (E(e.elts[0]), E(e.elts[1]))
        if isinstance(e, ast.UnaryOp) and isinstance(e.op, ast.Not):
            return 'ENot (%s)' % E(e.operand)
        if isinstance(e, ast.BoolOp):
            parts = [E(v) for v in e.values]
            op = 'EAnd' if isinstance(e.op, ast.And) else 'EOr'
            r = parts[-1]
            for p in reversed(parts[:-1]):
                r = '%s (%s) (%s)' % (op, p, r)
            return r
        if isinstance(e, ast.IfExp):
            return 'EIf (%s) (%s) (%s)' % (E(e.test), E(e.body), E(e.orelse))
        if isinstance(e, ast.Compare):
            if len(e.ops) != 1:
                bad('chained comparison', e)
            op, l, r = e.ops[0], e.left, e.comparators[0]
            if isinstance(r, ast.Constant) and r.value is None and isinstance(op, (ast.Is, ast.Eq)):
                return 'EIsNone (%s)' % E(l)
            if isinstance(r, ast.Constant) and r.value is None and isinstance(op, (ast.IsNot, ast.NotEq)):
                return 'ENot (EIsNone (%s))' % E(l)
            if isinstance(op, (ast.Eq, ast.NotEq)):
                def side(x):
                    if isinstance(x, ast.Attribute) and x.attr == 'tagName':
                        return 'ETagName (%s)' % E(x.value)
                    return E(x)
                if any(isinstance(x, ast.Attribute) and x.attr == 'tagName' for x in (l, r)):
                    eq = 'EEqStr (%s) (%s)' % (side(l), side(r))
                    return eq if isinstance(op, ast.Eq) else 'ENot (%s)' % eq
            bad('comparison', e)
        if isinstance(e, ast.JoinedStr):
            parts = []
            for p in e.values:
                if isinstance(p, ast.Constant):
                    parts.append(self.lit(p.value))
                elif isinstance(p, ast.FormattedValue) and p.conversion in (-1, 115) and p.format_spec is None:
                    parts.append(E(p.value))
                else:
                    bad('f-string field', e)
            return self.concat(parts or [self.lit('')])
        if isinstance(e, ast.BinOp) and isinstance(e.op, ast.Add):
            return 'EConcat (%s) (%s)' % (E(e.left), E(e.right))
        if isinstance(e, ast.BinOp) and isinstance(e.op, ast.Mod):
            tmpl = self.const_of(e.left, scope or {})
            if tmpl is None:
                bad('%-format template is not a constant', e)
            args = list(e.right.elts) if isinstance(e.right, ast.Tuple) else [e.right]
            pct, s_ = (b'%', b'%s') if isinstance(tmpl, bytes) else ('%', '%s')
            pieces = tmpl.split(s_)
            if len(pieces) != len(args) + 1 or any(pct in p for p in pieces):
                bad('%-format directives', e)
            parts = []
            for k, p in enumerate(pieces):
                parts.append(self.lit(p))
                if k < len(args):
                    parts.append(E(args[k]))
            return self.concat(parts)
        if isinstance(e, ast.Call):
            return self.call(e, scope)
        bad('expression', e)

    def is_ident_test(self, e, v):
        """e is  v.isidentifier()  -> 'pos';  not v.isidentifier() -> 'neg'"""
        if isinstance(e, ast.UnaryOp) and isinstance(e.op, ast.Not):
            r = self.is_ident_test(e.operand, v)
            return {'pos': 'neg', 'neg': 'pos'}.get(r)
        if isinstance(e, ast.Call) and isinstance(e.func, ast.Attribute) and e.func.attr == 'isidentifier' \
                and not e.args and not e.keywords and isinstance(e.func.value, ast.Name) and e.func.value.id == v:
            return 'pos'
        return None

    def call(self, e, scope):
        E = lambda x: self.expr(x, scope)
        f = e.func
        if isinstance(f, ast.Name) and f.id in ('all', 'any') and len(e.args) == 1 and not e.keywords \
                and isinstance(e.args[0], (ast.GeneratorExp, ast.ListComp)):
            g = e.args[0]
            if len(g.generators) != 1 or g.generators[0].ifs or g.generators[0].is_async or not isinstance(g.generators[0].target, ast.Name):
                bad('comprehension', e)
            pol = self.is_ident_test(g.elt, g.generators[0].target.id)
            it = E(g.generators[0].iter)
            if f.id == 'all' and pol == 'pos':
                return 'EAllIdent (%s)' % it
            if f.id == 'any' and pol == 'neg':
                return 'ENot (EAllIdent (%s))' % it
            bad('all()/any() over something other than the identifier test', e)
        if isinstance(f, ast.Name) and f.id == 'isinstance' and len(e.args) == 2 and isinstance(e.args[1], ast.Name):
            if e.args[1].id == 'str':
                return 'EIsStr (%s)' % E(e.args[0])
            if e.args[1].id == 'Tag' and getattr(self.module, 'Tag', None) is __import__('twisted.web.template', fromlist=['Tag']).Tag:
                return 'EIsTag (%s)' % E(e.args[0])
            bad('isinstance', e)
        if isinstance(f, ast.Name) and f.id == 'str' and len(e.args) == 1 and not e.keywords:
            return E(e.args[0])
        if isinstance(f, ast.Attribute):
            if f.attr == 'replace' and len(e.args) == 2 and not e.keywords:
                a, b = self.const_of(e.args[0], scope or {}), self.const_of(e.args[1], scope or {})
                if a is None or b is None or len(a) != 1 or type(a) is not type(b):
                    bad('replace() arguments (a one-character constant pattern is needed)', e)
                return 'EReplace1 %d %s (%s)' % (a[0] if isinstance(a, bytes) else ord(a), text(b), E(f.value))
            if f.attr == 'join' and len(e.args) == 1 and not e.keywords:
                sep = self.const_of(f.value, scope or {})
                if isinstance(sep, str):
                    return 'EJoin %s (%s)' % (text(sep), E(e.args[0]))
                bad('join() separator', e)
            if f.attr == 'split' and not e.args and not e.keywords:
                return 'ESplitWs (%s)' % E(f.value)
            if f.attr == 'split' and len(e.args) == 1 and not e.keywords:
                c = self.const_of(e.args[0], scope or {})
                if isinstance(c, str) and len(c) == 1:
                    return 'ESplitOn %d (%s)' % (ord(c), E(f.value))
                bad('split() separator', e)
            if f.attr == 'format' and not e.args:
                tmpl = self.const_of(f.value, scope or {})
                if not isinstance(tmpl, str):
                    bad('format() on something other than a constant template', e)
                kw = {}
                for k in e.keywords:
                    if k.arg is None:
                        # **fields for a local bound to a dict display with constant keys
                        if scope is None and isinstance(k.value, ast.Name) and k.value.id in self.dicts:
                            for key, v in self.dicts[k.value.id].items():
                                kw[key] = 'EVar %d%%nat' % v
                            continue
                        bad('format(**x)', e)
                    kw[k.arg] = E(k.value)
                parts = []
                for lit_, field, spec, conv in string.Formatter().parse(tmpl):
                    parts.append(self.lit(lit_))
                    if field is not None:
                        if spec or conv not in (None, 's') or field not in kw:
                            bad('format field %r' % field, e)
                        parts.append(kw[field])
                return self.concat(parts)
            if f.attr == 'encode' and len(e.args) <= 1 and not e.keywords:
                if e.args and self.const_of(e.args[0], {}) not in ('utf8', 'utf-8', 'UTF-8'):
                    bad('encode() codec', e)
                return 'EEncode (%s)' % E(f.value)
            if f.attr == 'startswith' and len(e.args) == 1 and not e.keywords:
                c = self.const_of(e.args[0], scope or {})
                if c is None:
                    bad('startswith() argument', e)
                return 'EStartsWith (%s) %s' % (E(f.value), text(c))
            if f.attr == 'sub' and len(e.args) == 2 and not e.keywords and isinstance(e.args[0], ast.Lambda):
                return 'ESubst %s (%s)' % (self.subst_table(f.value, e.args[0], e), E(e.args[1]))
        # XMLString(data).load()[0]
        if isinstance(e, ast.Call):
            pass
        if isinstance(f, ast.Name) or (isinstance(f, ast.Attribute) and isinstance(f.value, ast.Name) and False):
            fd = self.helpers.get(f.id)
            if fd is None:
                obj = getattr(self.module, f.id, None)
                if inspect.isfunction(obj) and obj.__module__ == self.module.__name__:
                    fd = fn_ast(obj)
            if fd is not None:
                return self.inline(fd, e, scope)
        bad('call', e)

    def subst_table(self, rx_expr, lam, node):
        if not isinstance(rx_expr, ast.Name):
            bad('sub() on something other than a module-level regex', node)
        rx = getattr(self.module, rx_expr.id, None)
        if not isinstance(rx, re.Pattern) or not isinstance(rx.pattern, bytes):
            bad('%s is not a compiled bytes regex' % rx_expr.id, node)
        members = [c for c in range(256) if rx.fullmatch(bytes([c]))]
        # a one-byte character class: nothing longer (or empty) matches, and a search finds exactly the members
        if rx.fullmatch(b'') is not None or any(rx.fullmatch(bytes([a, b])) for a in members[:4] + [65] for b in members[:4] + [66]):
            bad('%s is not a one-byte character class' % rx_expr.id, node)
        probe = bytes(range(256)) * 2
        if [m.start() % 256 for m in rx.finditer(probe)] != members * 2:
            bad('%s does not match byte by byte' % rx_expr.id, node)
        fn = eval(compile(ast.fix_missing_locations(ast.Expression(lam)), '<sub lambda>', 'eval'), dict(vars(self.module)))
        rows = []
        for c in members:
            r = fn(re.compile(b'[\x00-\xff]', re.S).match(bytes([c])))
            if not isinstance(r, bytes):
                bad('the substitution is not bytes', node)
            if rx.sub(fn, b'a' + bytes([c]) + b'b') != b'a' + r + b'b':
                bad('sub() result', node)
            rows.append('(%d, %s)' % (c, text(r)))
        return '[' + '; '.join(rows) + ']'

    # ---- helpers: the body as ONE expression
    def inline(self, fd, call, scope):
        if self.depth > 3:
            bad('helper recursion', call)
        a = fd.args
        if a.vararg or a.kwarg or a.kwonlyargs or a.defaults or call.keywords or len(call.args) != len(a.args + a.posonlyargs):
            bad('helper call shape', call)
        params = [x.arg for x in a.posonlyargs + a.args]
        args = [self.expr(x, scope) for x in call.args]
        inner = {}
        nums = []
        for p in params:
            inner[p] = self.fresh(fd.name + '.' + p)
            nums.append(inner[p])
        self.depth += 1
        try:
            body = self.body_expr(strip_doc(fd.body), inner, fd)
        finally:
            self.depth -= 1
        for n, arg in reversed(list(zip(nums, args))):
            body = 'ELet %d%%nat (%s) (%s)' % (n, arg, body)
        return body

    def body_expr(self, stmts, scope, fd):
        if not stmts:
            return 'EConst VNone'
        st, rest = stmts[0], stmts[1:]
        if isinstance(st, ast.Return):
            return self.expr(st.value, scope) if st.value is not None else 'EConst VNone'
        if isinstance(st, ast.Pass) or (isinstance(st, ast.Expr) and isinstance(st.value, ast.Constant)):
            return self.body_expr(rest, scope, fd)
        if isinstance(st, (ast.Assign, ast.AnnAssign)):
            tgt = st.targets[0] if isinstance(st, ast.Assign) else st.target
            if (isinstance(st, ast.Assign) and len(st.targets) != 1) or not isinstance(tgt, ast.Name) or st.value is None:
                bad('assignment in helper', st)
            val = self.expr(st.value, scope)
            sc = dict(scope)
            sc[tgt.id] = self.fresh(fd.name + '.' + tgt.id)
            return 'ELet %d%%nat (%s) (%s)' % (sc[tgt.id], val, self.body_expr(rest, sc, fd))
        if isinstance(st, ast.If):
            return 'EIf (%s) (%s) (%s)' % (self.expr(st.test, scope), self.body_expr(list(st.body) + rest, scope, fd),
                                           self.body_expr(list(st.orelse) + rest, scope, fd))
        if isinstance(st, ast.For) and not st.orelse and isinstance(st.target, ast.Name) and len(st.body) == 1 \
                and isinstance(st.body[0], ast.If) and not st.body[0].orelse and len(st.body[0].body) == 1 \
                and isinstance(st.body[0].body[0], ast.Return) and isinstance(st.body[0].body[0].value, ast.Constant) \
                and st.body[0].body[0].value.value is False and rest and isinstance(rest[0], ast.Return) \
                and isinstance(rest[0].value, ast.Constant) and rest[0].value.value is True:
            # for p in L: if not P(p): return False ; return True   ==   all(P(p) for p in L)
            if self.is_ident_test(st.body[0].test, st.target.id) == 'neg':
                return 'EAllIdent (%s)' % self.expr(st.iter, scope)
        bad('statement in helper %s' % fd.name, st)

    # ---- statements of the translated function itself
    def block(self, stmts):
        out = []
        for st in stmts:
            s = self.stmt(st)
            if s is not None:
                out.append(s)
        if not out:
            return 'SSkip'
        r = out[-1]
        for s in reversed(out[:-1]):
            r = 'SSeq (%s) (%s)' % (s, r)
        return r

    def stmt(self, st):
        if isinstance(st, ast.FunctionDef):
            self.helpers[st.name] = st
            return None
        if isinstance(st, ast.Pass) or (isinstance(st, ast.Expr) and isinstance(st.value, ast.Constant)):
            return None
        if isinstance(st, (ast.Assign, ast.AnnAssign)):
            tgt = st.targets[0] if isinstance(st, ast.Assign) else st.target
            if isinstance(st, ast.Assign) and len(st.targets) != 1:
                bad('multiple assignment', st)
            if st.value is None:
                return None
            if isinstance(tgt, ast.Attribute) and tgt.attr == 'tagName' and isinstance(tgt.value, ast.Name):
                c = self.const_of(st.value, {})
                if not isinstance(c, str) or tgt.value.id not in self.bound:
                    bad('tagName assignment', st)
                return 'SSetTagName %d%%nat %s' % (self.vars[tgt.value.id], text(c))
            if isinstance(tgt, ast.Tuple) and isinstance(st.value, ast.Tuple) and len(tgt.elts) == len(st.value.elts) \
                    and all(isinstance(x, ast.Name) for x in tgt.elts):
                # a, b = x, y  with no target read on the right-hand side: two assignments
                names = {x.id for x in tgt.elts}
                if len(names) != len(tgt.elts) or any(isinstance(n, ast.Name) and n.id in names for v in st.value.elts for n in ast.walk(v)):
                    bad('tuple assignment whose right-hand side reads a target', st)
                vals = [self.xml_or_expr(v) for v in st.value.elts]
                out = ['SAssign %d%%nat (%s)' % (self.bind(x.id), v) for x, v in zip(tgt.elts, vals)]
                r = out[-1]
                for o in reversed(out[:-1]):
                    r = 'SSeq (%s) (%s)' % (o, r)
                return r
            if not isinstance(tgt, ast.Name):
                bad('assignment target', st)
            if isinstance(st.value, ast.Dict) and all(isinstance(k, ast.Constant) and isinstance(k.value, str) for k in st.value.keys):
                # a dict display with constant keys, only ever used as **kwargs of str.format: one hidden local per key
                vals = [self.expr(v) for v in st.value.values]
                d, out = {}, []
                for k, v in zip(st.value.keys, vals):
                    n = self.fresh('%s[%r]' % (tgt.id, k.value))
                    d[k.value] = n
                    out.append('SAssign %d%%nat (%s)' % (n, v))
                self.dicts[tgt.id] = d
                self.bound.discard(tgt.id)
                if not out:
                    return None
                r = out[-1]
                for o in reversed(out[:-1]):
                    r = 'SSeq (%s) (%s)' % (o, r)
                return r
            self.dicts.pop(tgt.id, None)
            val = self.xml_or_expr(st.value)
            return 'SAssign %d%%nat (%s)' % (self.bind(tgt.id), val)
        if isinstance(st, ast.AugAssign) and isinstance(st.target, ast.Name) and isinstance(st.op, ast.Add):
            val = 'EConcat (%s) (%s)' % (self.expr(st.target), self.expr(st.value))
            return 'SAssign %d%%nat (%s)' % (self.bind(st.target.id), val)
        if isinstance(st, ast.If):
            c = self.expr(st.test)
            return 'SIf (%s) (%s) (%s)' % (c, self.block(st.body), self.block(st.orelse))
        if isinstance(st, ast.Return):
            return 'SReturn (%s)' % (self.xml_or_expr(st.value) if st.value is not None else 'EConst VNone')
        if isinstance(st, ast.Raise):
            exc = st.exc.func if isinstance(st.exc, ast.Call) else st.exc
            if not isinstance(exc, ast.Name) or exc.id not in EXC or st.cause is not None:
                bad('raise', st)
            return 'SRaise %s' % EXC[exc.id]
        if isinstance(st, ast.Assert):
            return 'SAssert (%s)' % self.expr(st.test)
        bad('statement', st)

    def xml_or_expr(self, e):
        # XMLString(<data>).load()[0]
        if isinstance(e, ast.Subscript) and isinstance(e.slice, ast.Constant) and e.slice.value == 0 \
                and isinstance(e.value, ast.Call) and isinstance(e.value.func, ast.Attribute) and e.value.func.attr == 'load' \
                and not e.value.args and isinstance(e.value.func.value, ast.Call) and isinstance(e.value.func.value.func, ast.Name) \
                and e.value.func.value.func.id == 'XMLString' and len(e.value.func.value.args) == 1 and not e.value.func.value.keywords:
            from twisted.web.template import XMLString
            if getattr(self.module, 'XMLString', None) is not XMLString:
                bad('XMLString is not twisted.web.template.XMLString', e)
            return 'EXmlLoad (%s)' % self.expr(e.value.func.value.args[0])
        return self.expr(e)

    def locals_comment(self):
        return ', '.join('%s=%d' % (self.names[n], n) for n in sorted(self.names))


def deprecate_inputs(fn, module=None):
    """(index of the first statement of the tail, {python name: variable}) -- version = X.public(), package = X.package,
    replacement = ...get_str_value(...), name = the second parameter"""
    body = strip_doc(fn.body)
    if len(fn.args.args) < 2:
        bad('deprecatedToUsefulText parameters')
    found, last = {}, -1
    for idx, st in enumerate(body):
        for n in ast.walk(st):
            if isinstance(n, (ast.Assign, ast.AnnAssign)):
                tgt = n.targets[0] if isinstance(n, ast.Assign) else n.target
                val = n.value
                if not isinstance(tgt, ast.Name) or val is None:
                    continue
                kind = None
                if isinstance(val, ast.Call) and isinstance(val.func, ast.Attribute) and val.func.attr == 'public' and not val.args:
                    kind = 'version'
                elif isinstance(val, ast.Attribute) and val.attr == 'package':
                    kind = 'package'
                elif isinstance(val, ast.Call) and isinstance(val.func, ast.Attribute) and val.func.attr == 'get_str_value':
                    kind = 'replacement'
                elif isinstance(val, ast.Call) and isinstance(val.func, ast.Name) and module is not None:
                    obj = getattr(module, val.func.id, None)
                    # a same-module helper that RETURNS ...get_str_value(...) on one of its paths
                    if inspect.isfunction(obj) and obj.__module__ == module.__name__ and any(
                            isinstance(m, ast.Return) and isinstance(m.value, ast.Call) and isinstance(m.value.func, ast.Attribute)
                            and m.value.func.attr == 'get_str_value' for m in ast.walk(fn_ast(obj))):
                        kind = 'replacement'
                if kind:
                    if found.get(kind, tgt.id) != tgt.id:
                        bad('two variables hold the ' + kind)
                    found[kind] = tgt.id
                    last = max(last, idx)
    if set(found) != {'version', 'package', 'replacement'}:
        bad('inputs of deprecatedToUsefulText not found: %s' % sorted(found))
    inputs = {fn.args.args[1].arg: 0, found['package']: 1, found['version']: 2, found['replacement']: 3}
    if len(inputs) != 4:
        bad('inputs of deprecatedToUsefulText are not four different variables')
    return last + 1, inputs


def generate():
    from pydoctor import stanutils
    from pydoctor.extensions import deprecate
    L = ['(* C10 code tie: function bodies translated from the current source (see harness/gen/gen_c10_code.py) *)',
         'From Coq Require Import NArith List.', 'Import ListNotations.',
         'From PydoctorVerif Require Import Base.Sexp Model.Stan Model.ReparseIR.', 'Local Open Scope N_scope.', '']
    # html2stan(html)
    f = fn_ast(stanutils.html2stan)
    a = f.args
    if a.vararg or a.kwarg or a.kwonlyargs or a.posonlyargs or a.defaults or len(a.args) != 1 or f.decorator_list:
        bad('parameters of html2stan', f)
    t = Fn(stanutils, {a.args[0].arg: 0})
    code = t.block(strip_doc(f.body))
    L += ['(* stanutils.html2stan ; locals: %s *)' % t.locals_comment(), 'Definition code_html2stan : istmt :=', '  ' + code + '.', '']
    # deprecatedToUsefulText, tail
    f = fn_ast(deprecate.deprecatedToUsefulText)
    start, inputs = deprecate_inputs(f, deprecate)
    t = Fn(deprecate, inputs)
    body = strip_doc(f.body)
    for st in body[:start]:
        if isinstance(st, ast.FunctionDef):
            t.helpers[st.name] = st
    code = t.block(body[start:])
    L += ['(* extensions.deprecate.deprecatedToUsefulText from statement %d on ; locals: %s *)' % (start + 1, t.locals_comment()),
          'Definition code_deprecate : istmt :=', '  ' + code + '.', '']
    return {'ReparseCode.v': '\n'.join(textwrap.fill(l, 118, subsequent_indent='  ', break_long_words=False, break_on_hyphens=False)
                                       if l.startswith('  ') else l for l in L) + '\n'}


if __name__ == '__main__':
    print(generate()['ReparseCode.v'])
