"""Translator A for C05: the BODIES of pydoctor/mro.py -- Dependency.head / .tail, DependencyList.__init__ /
__contains__ / heads / tails / exhausted / remove, _merge and mro -- translated statement by statement into the
deep-embedded language of Model/MroIR.v.  Proofs/MroIRProofs.v proves, for every input, that the interpretation of
THIS output is the hand-written Model/Mro.v (Props/C05.v: C05_code_*_is_model); so an edit of mro.py that changes
what it computes changes Gen/MroCode.v and breaks a proof obligation, not only the sampled correspondence.

Fail-closed: any statement, expression, callee or decorator outside the recognised shapes aborts the generation with
`unrecognised shape`.  Checked here, not translated (the model relies on them):
  class Dependency(deque), its two members are properties; DependencyList's heads/tails/exhausted are properties;
  the signatures (self[, item]) / ( *lists ) / (cls, getbases); `deque`, `islice` come from collections / itertools.
Variables are numbered per function: parameters first (0, 1, ...), then locals in order of first binding; every loop is
emitted as named blocks (code_<fn>_loop<k>, ..._body, ..._else, ..._var) so that the proofs can state loop invariants
without depending on local names.
"""
import ast, inspect, textwrap
from pathlib import Path

PROPS = {'head': 'PHead', 'tail': 'PTail', 'heads': 'PHeads', 'tails': 'PTails', 'exhausted': 'PExhausted'}
EXN = {'IndexError': 'IndexError', 'ValueError': 'ValueError'}


class Bad(ValueError):
    pass


def bad(what, node=None):
    raise Bad('unrecognised shape: %s%s' % (what, (' at line %d: %s' % (node.lineno, ast.unparse(node)[:90]))
                                            if node is not None and hasattr(node, 'lineno') else ''))


def strip_doc(body):
    if body and isinstance(body[0], ast.Expr) and isinstance(body[0].value, ast.Constant) and isinstance(body[0].value.value, str):
        return body[1:]
    return body


HELPERS = {}          # name -> index of the module-level helper functions (one positional parameter), set by generate()
STRCONSTS = set()     # module-level names bound to a string constant


class Fn:
    """translation of one function body"""
    def __init__(self, fn, ident, kind):
        self.fn, self.ident, self.kind = fn, ident, kind     # kind: 'dep' | 'dl' | 'merge' | 'mro' | 'helper'
        self.vars = {}                 # python name -> index
        self.bound = set()
        self.noassign = set()          # loop variables of plain `for`: read-only
        self.nomutate = set()          # names whose object must not be mutated (loop variables of plain `for`, parameters of mro)
        self.blocks = []               # (name, type, coq text) emitted before the main definition
        self.nloops = 0
        self.roles = {}
        a = fn.args
        if a.kwarg or a.kwonlyargs or a.posonlyargs or a.defaults or a.kw_defaults:
            bad('parameter list of %s' % fn.name, fn)
        names = [x.arg for x in a.args]
        if a.vararg is not None:
            names.append(a.vararg.arg)
        self.params = names
        self.vararg = a.vararg.arg if a.vararg is not None else None
        for p in names:
            self.bind(p)
        self.getbases = None
        if kind == 'mro':
            if len(names) != 2 or a.vararg is not None:
                bad('parameters of mro are not (cls, getbases)', fn)
            self.getbases = names[1]
            self.nomutate.update(names)
        if kind == 'helper':
            self.nomutate.update(names)

    def bind(self, name):
        if name not in self.vars:
            self.vars[name] = len(self.vars)
        self.bound.add(name)
        return self.vars[name]

    def use(self, name, node):
        if name == self.getbases:
            bad('%s used as a value (only calls and passing it on to mro() are understood)' % name, node)
        if name not in self.bound:
            bad('name %r read before it is bound (or not a local)' % name, node)
        return self.vars[name]

    # ---- expressions -------------------------------------------------------------------------------------------
    def expr(self, e):
        if isinstance(e, ast.Constant):
            if e.value is None:
                return 'ENone'
            if e.value is True:
                return 'ETrue'
            if e.value is False:
                return 'EFalse'
            if isinstance(e.value, int) and not isinstance(e.value, bool) and 0 <= e.value < 1000:
                return '(EInt %d)' % e.value
            bad('constant', e)
        if isinstance(e, ast.Name):
            return '(EVar %d)' % self.use(e.id, e)
        if isinstance(e, ast.List):
            if len(e.elts) == 0:
                return 'ENil'
            # [a, *b, c]  ==  [a] + b + [c]
            parts = [self.expr(x.value) if isinstance(x, ast.Starred) else '(EList1 %s)' % self.expr(x) for x in e.elts]
            r = parts[0]
            for q in parts[1:]:
                r = '(EConcat %s %s)' % (r, q)
            return r
        if isinstance(e, ast.IfExp):
            return '(EIfExp %s %s %s)' % (self.expr(e.test), self.expr(e.body), self.expr(e.orelse))
        if isinstance(e, ast.Attribute):
            if e.attr == '_lists':
                return '(EField %s)' % self.expr(e.value)
            if e.attr in PROPS:
                return '(EProp %s %s)' % (PROPS[e.attr], self.expr(e.value))
            bad('attribute', e)
        if isinstance(e, ast.Subscript):
            return '(EIndex %s %s)' % (self.expr(e.value), self.expr(e.slice))
        if isinstance(e, ast.ListComp):
            if len(e.generators) != 1:
                bad('comprehension', e)
            g = e.generators[0]
            if g.ifs or g.is_async or not isinstance(g.target, ast.Name):
                bad('comprehension generator', e)
            src = self.expr(g.iter)
            return self.comp(g.target.id, e.elt, src, e)
        if isinstance(e, ast.Compare):
            if len(e.ops) != 1:
                bad('chained comparison', e)
            a, b = self.expr(e.left), self.expr(e.comparators[0])
            op = e.ops[0]
            if isinstance(op, ast.In):
                return '(EIn %s %s)' % (a, b)
            if isinstance(op, ast.NotIn):
                return '(ENot (EIn %s %s))' % (a, b)
            if isinstance(op, ast.Eq):
                return '(EEq %s %s)' % (a, b)
            if isinstance(op, ast.NotEq):
                return '(ENot (EEq %s %s))' % (a, b)
            bad('comparison operator', e)
        if isinstance(e, ast.BoolOp) and isinstance(e.op, ast.And):
            parts = [self.expr(v) for v in e.values]
            r = parts[-1]
            for p in reversed(parts[:-1]):
                r = '(EAnd %s %s)' % (p, r)
            return r
        if isinstance(e, ast.UnaryOp) and isinstance(e.op, ast.Not):
            return '(ENot %s)' % self.expr(e.operand)
        if isinstance(e, ast.BinOp) and isinstance(e.op, ast.Add):
            return '(EConcat %s %s)' % (self.expr(e.left), self.expr(e.right))
        if isinstance(e, ast.Call):
            return self.call(e)
        bad('expression %s' % type(e).__name__, e)

    def comp(self, target, elt, src, node):
        """[elt for target in src] with target local to the comprehension"""
        if target in self.vars and target in self.bound:
            bad('comprehension variable %r shadows a local' % target, node)
        saved_bound = set(self.bound)
        x = self.bind(target)
        self.nomutate.add(target)
        body = self.expr(elt)
        self.bound = saved_bound
        # a fresh index next time the same name is used elsewhere is not needed: the variable is dead after the comprehension
        return '(EComp %d %s %s)' % (x, body, src)

    def call(self, e):
        f = e.func
        if e.keywords:
            bad('keyword arguments', e)
        args = e.args
        plain = all(not isinstance(a, ast.Starred) for a in args)
        if isinstance(f, ast.Name):
            n = f.id
            if n in self.vars and n != self.getbases:
                bad('call of a local', e)
            if n == 'len' and plain and len(args) == 1:
                return '(ELen %s)' % self.expr(args[0])
            if n == 'islice' and plain and len(args) == 3:
                return '(EISlice %s %s %s)' % tuple(self.expr(a) for a in args)
            if n == 'Dependency' and plain and len(args) == 1:
                return '(EDeque %s)' % self.expr(args[0])
            if n == 'DependencyList' and len(args) == 1 and isinstance(args[0], ast.Starred):
                return '(ENewDL %s)' % self.expr(args[0].value)
            if n in ('any', 'all') and plain and len(args) == 1:
                return '(%s %s)' % ('EAny' if n == 'any' else 'EAll', self.expr(args[0]))
            if n == 'map' and plain and len(args) == 2 and isinstance(args[0], ast.Lambda):
                lam = args[0]
                la = lam.args
                if (la.vararg or la.kwarg or la.kwonlyargs or la.posonlyargs or la.defaults or len(la.args) != 1):
                    bad('lambda parameters', e)
                src = self.expr(args[1])
                return self.comp(la.args[0].arg, lam.body, src, e)
            if self.kind == 'merge' and n in HELPERS and plain and len(args) == 1:
                return '(EHelper %d %s)' % (HELPERS[n], self.expr(args[0]))
            if self.kind == 'mro' and n == self.getbases and plain and len(args) == 1:
                return '(EGetbases %s)' % self.expr(args[0])
            if self.kind == 'mro' and n == 'mro' and plain and len(args) == 2:
                if not (isinstance(args[1], ast.Name) and args[1].id == self.getbases):
                    bad('recursive call does not pass getbases on', e)
                return '(ECallMro %s)' % self.expr(args[0])
            if self.kind == 'mro' and n == '_merge':
                parts = []
                for a in args:
                    parts.append(self.expr(a.value) if isinstance(a, ast.Starred) else '(EList1 %s)' % self.expr(a))
                if not parts:
                    return '(ECallMerge ENil)'
                r = parts[0]
                for p in parts[1:]:
                    r = '(EConcat %s %s)' % (r, p)
                return '(ECallMerge %s)' % r
            bad('call of %s' % n, e)
        if isinstance(f, ast.Attribute) and f.attr == '__len__' and not args:
            return '(ELen %s)' % self.expr(f.value)
        bad('call', e)

    # ---- statements --------------------------------------------------------------------------------------------
    def seq(self, out):
        out = [o for o in out if o is not None]
        if not out:
            return 'SSkip'
        r = out[-1]
        for o in reversed(out[:-1]):
            r = '(SSeq %s %s)' % (o, r)
        return r

    def block(self, stmts):
        return self.seq([self.stmt(s) for s in stmts])

    def mut_target(self, node, s):
        if not isinstance(node, ast.Name):
            bad('mutation of something that is not a local variable', s)
        if node.id in self.nomutate:
            bad('mutation of %r (a plain loop variable / comprehension variable / parameter of mro)' % node.id, s)
        return self.use(node.id, s)

    def emit(self, name, typ, text):
        self.blocks.append((name, typ, text))
        return name

    def stmt(self, s):
        if isinstance(s, ast.Pass):
            return None
        if isinstance(s, (ast.Assign, ast.AnnAssign)):
            if isinstance(s, ast.Assign):
                if len(s.targets) != 1:
                    bad('multiple assignment', s)
                tgt, val = s.targets[0], s.value
            else:
                tgt, val = s.target, s.value
                if val is None:
                    return None                    # a bare annotation
            if isinstance(val, ast.Name):
                bad('assignment of one variable to another (aliasing is outside the language)', s)
            v = self.expr(val)
            if isinstance(tgt, ast.Name):
                if tgt.id in self.noassign or tgt.id in self.params and self.kind == 'mro':
                    bad('assignment to a loop variable / parameter', s)
                x = self.bind(tgt.id)
                self.nomutate.discard(tgt.id)
                if self.kind == 'merge' and v.startswith('(ENewDL'):
                    if 'lin' in self.roles:
                        bad('two DependencyList objects in _merge', s)
                    self.roles['lin'] = x
                return '(SAssign %d %s)' % (x, v)
            if (isinstance(tgt, ast.Attribute) and tgt.attr == '_lists' and isinstance(tgt.value, ast.Name)
                    and self.params and tgt.value.id == self.params[0] and self.kind == 'dl'):
                return '(SSetField %d %s)' % (self.use(tgt.value.id, s), v)
            bad('assignment target', s)
        if isinstance(s, ast.Expr) and isinstance(s.value, ast.Call) and isinstance(s.value.func, ast.Attribute):
            c = s.value
            f = c.func
            if c.keywords or any(isinstance(a, ast.Starred) for a in c.args):
                bad('call arguments', s)
            if f.attr == 'append' and len(c.args) == 1:
                return '(SAppend %d %s)' % (self.mut_target(f.value, s), self.expr(c.args[0]))
            if f.attr == 'popleft' and not c.args:
                return '(SPopLeft %d)' % self.mut_target(f.value, s)
            if f.attr == 'remove' and len(c.args) == 1 and self.kind == 'merge':
                return '(SRemove %d %s)' % (self.mut_target(f.value, s), self.expr(c.args[0]))
            bad('method call statement', s)
        if isinstance(s, ast.If):
            c = self.expr(s.test)
            before = set(self.bound)
            th = self.block(s.body)
            b1 = self.bound
            self.bound = set(before)
            el = self.block(s.orelse)
            self.bound = b1 & self.bound
            return '(SIf %s %s %s)' % (c, th, el)
        if isinstance(s, ast.Continue):
            return 'SContinue'
        if isinstance(s, ast.While):
            if s.orelse:
                bad('while loop with else', s)
            self.nloops += 1
            k = self.nloops
            before = set(self.bound)
            if isinstance(s.test, ast.Constant) and s.test.value is True:
                body = self.block(s.body)
            else:
                # while c: B   ==   while True: (if c: pass else: break); B
                guard = '(SIf %s SSkip SBreak)' % self.expr(s.test)
                body = self.seq([guard, self.block(s.body)])
            self.bound = before                     # conservative: nothing bound in the body is relied on after the loop
            nb = self.emit('code_%s_loop%d_body' % (self.ident, k), 'stmt', body)
            return self.emit('code_%s_loop%d' % (self.ident, k), 'stmt', '(SWhileTrue %s)' % nb)
        if (isinstance(s, ast.For) and isinstance(s.target, ast.Tuple) and len(s.target.elts) == 2
                and all(isinstance(t, ast.Name) for t in s.target.elts) and not s.orelse
                and isinstance(s.iter, ast.Call) and isinstance(s.iter.func, ast.Name) and s.iter.func.id == 'zip'
                and 'zip' not in self.vars and not s.iter.keywords and len(s.iter.args) == 2
                and isinstance(s.iter.args[0], ast.Attribute) and s.iter.args[0].attr == '_lists'
                and isinstance(s.iter.args[0].value, ast.Name)):
            # for x, y in zip(NAME._lists, e): body
            self.nloops += 1
            k = self.nloops
            tx, ty = s.target.elts[0].id, s.target.elts[1].id
            if tx in self.bound or ty in self.bound or tx == ty:
                bad('loop variables re-use a bound name', s)
            sv = self.use(s.iter.args[0].value.id, s)
            src = self.expr(s.iter.args[1])
            before = set(self.bound)
            x = self.bind(tx)
            y = self.bind(ty)
            self.noassign.update((tx, ty))
            self.nomutate.add(ty)
            body = self.block(s.body)
            self.noassign.difference_update((tx, ty))
            self.bound = before
            nv = self.emit('code_%s_loop%d_var' % (self.ident, k), 'var', '%d' % x)
            nw = self.emit('code_%s_loop%d_var2' % (self.ident, k), 'var', '%d' % y)
            nb = self.emit('code_%s_loop%d_body' % (self.ident, k), 'stmt', body)
            return self.emit('code_%s_loop%d' % (self.ident, k), 'stmt', '(SForFieldZip %s %s %d %s %s)' % (nv, nw, sv, src, nb))
        if isinstance(s, ast.For):
            if not isinstance(s.target, ast.Name):
                bad('for target', s)
            self.nloops += 1
            k = self.nloops
            tgt = s.target.id
            if tgt in self.bound:
                bad('loop variable %r re-uses a bound name' % tgt, s)
            it = s.iter
            infield = (isinstance(it, ast.Attribute) and it.attr == '_lists' and isinstance(it.value, ast.Name) and not s.orelse)
            before = set(self.bound)
            if infield:
                sv = self.use(it.value.id, s)
                x = self.bind(tgt)
                self.noassign.add(tgt)
                body = self.block(s.body)
                self.noassign.discard(tgt)
                self.bound = before
                nv = self.emit('code_%s_loop%d_var' % (self.ident, k), 'var', '%d' % x)
                nb = self.emit('code_%s_loop%d_body' % (self.ident, k), 'stmt', body)
                return self.emit('code_%s_loop%d' % (self.ident, k), 'stmt', '(SForField %s %d %s)' % (nv, sv, nb))
            src = self.expr(it)
            x = self.bind(tgt)
            self.noassign.add(tgt)
            self.nomutate.add(tgt)
            body = self.block(s.body)
            self.noassign.discard(tgt)
            self.bound = set(before)
            orelse = self.block(s.orelse)
            self.bound = before
            nv = self.emit('code_%s_loop%d_var' % (self.ident, k), 'var', '%d' % x)
            nb = self.emit('code_%s_loop%d_body' % (self.ident, k), 'stmt', body)
            ne = self.emit('code_%s_loop%d_else' % (self.ident, k), 'stmt', orelse)
            return self.emit('code_%s_loop%d' % (self.ident, k), 'stmt', '(SFor %s %s %s %s)' % (nv, src, nb, ne))
        if isinstance(s, ast.Break):
            return 'SBreak'
        if isinstance(s, ast.Return):
            if s.value is None:
                return '(SReturn ENone)'
            if self.kind == 'merge' and isinstance(s.value, ast.Name):
                r = self.use(s.value.id, s)
                if self.roles.setdefault('result', r) != r:
                    bad('_merge returns two different variables', s)
            return '(SReturn %s)' % self.expr(s.value)
        if isinstance(s, ast.Raise):
            if s.cause is not None or s.exc is None:
                bad('raise', s)
            ex = s.exc
            if isinstance(ex, ast.Call) and isinstance(ex.func, ast.Name) and not ex.keywords and all(
                    isinstance(a, (ast.Constant, ast.JoinedStr)) or (isinstance(a, ast.Name) and a.id in STRCONSTS
                                                                      and a.id not in self.vars) for a in ex.args):
                ex = ex.func                       # the message is not modelled
            if isinstance(ex, ast.Name) and ex.id in EXN and ex.id not in self.vars:
                return '(SRaise %s)' % EXN[ex.id]
            bad('raised exception', s)
        if isinstance(s, ast.Try):
            if s.orelse or s.finalbody or len(s.handlers) != 1:
                bad('try with else/finally or several handlers', s)
            h = s.handlers[0]
            if h.name is not None or h.type is None:
                bad('except clause', h)
            ts = h.type.elts if isinstance(h.type, ast.Tuple) else [h.type]
            ks = []
            for t in ts:
                if not (isinstance(t, ast.Name) and t.id in EXN and t.id not in self.vars):
                    bad('exception class', h)
                ks.append(EXN[t.id])
            before = set(self.bound)
            body = self.block(s.body)
            b1 = self.bound
            self.bound = set(before)
            hb = self.block(h.body)
            self.bound = (b1 & self.bound) | before
            return '(STry %s [%s] %s)' % (body, '; '.join(ks), hb)
        bad('statement %s' % type(s).__name__, s)

    def translate(self):
        self.text = self.block(strip_doc(self.fn.body))
        return self.text


def find(tree_body, typ, name):
    xs = [n for n in tree_body if isinstance(n, typ) and n.name == name]
    if len(xs) != 1:
        bad('%s %s not found exactly once' % (typ.__name__, name))
    return xs[0]


def pin(cond, what):
    if not cond:
        bad('pinned structure changed: ' + what)


def decorators(fn):
    return [ast.unparse(d) for d in fn.decorator_list]


def generate() -> dict:
    from pydoctor import mro as M
    src = Path(inspect.getsourcefile(M)).read_text()
    tree = ast.parse(src)
    imports = [ast.unparse(n) for n in tree.body if isinstance(n, (ast.Import, ast.ImportFrom))]
    pin('from collections import deque' in imports, '`deque` is collections.deque')
    pin('from itertools import islice' in imports, '`islice` is itertools.islice')
    top = [n.name for n in tree.body if isinstance(n, (ast.FunctionDef, ast.ClassDef))]
    pin(len(set(top)) == len(top) and {'Dependency', 'DependencyList', '_merge', 'mro'} <= set(top)
        and all(isinstance(n, ast.FunctionDef) for n in tree.body
                if isinstance(n, (ast.FunctionDef, ast.ClassDef)) and n.name not in ('Dependency', 'DependencyList')),
        'top-level definitions of mro.py are %s' % sorted(top))
    # other module-level functions: helpers of one positional parameter, translated like the rest
    HELPERS.clear()
    STRCONSTS.clear()
    helper_fns = [n for n in tree.body if isinstance(n, ast.FunctionDef) and n.name not in ('_merge', 'mro')]
    for i, n in enumerate(helper_fns):
        pin(not n.decorator_list and len(n.args.args) == 1 and n.args.vararg is None, 'helper function %s' % n.name)
        HELPERS[n.name] = i
    for n in tree.body:
        if (isinstance(n, ast.Assign) and len(n.targets) == 1 and isinstance(n.targets[0], ast.Name)
                and isinstance(n.value, ast.Constant) and isinstance(n.value.value, str)):
            STRCONSTS.add(n.targets[0].id)
    D = find(tree.body, ast.ClassDef, 'Dependency')
    L = find(tree.body, ast.ClassDef, 'DependencyList')
    pin([ast.unparse(b) for b in D.bases] == ['deque'] and not D.keywords, 'Dependency is not a plain subclass of deque')
    pin(not L.bases and not L.keywords, 'DependencyList has base classes')
    dmembers = {n.name for n in D.body if isinstance(n, ast.FunctionDef)}
    pin(dmembers == {'head', 'tail'} and all(isinstance(n, (ast.FunctionDef, ast.Expr)) for n in D.body),
        'members of Dependency are %s' % sorted(dmembers))
    lmembers = {n.name for n in L.body if isinstance(n, ast.FunctionDef)}
    pin({'__init__', '__contains__', 'heads', 'tails', 'exhausted', 'remove'} <= lmembers
        and lmembers <= {'__init__', '__contains__', 'heads', 'tails', 'exhausted', 'remove', '__len__', '__repr__'}
        and all(isinstance(n, (ast.FunctionDef, ast.Expr)) for n in L.body),
        'members of DependencyList are %s' % sorted(lmembers))

    specs = [  # (record field, owner, python name, ident, kind, property?, parameter shape)
        ('c_head', D, 'head', 'Dependency_head', 'dep', True, (1, False)),
        ('c_tail', D, 'tail', 'Dependency_tail', 'dep', True, (1, False)),
        ('c_init', L, '__init__', 'DependencyList_init', 'dl', False, (1, True)),
        ('c_contains', L, '__contains__', 'DependencyList_contains', 'dl', False, (2, False)),
        ('c_heads', L, 'heads', 'DependencyList_heads', 'dl', True, (1, False)),
        ('c_tails', L, 'tails', 'DependencyList_tails', 'dl', True, (1, False)),
        ('c_exhausted', L, 'exhausted', 'DependencyList_exhausted', 'dl', True, (1, False)),
        ('c_remove', L, 'remove', 'DependencyList_remove', 'dl', False, (2, False)),
        ('c_merge', None, '_merge', 'merge', 'merge', False, (0, True)),
        ('c_mro', None, 'mro', 'mro', 'mro', False, (2, False)),
    ]
    fns = []
    for field, owner, pyname, ident, kind, isprop, (npos, star) in specs:
        fn = find(owner.body if owner is not None else tree.body, ast.FunctionDef, pyname)
        pin(decorators(fn) == (['property'] if isprop else []), 'decorators of %s' % pyname)
        pin(len(fn.args.args) == npos and (fn.args.vararg is not None) == star, 'parameters of %s' % pyname)
        t = Fn(fn, ident, kind)
        t.translate()
        fns.append((field, t))
    helpers = []
    for n in helper_fns:
        t = Fn(n, 'helper_' + n.name.strip('_'), 'helper')
        t.translate()
        helpers.append(t)
    merge = dict(fns)['c_merge']
    if set(merge.roles) != {'lin', 'result'}:
        bad('_merge: cannot tell the result list and the DependencyList apart (roles %s)' % merge.roles)

    lines = ['From Coq Require Import NArith List.', 'Import ListNotations.',
             'From PydoctorVerif Require Import Model.Mro Model.MroIR.', 'Local Open Scope N_scope.', '']
    for field, t in [(None, h) for h in helpers] + fns:
        lines.append('(* %s : variables %s *)' % (t.fn.name, ', '.join('%d=%s' % (i, n) for n, i in t.vars.items())))
        for name, typ, text in t.blocks:
            lines.append('Definition %s : %s :=' % (name, typ))
            lines.append(textwrap.fill(text, 110, initial_indent='  ', subsequent_indent='  ', break_long_words=False) + '.')
            if typ == 'stmt':
                lines.append('Arguments %s : simpl never.' % name)
        lines.append('Definition code_%s : stmt :=' % t.ident)
        lines.append(textwrap.fill(t.text, 110, initial_indent='  ', subsequent_indent='  ', break_long_words=False) + '.')
        lines.append('')
    lines.append('(* in _merge: the variable that is returned, and the variable that holds the DependencyList *)')
    lines.append('Definition role_merge_result : var := %d.' % merge.roles['result'])
    lines.append('Definition role_merge_lin : var := %d.' % merge.roles['lin'])
    lines.append('')
    lines.append('Definition mro_code : code :=')
    lines.append('  {| ' + ';\n     '.join('%s := code_%s' % (field, t.ident) for field, t in fns)
                 + ';\n     c_helpers := [%s] |}.' % '; '.join('code_%s' % h.ident for h in helpers))
    return {'MroCode.v': '\n'.join(lines) + '\n'}


if __name__ == '__main__':
    print(generate()['MroCode.v'])
