"""Translator A for C17: the BODIES of pydoctor/sphinx.py `_parseInventoryLine` and `SphinxInventory.getLink`, translated
statement by statement into the deep-embedded language of Model/InventoryIR.v.  Proofs/InventoryIRProofs.v proves, for
every line / every map and name (and every behaviour of int()), that the interpretation of THIS output is the hand model
Model/Inventory.v (parse_line, get_link); so an edit of those functions that changes their behaviour changes
Gen/InventoryCode.v and breaks a `C17_code_*_is_model` proof obligation, not only the sampled correspondence, while an
edit that keeps the meaning (other local names, for/range instead of while/try, early return, an extra local) translates
to other code with the same interpretation.

Fail-closed: any statement, expression, call, exception class or name outside the recognised shapes aborts the generation
with `unrecognised shape`.  Normalisations done here (each keeps the Python meaning):
  blocks                      -> right nested SSeq, `pass` and docstrings dropped
  x += e / x -= e             -> x = x + e / x = x - e
  while True: B               -> SLoop B
  while c: B [else: E]        -> SLoop (if c: B else: E; break)
  for x in range(a, b): B [else: E]
                              -> hidden locals: end = b; it = a; SLoop (if it >= end: E; break  else: x = it; it = it + 1; B)
                                 (range() evaluates its bounds once; `continue` in B goes to the next test, `break` skips E)
  raise ValueError(<anything>) [from None]   -> SRaise ValueError   (messages are not part of C17)
  return                      -> return None
  k in self._links / k not in self._links / self._links[k]   -> ELinksHas / ENot ELinksHas / ELinksIndex
  a, *m, z = e                -> SUnpackStar
  t = helper(args)            -> SCall with the translated body of `helper`, a function defined at module level in the same
                                 file (not recursive, positional parameters only); its locals get slots of their own

SphinxInventory._parseInventory is translated into the second layer (istmt) of Model/InventoryIR.v, statement by statement:
  x = {}                      -> INewDict x
  x[k] = v                    -> IDictStore x k v
  for x in <expr>: B          -> IForEach x <expr> B     (no else clause; `e.splitlines()` is the primitive ESplitLines)
  try: B except K: H [else: E]-> ITry B K H E            (exactly one handler, no finally, no `as`)
  if c: A else: B             -> IIf c A B
  self.error('sphinx', 'Failed to parse line "%s" for %s' % (a, b))   (or the same text as an f-string)
                              -> IErrorLine a b          (any other message / argument shape is unrecognised)
  t = _parseInventoryLine(a)  -> ICall t code_parse_line [a]   (the code translated above, by name)
  any other statement         -> ILocal <its first-layer translation>
"""
import ast
import inspect
import textwrap
from pathlib import Path

EXN = {'ValueError': 'ValueError', 'IndexError': 'IndexError'}
CMP = {ast.Lt: 'CLt', ast.LtE: 'CLe', ast.Gt: 'CGt', ast.GtE: 'CGe', ast.Eq: 'CEq', ast.NotEq: 'CNe'}


class Bad(ValueError):
    pass


def bad(what, node=None):
    raise Bad('unrecognised shape: %s%s' % (what, (' at line %d: %s' % (node.lineno, ast.unparse(node)[:90]))
                                            if node is not None and hasattr(node, 'lineno') else ''))


def coq_text(s):
    return '[' + '; '.join('%d%%N' % ord(c) for c in s) + ']'


def strip_doc(body):
    if body and isinstance(body[0], ast.Expr) and isinstance(body[0].value, ast.Constant) and isinstance(body[0].value.value, str):
        return body[1:]
    return body


def is_self_links(e):
    return (isinstance(e, ast.Attribute) and e.attr == '_links' and isinstance(e.value, ast.Name) and e.value.id == 'self')


class Function:
    def __init__(self, fn, tag, skip_self, module_funcs=None, depth=0):
        self.fn = fn
        self.tag = tag
        self.module_funcs = module_funcs or {}
        self.depth = depth
        self.callees = []                   # translated helpers (Function objects), in call order
        self.vars = {}
        self.hidden = 0
        a = fn.args
        if a.vararg or a.kwarg or a.kwonlyargs or a.posonlyargs or a.defaults:
            bad('parameter list of %s' % fn.name, fn)
        names = [x.arg for x in a.args]
        if skip_self:
            if names[:1] != ['self']:
                bad('first parameter of %s is not self' % fn.name, fn)
            names = names[1:]
        self.params = names
        for p in names:
            self.var(p)

    def var(self, name):
        if name not in self.vars:
            self.vars[name] = len(self.vars)
        return 'v_%s_%s' % (self.tag, name)

    def fresh(self, what):
        self.hidden += 1
        return self.var('hidden%d_%s' % (self.hidden, what))

    def local(self, name, node):
        if name in ('self',):
            bad('use of self outside self._links.get', node)
        return self.var(name)

    # ------------------------------------------------------------------ expressions
    def expr(self, e):
        if isinstance(e, ast.Name):
            return 'EVar %s' % self.local(e.id, e)
        if isinstance(e, ast.Constant):
            v = e.value
            if v is None:
                return 'ENone'
            if v is True or v is False:
                return 'EBool %s' % ('true' if v else 'false')
            if isinstance(v, int):
                return 'EInt (%d)%%Z' % v
            if isinstance(v, str):
                return 'EStr %s' % coq_text(v)
            bad('constant', e)
        if isinstance(e, ast.Tuple):
            return 'ETuple [%s]' % '; '.join(self.expr(x) for x in e.elts)
        if isinstance(e, ast.UnaryOp):
            if isinstance(e.op, ast.Not):
                return 'ENot (%s)' % self.expr(e.operand)
            if isinstance(e.op, ast.USub) and isinstance(e.operand, ast.Constant) and type(e.operand.value) is int:
                return 'EInt (%d)%%Z' % (-e.operand.value)
            bad('unary operator', e)
        if isinstance(e, ast.BinOp):
            if isinstance(e.op, ast.Add):
                return 'EAdd (%s) (%s)' % (self.expr(e.left), self.expr(e.right))
            if isinstance(e.op, ast.Sub):
                return 'ESub (%s) (%s)' % (self.expr(e.left), self.expr(e.right))
            bad('binary operator', e)
        if isinstance(e, ast.Compare):
            if len(e.ops) != 1:
                bad('chained comparison', e)
            op, l, r = e.ops[0], e.left, e.comparators[0]
            if isinstance(op, (ast.In, ast.NotIn)):
                if not is_self_links(r):
                    bad('in / not in something other than self._links', e)
                t = 'ELinksHas (%s)' % self.expr(l)
                return t if isinstance(op, ast.In) else 'ENot (%s)' % t
            if isinstance(op, (ast.Is, ast.IsNot)):
                if not (isinstance(r, ast.Constant) and r.value is None):
                    bad('is / is not with something other than None', e)
                return '%s (%s)' % ('EIsNone' if isinstance(op, ast.Is) else 'EIsNotNone', self.expr(l))
            if type(op) in CMP:
                return 'ECmp %s (%s) (%s)' % (CMP[type(op)], self.expr(l), self.expr(r))
            bad('comparison operator', e)
        if isinstance(e, ast.Subscript) and is_self_links(e.value):
            if isinstance(e.slice, ast.Slice):
                bad('slice of self._links', e)
            return 'ELinksIndex (%s)' % self.expr(e.slice)
        if isinstance(e, ast.Subscript):
            if isinstance(e.slice, ast.Slice):
                if e.slice.step is not None:
                    bad('slice with a step', e)
                lo = 'None' if e.slice.lower is None else 'Some (%s)' % self.expr(e.slice.lower)
                hi = 'None' if e.slice.upper is None else 'Some (%s)' % self.expr(e.slice.upper)
                return 'ESlice (%s) (%s) (%s)' % (self.expr(e.value), lo, hi)
            return 'EIndex (%s) (%s)' % (self.expr(e.value), self.expr(e.slice))
        if isinstance(e, ast.JoinedStr):
            ps = []
            for v in e.values:
                if isinstance(v, ast.Constant) and isinstance(v.value, str):
                    ps.append('EStr %s' % coq_text(v.value))
                elif isinstance(v, ast.FormattedValue) and v.conversion == -1 and v.format_spec is None:
                    ps.append(self.expr(v.value))
                else:
                    bad('f-string piece', e)
            return 'EFormat [%s]' % '; '.join(ps)
        if isinstance(e, ast.Call):
            if e.keywords:
                bad('keyword arguments', e)
            f = e.func
            if isinstance(f, ast.Name):
                if f.id == 'int' and len(e.args) == 1:
                    return 'EIntOf (%s)' % self.expr(e.args[0])
                if f.id == 'len' and len(e.args) == 1:
                    return 'ELen (%s)' % self.expr(e.args[0])
                bad('call of %s' % f.id, e)
            if isinstance(f, ast.Attribute):
                # self._links.get(k[, d])
                if (f.attr == 'get' and isinstance(f.value, ast.Attribute) and f.value.attr == '_links'
                        and isinstance(f.value.value, ast.Name) and f.value.value.id == 'self' and len(e.args) in (1, 2)):
                    d = self.expr(e.args[1]) if len(e.args) == 2 else 'ENone'
                    return 'ELinksGet (%s) (%s)' % (self.expr(e.args[0]), d)
                if f.attr == 'split' and len(e.args) == 1:
                    return 'ESplit (%s) (%s)' % (self.expr(f.value), self.expr(e.args[0]))
                if f.attr == 'join' and len(e.args) == 1:
                    return 'EJoin (%s) (%s)' % (self.expr(f.value), self.expr(e.args[0]))
                if f.attr == 'endswith' and len(e.args) == 1:
                    return 'EEndsWith (%s) (%s)' % (self.expr(f.value), self.expr(e.args[0]))
                if f.attr == 'startswith' and len(e.args) == 1:
                    return 'EStartsWith (%s) (%s)' % (self.expr(f.value), self.expr(e.args[0]))
                if f.attr == 'splitlines' and len(e.args) == 0:
                    return 'ESplitLines (%s)' % self.expr(f.value)
                bad('method call .%s' % f.attr, e)
            bad('call', e)
        bad('expression %s' % type(e).__name__, e)

    # ------------------------------------------------------------------ statements
    def seq(self, items):
        items = [i for i in items if i is not None and i != 'SSkip']
        if not items:
            return 'SSkip'
        r = items[-1]
        for i in reversed(items[:-1]):
            r = 'SSeq (%s) (%s)' % (i, r)
        return r

    def block(self, stmts):
        return self.seq([self.stmt(s) for s in stmts])

    def exn_classes(self, t):
        if isinstance(t, ast.Tuple):
            return [k for el in t.elts for k in self.exn_classes(el)]
        if isinstance(t, ast.Name) and t.id in EXN:
            return [EXN[t.id]]
        bad('except clause class', t)

    def star_split(self, target, node):
        """a, *m, z  ->  ([a], m, [z]) or None when the target has no starred name"""
        if not isinstance(target, (ast.Tuple, ast.List)):
            return None
        stars = [i for i, x in enumerate(target.elts) if isinstance(x, ast.Starred)]
        if not stars:
            return None
        if len(stars) != 1 or not isinstance(target.elts[stars[0]].value, ast.Name):
            bad('starred assignment target', node)
        i = stars[0]
        others = target.elts[:i] + target.elts[i + 1:]
        if not all(isinstance(x, ast.Name) for x in others):
            bad('starred assignment target', node)
        return ([self.local(x.id, node) for x in target.elts[:i]], self.local(target.elts[i].value.id, node),
                [self.local(x.id, node) for x in target.elts[i + 1:]])

    def assign_to(self, target, value_text, node):
        if isinstance(target, ast.Name):
            return 'SAssign %s (%s)' % (self.local(target.id, node), value_text)
        st = self.star_split(target, node)
        if st is not None:
            return 'SUnpackStar [%s] %s [%s] (%s)' % ('; '.join(st[0]), st[1], '; '.join(st[2]), value_text)
        if isinstance(target, (ast.Tuple, ast.List)) and all(isinstance(x, ast.Name) for x in target.elts):
            return 'SUnpack [%s] (%s)' % ('; '.join(self.local(x.id, node) for x in target.elts), value_text)
        bad('assignment target', node)

    def helper_call(self, target, call, node):
        """target = helper(args) for a module level helper of the same file"""
        name = call.func.id
        fn = self.module_funcs[name]
        if self.depth >= 2 or name == self.fn.name:
            bad('nested / recursive helper call', node)
        if call.keywords or any(isinstance(a, ast.Starred) for a in call.args):
            bad('helper call arguments', node)
        callee = Function(fn, '%s_%s' % (self.tag, name.lstrip('_')), skip_self=False, module_funcs=self.module_funcs,
                          depth=self.depth + 1)
        if fn.decorator_list or len(callee.params) != len(call.args):
            bad('helper %s: decorators / arity' % name, node)
        body = callee.block(strip_doc(fn.body))
        self.callees.append(callee)
        if isinstance(target, ast.Name):
            t = 'TVar %s' % self.local(target.id, node)
        else:
            st = self.star_split(target, node)
            if st is not None:
                t = 'TStar [%s] %s [%s]' % ('; '.join(st[0]), st[1], '; '.join(st[2]))
            elif isinstance(target, (ast.Tuple, ast.List)) and all(isinstance(x, ast.Name) for x in target.elts):
                t = 'TTuple [%s]' % '; '.join(self.local(x.id, node) for x in target.elts)
            else:
                bad('assignment target', node)
        callee.nlocals_text = '%d%%nat' % len(callee.vars)
        return 'SCall (%s) (%d%%nat) [%s] [%s] (%s)' % (
            t, len(callee.vars), '; '.join('v_%s_%s' % (callee.tag, p_) for p_ in callee.params),
            '; '.join(self.expr(a) for a in call.args), body)

    def is_helper_call(self, v):
        return (isinstance(v, ast.Call) and isinstance(v.func, ast.Name) and v.func.id in self.module_funcs
                and v.func.id not in ('int', 'len', 'range'))

    def stmt(self, s):
        if isinstance(s, ast.Pass):
            return None
        if isinstance(s, ast.Expr):
            if isinstance(s.value, ast.Constant):
                return None
            bad('expression statement', s)
        if isinstance(s, ast.Assign):
            if len(s.targets) != 1:
                bad('chained assignment', s)
            if self.is_helper_call(s.value):
                return self.helper_call(s.targets[0], s.value, s)
            return self.assign_to(s.targets[0], self.expr(s.value), s)
        if isinstance(s, ast.AnnAssign):
            if s.value is None:
                return None
            if self.is_helper_call(s.value):
                return self.helper_call(s.target, s.value, s)
            return self.assign_to(s.target, self.expr(s.value), s)
        if isinstance(s, ast.AugAssign):
            if not isinstance(s.target, ast.Name) or not isinstance(s.op, (ast.Add, ast.Sub)):
                bad('augmented assignment', s)
            v = self.local(s.target.id, s)
            op = 'EAdd' if isinstance(s.op, ast.Add) else 'ESub'
            return 'SAssign %s (%s (EVar %s) (%s))' % (v, op, v, self.expr(s.value))
        if isinstance(s, ast.If):
            return 'SIf (%s) (%s) (%s)' % (self.expr(s.test), self.block(s.body), self.block(s.orelse))
        if isinstance(s, ast.While):
            body = self.block(s.body)
            if isinstance(s.test, ast.Constant) and s.test.value is True:
                if s.orelse:
                    bad('while True with else', s)
                return 'SLoop (%s)' % body
            return 'SLoop (SIf (%s) (%s) (%s))' % (self.expr(s.test), body, self.seq([self.block(s.orelse), 'SBreak']))
        if isinstance(s, ast.For):
            it = s.iter
            if not (isinstance(s.target, ast.Name) and isinstance(it, ast.Call) and isinstance(it.func, ast.Name)
                    and it.func.id == 'range' and not it.keywords and len(it.args) in (1, 2)):
                bad('for loop that is not `for <name> in range(a[, b])`', s)
            lo = 'EInt (0)%Z' if len(it.args) == 1 else self.expr(it.args[0])
            hi = self.expr(it.args[-1])
            v_end = self.fresh('end')
            v_it = self.fresh('it')
            x = self.local(s.target.id, s)
            body = self.block(s.body)
            loop = ('SLoop (SIf (ECmp CGe (EVar %s) (EVar %s)) (%s) (%s))'
                    % (v_it, v_end, self.seq([self.block(s.orelse), 'SBreak']),
                       self.seq(['SAssign %s (EVar %s)' % (x, v_it),
                                 'SAssign %s (EAdd (EVar %s) (EInt (1)%%Z))' % (v_it, v_it), body])))
            # range(a, b): a is evaluated before b
            if len(it.args) == 2:
                return self.seq(['SAssign %s (%s)' % (v_it, lo), 'SAssign %s (%s)' % (v_end, hi), loop])
            return self.seq(['SAssign %s (%s)' % (v_end, hi), 'SAssign %s (%s)' % (v_it, lo), loop])
        if isinstance(s, ast.Break):
            return 'SBreak'
        if isinstance(s, ast.Continue):
            return 'SContinue'
        if isinstance(s, ast.Try):
            if s.finalbody:
                bad('try with finally', s)
            hs = 'HNil'
            for h in reversed(s.handlers):
                if h.type is None or h.name is not None:
                    bad('bare except / except ... as name', h)
                hs = 'HCons [%s] (%s) (%s)' % ('; '.join(self.exn_classes(h.type)), self.block(h.body), hs)
            return 'STry (%s) (%s) (%s)' % (self.block(s.body), hs, self.block(s.orelse))
        if isinstance(s, ast.Raise):
            if s.cause is not None and not (isinstance(s.cause, ast.Constant) and s.cause.value is None):
                bad('raise ... from <exception>', s)
            x = s.exc
            if isinstance(x, ast.Call) and isinstance(x.func, ast.Name) and x.func.id in EXN:
                for a in x.args:
                    if not isinstance(a, (ast.Constant, ast.JoinedStr, ast.BinOp, ast.Name)):
                        bad('exception argument', s)
                return 'SRaise %s' % EXN[x.func.id]
            if isinstance(x, ast.Name) and x.id in EXN:
                return 'SRaise %s' % EXN[x.id]
            bad('raise', s)
        if isinstance(s, ast.Return):
            return 'SReturn (%s)' % ('ENone' if s.value is None else self.expr(s.value))
        bad('statement %s' % type(s).__name__, s)

    def var_defs(self):
        lines = []
        for c in self.callees:
            lines += c.var_defs()
        lines.append('(* locals of %s *)' % self.fn.name)
        for py, i in self.vars.items():
            lines.append('Definition v_%s_%s : var := %d%%nat.' % (self.tag, py, i))
        return lines

    def emit(self, name):
        body = self.block(strip_doc(self.fn.body))
        lines = self.var_defs()
        lines.append('Definition %s : fn_code :=' % name)
        lines.append('  {| f_locals := %d%%nat; f_params := [%s]; f_body :=' % (
            len(self.vars), '; '.join('v_%s_%s' % (self.tag, p) for p in self.params)))
        lines.append(textwrap.fill(body, 112, initial_indent='  ', subsequent_indent='  ', break_long_words=False) + ' |}.')
        lines.append('')
        return lines


LINE_MESSAGE = 'Failed to parse line "%s" for %s'
LINE_HELPER = '_parseInventoryLine'


class InvFunction(Function):
    """a method translated into the second layer (istmt)"""

    def iseq(self, items):
        items = [i for i in items if i is not None and i != 'ISkip']
        if not items:
            return 'ISkip'
        r = items[-1]
        for i in reversed(items[:-1]):
            r = 'ISeq (%s) (%s)' % (i, r)
        return r

    def iblock(self, stmts):
        return self.iseq([self.istmt(s) for s in stmts])

    def error_report(self, call, node):
        """self.error('sphinx', <the line message> % (a, b)) -> (a, b)"""
        if call.keywords or len(call.args) != 2:
            bad('self.error arguments', node)
        sec, msg = call.args
        if not (isinstance(sec, ast.Constant) and sec.value == 'sphinx'):
            bad('self.error section', node)
        if (isinstance(msg, ast.BinOp) and isinstance(msg.op, ast.Mod) and isinstance(msg.left, ast.Constant)
                and msg.left.value == LINE_MESSAGE and isinstance(msg.right, ast.Tuple) and len(msg.right.elts) == 2):
            a, b = msg.right.elts
            return self.expr(a), self.expr(b)
        if isinstance(msg, ast.JoinedStr) and len(msg.values) == 4:
            c1, a, c2, b = msg.values
            pre, mid = LINE_MESSAGE.split('%s')[:2]
            if (isinstance(c1, ast.Constant) and c1.value == pre and isinstance(c2, ast.Constant) and c2.value == mid
                    and all(isinstance(v, ast.FormattedValue) and v.conversion == -1 and v.format_spec is None
                            for v in (a, b))):
                return self.expr(a.value), self.expr(b.value)
        bad('self.error message', node)

    def itarget(self, target, node):
        if isinstance(target, ast.Name):
            return 'TVar %s' % self.local(target.id, node)
        st = self.star_split(target, node)
        if st is not None:
            return 'TStar [%s] %s [%s]' % ('; '.join(st[0]), st[1], '; '.join(st[2]))
        if isinstance(target, (ast.Tuple, ast.List)) and all(isinstance(x, ast.Name) for x in target.elts):
            return 'TTuple [%s]' % '; '.join(self.local(x.id, node) for x in target.elts)
        bad('assignment target', node)

    def iassign(self, target, value, s):
        if isinstance(value, ast.Dict) and not value.keys and isinstance(target, ast.Name):
            return 'INewDict %s' % self.local(target.id, s)
        if isinstance(target, ast.Subscript):
            if not isinstance(target.value, ast.Name) or isinstance(target.slice, ast.Slice):
                bad('subscript store', s)
            return 'IDictStore %s (%s) (%s)' % (self.local(target.value.id, s), self.expr(target.slice), self.expr(value))
        if isinstance(value, ast.Call) and isinstance(value.func, ast.Name) and value.func.id == LINE_HELPER:
            if value.keywords or any(isinstance(a, ast.Starred) for a in value.args) or len(value.args) != 1:
                bad('helper call arguments', s)
            return 'ICall (%s) code_parse_line [%s]' % (self.itarget(target, s), self.expr(value.args[0]))
        return None

    def istmt(self, s):
        if isinstance(s, ast.For) and not (isinstance(s.iter, ast.Call) and isinstance(s.iter.func, ast.Name)
                                           and s.iter.func.id == 'range'):
            if not isinstance(s.target, ast.Name) or s.orelse:
                bad('for loop target / else clause', s)
            it = self.expr(s.iter)
            return 'IForEach %s (%s) (%s)' % (self.local(s.target.id, s), it, self.iblock(s.body))
        if isinstance(s, ast.Try):
            if s.finalbody or len(s.handlers) != 1:
                bad('try with finally / not exactly one handler', s)
            h = s.handlers[0]
            if h.type is None or h.name is not None:
                bad('bare except / except ... as name', h)
            return 'ITry (%s) [%s] (%s) (%s)' % (self.iblock(s.body), '; '.join(self.exn_classes(h.type)),
                                                 self.iblock(h.body), self.iblock(s.orelse))
        if isinstance(s, ast.If):
            return 'IIf (%s) (%s) (%s)' % (self.expr(s.test), self.iblock(s.body), self.iblock(s.orelse))
        if isinstance(s, ast.Expr) and isinstance(s.value, ast.Call):
            f = s.value.func
            if isinstance(f, ast.Attribute) and f.attr == 'error' and isinstance(f.value, ast.Name) and f.value.id == 'self':
                return 'IErrorLine (%s) (%s)' % self.error_report(s.value, s)
            bad('expression statement', s)
        if isinstance(s, ast.Assign) and len(s.targets) == 1:
            r = self.iassign(s.targets[0], s.value, s)
            if r is not None:
                return r
        if isinstance(s, ast.AnnAssign) and s.value is not None:
            r = self.iassign(s.target, s.value, s)
            if r is not None:
                return r
        t = self.stmt(s)
        return None if t is None else 'ILocal (%s)' % t

    def emit(self, name):
        body = self.iblock(strip_doc(self.fn.body))
        if self.callees:
            bad('inlined helper call inside %s' % self.fn.name, self.fn)
        lines = ['(* locals of %s *)' % self.fn.name]
        for py, i in self.vars.items():
            lines.append('Definition v_%s_%s : var := %d%%nat.' % (self.tag, py, i))
        lines.append('Definition %s : inv_code :=' % name)
        lines.append('  {| i_locals := %d%%nat; i_params := [%s]; i_body :=' % (
            len(self.vars), '; '.join('v_%s_%s' % (self.tag, p) for p in self.params)))
        lines.append(textwrap.fill(body, 112, initial_indent='  ', subsequent_indent='  ', break_long_words=False) + ' |}.')
        lines.append('')
        return lines


def generate() -> dict:
    from pydoctor import sphinx
    src = Path(inspect.getsourcefile(sphinx)).read_text()
    tree = ast.parse(src)
    fns = [n for n in tree.body if isinstance(n, ast.FunctionDef) and n.name == '_parseInventoryLine']
    if len(fns) != 1:
        bad('_parseInventoryLine not found exactly once at module level')
    cls = [n for n in tree.body if isinstance(n, ast.ClassDef) and n.name == 'SphinxInventory']
    if len(cls) != 1:
        bad('class SphinxInventory not found exactly once')
    gl = [n for n in cls[0].body if isinstance(n, ast.FunctionDef) and n.name == 'getLink']
    if len(gl) != 1:
        bad('SphinxInventory.getLink not found exactly once')
    pi = [n for n in cls[0].body if isinstance(n, ast.FunctionDef) and n.name == '_parseInventory']
    if len(pi) != 1:
        bad('SphinxInventory._parseInventory not found exactly once')
    if fns[0].decorator_list or gl[0].decorator_list or pi[0].decorator_list:
        bad('decorated function')
    module_funcs = {n.name: n for n in tree.body if isinstance(n, ast.FunctionDef)}
    p = Function(fns[0], 'parse', skip_self=False, module_funcs=module_funcs)
    g = Function(gl[0], 'getlink', skip_self=True, module_funcs=module_funcs)
    if len(p.params) != 1 or len(g.params) != 1:
        bad('parameters of _parseInventoryLine(line) / getLink(self, name)')
    lines = ['From Coq Require Import ZArith NArith List.', 'Import ListNotations.',
             'From PydoctorVerif Require Import Base.Sexp Model.Inventory Model.InventoryIR.', '']
    lines += p.emit('code_parse_line')
    lines += g.emit('code_get_link')
    inv = InvFunction(pi[0], 'inv', skip_self=True, module_funcs=module_funcs)
    if len(inv.params) != 2:
        bad('parameters of _parseInventory(self, base_url, payload)')
    lines += inv.emit('code_parse_inventory')
    return {'InventoryCode.v': '\n'.join(lines) + '\n'}


if __name__ == '__main__':
    print(generate()['InventoryCode.v'])
