"""Translator A for C13 (second part): the BODY of pydoctor/model.py : System.privacyClass -- cache lookup, kind test,
default rule, the rule-precedence loops, cache store -- translated statement by statement into the language of
Model/PrivacyIR.v.  When privacyClass delegates to a module-level helper of pydoctor/qnmatch.py (x = qnmatch.f(args)),
the helper's body is translated too and embedded at the call.  Proofs/PrivacyIRProofs.v proves, for every rule list, cache
and object, that the interpretation of THIS output is Model/Privacy.v : system_privacyClass.

Fail-closed: anything outside the recognised shapes aborts the generation with `unrecognised shape`.
Purely syntactic desugarings: x: T = e -> x = e; elif -> nested if; a != b -> not (a == b); keyword arguments of a helper
call are put in the helper's parameter order; PrivacyClass.VISIBLE is the alias of PUBLIC (checked on the Enum).
"""
import ast, inspect, textwrap
from pathlib import Path


class Bad(ValueError):
    pass


def bad(what, node=None):
    raise Bad('unrecognised shape: %s%s' % (what, (' at line %d: %s' % (node.lineno, ast.unparse(node)[:90])) if node is not None and hasattr(node, 'lineno') else ''))


def strip_doc(body):
    if body and isinstance(body[0], ast.Expr) and isinstance(body[0].value, ast.Constant) and isinstance(body[0].value.value, str):
        return body[1:]
    return body


def coq_text(s):
    return '(tx [%s])' % '; '.join(str(ord(c)) for c in s)


LEVELS = {'HIDDEN': 'HIDDEN', 'PRIVATE': 'PRIVATE', 'PUBLIC': 'PUBLIC', 'VISIBLE': 'PUBLIC'}


class Ctx:
    """what the free names of a function body mean"""
    def __init__(self, kind, qn_tree, qn_alias):
        self.kind = kind            # 'method' (self, ob) in model.py | 'function' in qnmatch.py
        self.qn_tree = qn_tree      # ast of pydoctor/qnmatch.py
        self.qn_alias = qn_alias    # name of the module pydoctor.qnmatch inside model.py


class PFn:
    def __init__(self, fn, ctx, depth=0):
        self.fn, self.ctx, self.depth = fn, ctx, depth
        self.vars = {}
        a = fn.args
        if a.vararg or a.kwarg or a.kwonlyargs or a.posonlyargs:
            bad('parameter list of %s' % fn.name, fn)
        names = [x.arg for x in a.args]
        if ctx.kind == 'method':
            if names != ['self', 'ob'] or a.defaults:
                bad('parameters of %s are not (self, ob)' % fn.name, fn)
            self.params = []
        else:
            if a.defaults:
                bad('default values in the parameters of %s' % fn.name, fn)
            self.params = names
            for n in names:
                self.var(n)

    def var(self, name):
        if name not in self.vars:
            self.vars[name] = len(self.vars)
        return self.vars[name]

    def is_name(self, e, n):
        return isinstance(e, ast.Name) and e.id == n and n not in self.vars

    def strconst(self, e):
        return isinstance(e, ast.Constant) and isinstance(e.value, str)

    def attr_chain(self, e):
        out = []
        while isinstance(e, ast.Attribute):
            out.append(e.attr)
            e = e.value
        if isinstance(e, ast.Name):
            out.append(e.id)
            return list(reversed(out))
        return None

    def is_qnmatch_call(self, e):
        """qnmatch.qnmatch(a, b) in model.py / qnmatch(a, b) in qnmatch.py"""
        if not (isinstance(e, ast.Call) and not e.keywords and len(e.args) == 2):
            return False
        if self.ctx.kind == 'method':
            return self.attr_chain(e.func) == [self.ctx.qn_alias, 'qnmatch'] and self.ctx.qn_alias not in self.vars
        return self.is_name(e.func, 'qnmatch')

    def helper_call(self, e):
        """a call to a module-level function of pydoctor/qnmatch.py other than qnmatch itself -> its FunctionDef"""
        if not isinstance(e, ast.Call):
            return None
        if self.ctx.kind == 'method':
            ch = self.attr_chain(e.func)
            if not (ch and len(ch) == 2 and ch[0] == self.ctx.qn_alias and ch[0] not in self.vars):
                return None
            name = ch[1]
        else:
            if not (isinstance(e.func, ast.Name) and e.func.id not in self.vars):
                return None
            name = e.func.id
        if name in ('qnmatch', 'translate', '_compile_pattern', 'reversed', 'len'):
            return None
        fs = [n for n in self.ctx.qn_tree.body if isinstance(n, ast.FunctionDef) and n.name == name]
        return fs[0] if len(fs) == 1 else None

    def expr(self, e):
        E = self.expr
        if isinstance(e, ast.Constant):
            if e.value is True:
                return '(XBool true)'
            if e.value is False:
                return '(XBool false)'
            if e.value is None:
                return 'XNone'
            bad('constant', e)
        if isinstance(e, ast.Name):
            if e.id not in self.vars:
                bad('name %r is not a local bound before' % e.id, e)
            return '(XVar %d)' % self.vars[e.id]
        if isinstance(e, ast.Attribute):
            ch = self.attr_chain(e)
            if ch and len(ch) == 2 and ch[0] == 'PrivacyClass' and ch[0] not in self.vars and ch[1] in LEVELS:
                return '(XLevel %s)' % LEVELS[ch[1]]
            if self.ctx.kind == 'method' and 'ob' not in self.vars and 'self' not in self.vars:
                if ch == ['ob', 'name']:
                    return 'XName'
                if ch == ['ob', 'kind']:
                    return 'XKind'
                if ch == ['self', 'options', 'privacy']:
                    return 'XRules'
            bad('attribute', e)
        if isinstance(e, ast.UnaryOp) and isinstance(e.op, ast.Not):
            return '(XNot %s)' % E(e.operand)
        if isinstance(e, ast.IfExp):
            return '(XIf %s %s %s)' % (E(e.test), E(e.body), E(e.orelse))
        if isinstance(e, ast.BoolOp):
            op = 'XAnd' if isinstance(e.op, ast.And) else 'XOr'
            r = E(e.values[-1])
            for v in reversed(e.values[:-1]):
                r = '(%s %s %s)' % (op, E(v), r)
            return r
        if isinstance(e, ast.Compare):
            if len(e.ops) != 1:
                bad('chained comparison', e)
            op, rhs = e.ops[0], e.comparators[0]
            none = isinstance(rhs, ast.Constant) and rhs.value is None
            if isinstance(op, ast.Is) and none:
                return '(XIsNone %s)' % E(e.left)
            if isinstance(op, ast.IsNot) and none:
                return '(XIsNotNone %s)' % E(e.left)
            if isinstance(op, ast.Eq):
                return '(XEq %s %s)' % (E(e.left), E(rhs))
            if isinstance(op, ast.NotEq):
                return '(XNot (XEq %s %s))' % (E(e.left), E(rhs))
            bad('comparison', e)
        if isinstance(e, ast.Call):
            if self.is_qnmatch_call(e):
                return '(XQnMatch %s %s)' % (E(e.args[0]), E(e.args[1]))
            f = e.func
            if isinstance(f, ast.Attribute) and not e.keywords:
                ch = self.attr_chain(f)
                if self.ctx.kind == 'method' and 'ob' not in self.vars and 'self' not in self.vars:
                    if ch == ['ob', 'fullName'] and not e.args:
                        return 'XFullName'
                    if ch == ['self', '_privacyClassCache', 'get'] and len(e.args) == 1:
                        return '(XCacheGet %s)' % E(e.args[0])
                if f.attr in ('startswith', 'endswith') and len(e.args) == 1 and self.strconst(e.args[0]):
                    return '(%s %s %s)' % ('XStartsWith' if f.attr == 'startswith' else 'XEndsWith', E(f.value), coq_text(e.args[0].value))
            bad('call', e)
        bad('expression %s' % type(e).__name__, e)

    def seq(self, items):
        items = [i for i in items if i is not None]
        if not items:
            return 'PSkip'
        r = items[-1]
        for o in reversed(items[:-1]):
            r = '(PSeq %s %s)' % (o, r)
        return r

    def block(self, stmts):
        return self.seq([self.stmt(s) for s in stmts])

    def assign(self, target, value, node):
        if isinstance(target, ast.Subscript):
            if self.ctx.kind == 'method' and self.attr_chain(target.value) == ['self', '_privacyClassCache'] \
                    and 'self' not in self.vars and not isinstance(target.slice, (ast.Slice, ast.Tuple)):
                return '(PCacheSet %s %s)' % (self.expr(target.slice), self.expr(value))
            bad('subscript assignment', node)
        if not isinstance(target, ast.Name) or target.id in ('self', 'ob', 'PrivacyClass', 'qnmatch', 'reversed', self.ctx.qn_alias):
            bad('assignment target', node)
        h = self.helper_call(value)
        if h is not None:
            if self.depth >= 2:
                bad('helper calls nested too deep', node)
            callee = PFn(h, Ctx('function', self.ctx.qn_tree, self.ctx.qn_alias), self.depth + 1)
            if h.decorator_list:
                bad('helper %s is decorated' % h.name, h)
            actual = {}
            if len(value.args) > len(callee.params):
                bad('too many arguments for %s' % h.name, node)
            for p, a in zip(callee.params, value.args):
                actual[p] = a
            for kw in value.keywords:
                if kw.arg is None or kw.arg not in callee.params or kw.arg in actual:
                    bad('keyword argument of %s' % h.name, node)
                actual[kw.arg] = kw.value
            if set(actual) != set(callee.params):
                bad('missing argument for %s' % h.name, node)
            args = [self.expr(actual[p]) for p in callee.params]           # evaluated in the caller
            body = callee.block(strip_doc(h.body))
            return '(PAssignCall %d [%s] %s [%s])' % (self.var(target.id), '; '.join(str(callee.vars[p]) for p in callee.params),
                                                     body, '; '.join(args))
        v = self.expr(value)
        return '(PAssign %d %s)' % (self.var(target.id), v)

    def stmt(self, s):
        if isinstance(s, ast.Pass):
            return None
        if isinstance(s, ast.Assign):
            if len(s.targets) != 1:
                bad('chained assignment', s)
            return self.assign(s.targets[0], s.value, s)
        if isinstance(s, ast.AnnAssign):
            if s.value is None:
                return None
            return self.assign(s.target, s.value, s)
        if isinstance(s, ast.If):
            return '(PIf %s %s %s)' % (self.expr(s.test), self.block(s.body), self.block(s.orelse))
        if isinstance(s, ast.For):
            t = s.target
            if not (isinstance(t, ast.Tuple) and len(t.elts) == 2 and all(isinstance(x, ast.Name) for x in t.elts)
                    and t.elts[0].id != t.elts[1].id):
                bad('for target', s)
            it = s.iter
            if not (isinstance(it, ast.Call) and self.is_name(it.func, 'reversed') and len(it.args) == 1 and not it.keywords):
                bad('for iterable is not reversed(...)', s)
            rules = self.expr(it.args[0])
            x1, x2 = self.var(t.elts[0].id), self.var(t.elts[1].id)
            return '(PForRev %d %d %s %s %s)' % (x1, x2, rules, self.block(s.body), self.block(s.orelse))
        if isinstance(s, ast.Break):
            return 'PBreak'
        if isinstance(s, ast.Return):
            if s.value is None:
                bad('return without a value', s)
            return '(PReturn %s)' % self.expr(s.value)
        bad('statement %s' % type(s).__name__, s)


def generate() -> dict:
    from pydoctor import model, qnmatch
    mtree = ast.parse(Path(inspect.getsourcefile(model)).read_text())
    qtree = ast.parse(Path(inspect.getsourcefile(qnmatch)).read_text())
    # the name of pydoctor.qnmatch inside model.py
    alias = None
    for n in mtree.body:
        if isinstance(n, ast.ImportFrom) and n.module == 'pydoctor' and n.level == 0:
            for a in n.names:
                if a.name == 'qnmatch':
                    alias = a.asname or 'qnmatch'
    if alias is None:
        bad('model.py does not import pydoctor.qnmatch with `from pydoctor import qnmatch`')
    # PrivacyClass members the model relies on
    P = model.PrivacyClass
    if [m.name for m in P] != ['HIDDEN', 'PRIVATE', 'PUBLIC'] or P.VISIBLE is not P.PUBLIC:
        bad('PrivacyClass members changed: %s' % [m.name for m in P])
    S = [n for n in mtree.body if isinstance(n, ast.ClassDef) and n.name == 'System']
    if len(S) != 1:
        bad('class System not found exactly once')
    fs = [n for n in S[0].body if isinstance(n, ast.FunctionDef) and n.name == 'privacyClass']
    if len(fs) != 1 or fs[0].decorator_list:
        bad('System.privacyClass not found exactly once (undecorated)')
    F = PFn(fs[0], Ctx('method', qtree, alias))
    body = F.block(strip_doc(fs[0].body))
    text = 'Definition privacy_code : pstmt :=\n%s.' % textwrap.fill(body, 116, initial_indent='  ', subsequent_indent='  ',
                                                                      break_long_words=False, break_on_hyphens=False)
    lines = ['From Coq Require Import NArith List.', 'Import ListNotations.',
             'From PydoctorVerif Require Import Base.Sexp Spec.PrivacySpec Model.PrivacyIR.', 'Local Open Scope N_scope.',
             'Local Notation tx := (fun l : list N => l).', '',
             '(* locals of System.privacyClass: %s *)' % ', '.join('%d = %s' % (i, n) for n, i in F.vars.items()), text]
    return {'PrivacyCode.v': '\n'.join(lines) + '\n'}


if __name__ == '__main__':
    print(generate()['PrivacyCode.v'])
