"""Translator A for C11 / C12 (second part): the BODIES of
    pydoctor/model.py  Documentable.fullName / privacyClass / isVisible / isPrivate / page_object / url, Module.privacyClass
    pydoctor/linker.py taglink
translated statement by statement into the deep-embedded language of Model/SiteIR.v.  Proofs/SiteIRProofs.v proves, for
every registry, that interpreting THIS output is Model/Site.v (fullname, priv_of, visible, is_private, page_obj, url,
taglink): an edit of the Python source that changes the meaning changes Gen/SiteCode.v and breaks a `C11_code_*_is_model`
/ `C12_code_*_is_model` obligation; an edit that keeps the meaning still translates and still proves (the proofs are
symbolic executions of whatever term is generated).

Normalisations (the meaning is kept, the spelling is not): annotated assignments; elif chains; conditional expressions
(ECond); f-strings, `+` and `%`-format on str (EConcat); len / int + / slices with int bounds (ELen, EAddI, ESlice);
a module-level PURE helper of linker.py whose body is assignments to locals and an if / return tree is INLINED as one
expression; an attribute dict `{'href': u, 'class_': 'internal-link'}` with `d['title'] = t` and `tags.a(label, **d)` is
rendered as the tag under construction (ETagA / ETagTitle / ETagLabel); `for x in self.<generator method>()` where the
generator method, RUN on the fixture objects of gen_listings.py, yields the object and its containers up to the root is
SFor over EChain.

Fail-closed: a statement, expression, attribute, call or decorator outside the recognised shapes aborts the generation
with `unrecognised shape`.  Checked on the LIVE classes (not translated): no class other than Documentable (and Module,
for privacyClass) defines one of the translated members; documentation_location is OWN_PAGE for Module / Package /
Class and PARENT_PAGE for Function / Attribute and all their subclasses."""
from __future__ import annotations
import ast, importlib, inspect, os, pkgutil
from pathlib import Path
from typing import Any, Dict, List, Optional

REPO = Path(os.environ.get('PYTHONPATH', '/repo').split(':')[0])


class Bad(ValueError):
    pass


def bad(what: str, node: Optional[ast.AST] = None) -> Bad:
    return Bad('unrecognised shape: %s%s' % (what, (' at line %s: %s' % (getattr(node, 'lineno', '?'), ast.unparse(node)[:90])) if node is not None else ''))


def coq_text(s: str) -> str:
    return '[' + '; '.join(str(ord(c)) for c in s) + ']%N'


PROPS = {'privacyClass': 'FPrivacy', 'isVisible': 'FIsVisible', 'isPrivate': 'FIsPrivate', 'page_object': 'FPageObject',
         'url': 'FUrl'}
PRIV = {'PUBLIC': 'PUBLIC', 'PRIVATE': 'PRIVATE', 'HIDDEN': 'HIDDEN'}
LOC = {'OWN_PAGE': 'true', 'PARENT_PAGE': 'false'}


def strip_doc(body: List[ast.stmt]) -> List[ast.stmt]:
    if body and isinstance(body[0], ast.Expr) and isinstance(body[0].value, ast.Constant) and isinstance(body[0].value.value, str):
        return body[1:]
    return body


class Body:
    def __init__(self, fn: ast.FunctionDef, receiver: str, params: List[str], in_module_cls: bool):
        self.fn, self.receiver, self.in_module_cls = fn, receiver, in_module_cls
        self.vars: Dict[str, int] = {}
        self.bound = set()
        self.int_vars = set()          # locals known to hold an int (len(...), i + 1)
        self.tagdicts = set()          # locals holding the attribute dict of an <a> tag under construction
        self.helpers: Dict[str, ast.FunctionDef] = {}     # module-level pure helpers that may be inlined
        self.chain_methods = set()     # generator methods found (on fixtures) to yield the ancestor-or-self chain
        for p in params:
            self.vars[p] = len(self.vars)
            self.bound.add(p)

    def var(self, name: str) -> int:
        if name not in self.vars:
            self.vars[name] = len(self.vars)
        return self.vars[name]

    def is_recv(self, e: ast.expr) -> bool:
        return isinstance(e, ast.Name) and e.id == self.receiver

    # ------------------------------------------------------------------ expressions
    def is_int(self, e: ast.expr) -> bool:
        if isinstance(e, ast.Constant) and isinstance(e.value, int) and not isinstance(e.value, bool):
            return True
        if isinstance(e, ast.Name) and e.id in self.int_vars:
            return True
        if isinstance(e, ast.Call) and isinstance(e.func, ast.Name) and e.func.id == 'len':
            return True
        if isinstance(e, ast.BinOp) and isinstance(e.op, ast.Add):
            return self.is_int(e.left) or self.is_int(e.right)
        return False

    def expr(self, e: ast.expr) -> str:
        if isinstance(e, ast.Constant) and isinstance(e.value, int) and not isinstance(e.value, bool):
            if e.value < 0 or e.value > 64:
                raise bad('integer constant', e)
            return 'EConst (VInt %d)' % e.value
        if isinstance(e, ast.IfExp):
            return 'ECond (%s) (%s) (%s)' % (self.expr(e.test), self.expr(e.body), self.expr(e.orelse))
        if isinstance(e, ast.Call) and isinstance(e.func, ast.Name) and e.func.id == 'len' and len(e.args) == 1 and not e.keywords:
            return 'ELen (%s)' % self.expr(e.args[0])
        if isinstance(e, ast.BinOp) and isinstance(e.op, ast.Add) and self.is_int(e):
            return 'EAddI (%s) (%s)' % (self.expr(e.left), self.expr(e.right))
        if isinstance(e, ast.Subscript) and isinstance(e.slice, ast.Slice) and e.slice.step is None:
            lo = 'Some (%s)' % self.expr(e.slice.lower) if e.slice.lower is not None else 'None'
            hi = 'Some (%s)' % self.expr(e.slice.upper) if e.slice.upper is not None else 'None'
            for b in (e.slice.lower, e.slice.upper):
                if b is not None and not self.is_int(b):
                    raise bad('slice bound that is not known to be a non-negative int', e)
            return 'ESlice (%s) (%s) (%s)' % (self.expr(e.value), lo, hi)
        if isinstance(e, ast.Call) and isinstance(e.func, ast.Name) and e.func.id in self.helpers and not e.keywords:
            return self.expr(inline_helper(self.helpers[e.func.id], list(e.args)))
        if isinstance(e, ast.Call) and isinstance(e.func, ast.Attribute) and isinstance(e.func.value, ast.Name) \
                and e.func.value.id == 'tags' and e.func.attr == 'a' and len(e.args) == 1 and len(e.keywords) == 1 \
                and e.keywords[0].arg is None and isinstance(e.keywords[0].value, ast.Name) and e.keywords[0].value.id in self.tagdicts:
            d = e.keywords[0].value.id
            return 'ETagLabel (EVar %d) (%s)' % (self.var(d), self.expr(e.args[0]))
        if isinstance(e, ast.Call) and isinstance(e.func, ast.Attribute) and e.func.attr in self.chain_methods and not e.args and not e.keywords:
            return 'EChain (%s)' % self.expr(e.func.value)
        if isinstance(e, ast.Constant):
            if e.value is None:
                return 'EConst VNone'
            if e.value is True or e.value is False:
                return 'EConst (VBool %s)' % ('true' if e.value else 'false')
            if isinstance(e.value, str):
                return 'EConst (VStr %s)' % coq_text(e.value)
            raise bad('constant', e)
        if isinstance(e, ast.Name):
            if e.id == self.receiver:
                return 'ESelf'
            if e.id not in self.bound:
                raise bad('name %r is read before it is bound (or is a global that is not understood)' % e.id, e)
            return 'EVar %d' % self.var(e.id)
        if isinstance(e, ast.Attribute):
            if isinstance(e.value, ast.Name) and e.value.id == 'PrivacyClass' and e.attr in PRIV:
                return 'EConst (VPriv %s)' % PRIV[e.attr]
            if (isinstance(e.value, ast.Name) and e.value.id == 'DocLocation') or \
                    (isinstance(e.value, ast.Attribute) and e.value.attr == 'DocLocation'):
                if e.attr in LOC:
                    return 'EConst (VLoc %s)' % LOC[e.attr]
            if isinstance(e.value, ast.Attribute) and e.value.attr == 'PrivacyClass' and e.attr in PRIV:
                return 'EConst (VPriv %s)' % PRIV[e.attr]
            if isinstance(e.value, ast.Call) and isinstance(e.value.func, ast.Name) and e.value.func.id == 'super' \
                    and not e.value.args and e.attr == 'privacyClass':
                if not self.in_module_cls:
                    raise bad('super() outside Module.privacyClass', e)
                return 'ESuperPrivacy'
            if e.attr == 'root_names' and isinstance(e.value, ast.Attribute) and e.value.attr == 'system':
                self.expr(e.value.value)
                return 'ERootNames'
            if e.attr == 'name':
                return 'EName (%s)' % self.expr(e.value)
            if e.attr == 'parent':
                return 'EParentOf (%s)' % self.expr(e.value)
            if e.attr == 'documentation_location':
                return 'EDocLoc (%s)' % self.expr(e.value)
            if e.attr in PROPS:
                return 'ECall %s (%s)' % (PROPS[e.attr], self.expr(e.value))
            raise bad('attribute .%s' % e.attr, e)
        if isinstance(e, ast.Call):
            f = e.func
            if e.keywords and not (isinstance(f, ast.Attribute) and f.attr == 'a'):
                raise bad('keyword arguments', e)
            if isinstance(f, ast.Attribute) and f.attr == 'fullName' and not e.args:
                return 'ECall FFullName (%s)' % self.expr(f.value)
            if isinstance(f, ast.Attribute) and f.attr == 'privacyClass' and isinstance(f.value, ast.Attribute) \
                    and f.value.attr == 'system' and len(e.args) == 1 \
                    and ast.unparse(f.value.value) == ast.unparse(e.args[0]):
                return 'ESysPrivacy (%s)' % self.expr(e.args[0])
            if isinstance(f, ast.Name) and f.id == 'list' and len(e.args) == 1:
                return 'EListOf (%s)' % self.expr(e.args[0])
            if isinstance(f, ast.Name) and f.id == 'quote' and len(e.args) == 1:
                return 'EQuote (%s)' % self.expr(e.args[0])
            if isinstance(f, ast.Name) and f.id == 'bool' and len(e.args) == 1:
                return 'ENot (ENot (%s))' % self.expr(e.args[0])
            if isinstance(f, ast.Attribute) and f.attr == 'startswith' and len(e.args) == 1:
                return 'EStartsWith (%s) (%s)' % (self.expr(f.value), self.expr(e.args[0]))
            if isinstance(f, ast.Attribute) and isinstance(f.value, ast.Name) and f.value.id == 'tags':
                if f.attr == 'a' and len(e.args) == 1:
                    kw = {k.arg: k.value for k in e.keywords}
                    if set(kw) != {'href', 'class_'} or not (isinstance(kw['class_'], ast.Constant) and kw['class_'].value == 'internal-link'):
                        raise bad("tags.a(...) without href= and class_='internal-link'", e)
                    return 'ETagA (%s) (%s)' % (self.expr(e.args[0]), self.expr(kw['href']))
                if f.attr == 'transparent' and len(e.args) == 1 and not e.keywords:
                    return 'ETagPlain (%s)' % self.expr(e.args[0])
            raise bad('call', e)
        if isinstance(e, ast.JoinedStr):
            parts = []
            for v in e.values:
                if isinstance(v, ast.Constant) and isinstance(v.value, str):
                    parts.append('EConst (VStr %s)' % coq_text(v.value))
                elif isinstance(v, ast.FormattedValue) and v.conversion == -1 and v.format_spec is None:
                    parts.append(self.expr(v.value))
                else:
                    raise bad('f-string part', e)
            return 'EConcat [%s]' % '; '.join(parts)
        if isinstance(e, ast.BinOp) and isinstance(e.op, ast.Add):
            def flat(x: ast.expr) -> List[str]:
                if isinstance(x, ast.BinOp) and isinstance(x.op, ast.Add):
                    return flat(x.left) + flat(x.right)
                return [self.expr(x)]
            return 'EConcat [%s]' % '; '.join(flat(e))
        if isinstance(e, ast.BinOp) and isinstance(e.op, ast.Mod) and isinstance(e.left, ast.Constant) and isinstance(e.left.value, str):
            # '%s.html' % x  /  '%s#%s' % (a, b)
            fmt = e.left.value
            args = list(e.right.elts) if isinstance(e.right, ast.Tuple) else [e.right]
            pieces = fmt.split('%s')
            if len(pieces) != len(args) + 1 or '%' in ''.join(pieces):
                raise bad('%-format', e)
            parts = []
            for i, pc in enumerate(pieces):
                if pc:
                    parts.append('EConst (VStr %s)' % coq_text(pc))
                if i < len(args):
                    parts.append(self.expr(args[i]))
            return 'EConcat [%s]' % '; '.join(parts)
        if isinstance(e, ast.List):
            return 'EListLit [%s]' % '; '.join(self.expr(x) for x in e.elts)
        if isinstance(e, ast.Compare) and len(e.ops) == 1:
            a, b = self.expr(e.left), self.expr(e.comparators[0])
            op = e.ops[0]
            for cls_, con in ((ast.Is, 'EIs'), (ast.IsNot, 'EIsNot'), (ast.Eq, 'EEq'), (ast.NotEq, 'ENe')):
                if isinstance(op, cls_):
                    return '%s (%s) (%s)' % (con, a, b)
            raise bad('comparison operator', e)
        if isinstance(e, ast.UnaryOp) and isinstance(e.op, ast.Not):
            return 'ENot (%s)' % self.expr(e.operand)
        if isinstance(e, ast.BoolOp):
            con = 'EAnd' if isinstance(e.op, ast.And) else 'EOr'
            parts = [self.expr(v) for v in e.values]
            r = parts[-1]
            for p in reversed(parts[:-1]):
                r = '%s (%s) (%s)' % (con, p, r)
            return r
        raise bad('expression %s' % type(e).__name__, e)

    # ------------------------------------------------------------------ statements
    def block(self, stmts: List[ast.stmt]) -> str:
        out = [x for x in (self.stmt(s) for s in stmts) if x is not None]
        if not out:
            return 'SSkip'
        r = out[-1]
        for o in reversed(out[:-1]):
            r = 'SSeq (%s) (%s)' % (o, r)
        return r

    def stmt(self, s: ast.stmt) -> Optional[str]:
        if isinstance(s, ast.Pass):
            return None
        if isinstance(s, ast.Expr) and isinstance(s.value, ast.Constant) and isinstance(s.value.value, str):
            return None
        if isinstance(s, ast.AnnAssign) and s.value is not None and isinstance(s.target, ast.Name):
            s = ast.copy_location(ast.Assign(targets=[s.target], value=s.value), s)
        if isinstance(s, ast.Assign) and len(s.targets) == 1 and isinstance(s.targets[0], ast.Subscript) \
                and isinstance(s.targets[0].value, ast.Name) and s.targets[0].value.id in self.tagdicts \
                and isinstance(s.targets[0].slice, ast.Constant) and s.targets[0].slice.value == 'title':
            d = s.targets[0].value.id
            return 'SAssign %d (ETagTitle (EVar %d) (%s))' % (self.var(d), self.var(d), self.expr(s.value))
        if isinstance(s, ast.Assign) and len(s.targets) == 1 and isinstance(s.targets[0], ast.Name) and isinstance(s.value, ast.Dict):
            keys = [k.value if isinstance(k, ast.Constant) else None for k in s.value.keys]
            kv = dict(zip(keys, s.value.values))
            if set(keys) != {'href', 'class_'} or not (isinstance(kv['class_'], ast.Constant) and kv['class_'].value == 'internal-link'):
                raise bad("dict literal that is not {'href': ..., 'class_': 'internal-link'}", s)
            name = s.targets[0].id
            v = self.expr(kv['href'])
            self.bound.add(name)
            self.tagdicts.add(name)
            return 'SAssign %d (ETagA (EConst VNone) (%s))' % (self.var(name), v)
        if isinstance(s, ast.For):
            if s.orelse or not isinstance(s.target, ast.Name):
                raise bad('for loop', s)
            it = self.expr(s.iter)
            if not it.startswith('EChain'):
                raise bad('for loop over something other than an ancestor chain', s)
            before = set(self.bound)
            self.bound.add(s.target.id)
            body = self.block(s.body)
            self.bound = before | {s.target.id}
            return 'SFor %d (%s) (%s)' % (self.var(s.target.id), it, body)
        if isinstance(s, ast.Assign):
            if len(s.targets) != 1 or not isinstance(s.targets[0], ast.Name):
                raise bad('assignment target', s)
            name = s.targets[0].id
            if self.is_int(s.value):
                self.int_vars.add(name)
            else:
                self.int_vars.discard(name)
            if name == self.receiver:
                raise bad('assignment to the receiver', s)
            v = self.expr(s.value)
            self.bound.add(name)
            return 'SAssign %d (%s)' % (self.var(name), v)
        if isinstance(s, ast.Return):
            return 'SReturn (%s)' % (self.expr(s.value) if s.value is not None else 'EConst VNone')
        if isinstance(s, ast.Assert):
            return 'SAssert (%s)' % self.expr(s.test)
        if isinstance(s, ast.If):
            c = self.expr(s.test)
            before = set(self.bound)
            th = self.block(s.body)
            b1 = self.bound
            self.bound = set(before)
            el = self.block(s.orelse)
            # a branch that always returns / fails binds nothing for what follows
            def ends(stmts: List[ast.stmt]) -> bool:
                return bool(stmts) and (isinstance(stmts[-1], (ast.Return, ast.Raise)) or
                                        (isinstance(stmts[-1], ast.Assert) and isinstance(stmts[-1].test, ast.Constant) and stmts[-1].test.value is False) or
                                        (isinstance(stmts[-1], ast.If) and stmts[-1].orelse and ends(stmts[-1].body) and ends(stmts[-1].orelse)))
            if ends(s.body) and not ends(s.orelse):
                pass                       # self.bound = bound after the else branch
            elif ends(s.orelse) and s.orelse and not ends(s.body):
                self.bound = b1
            else:
                self.bound = b1 & self.bound
            return 'SIf (%s) (%s) (%s)' % (c, th, el)
        if isinstance(s, ast.Expr) and isinstance(s.value, ast.Call):
            c = s.value
            f = c.func
            if isinstance(f, ast.Attribute) and f.attr == 'msg' and isinstance(f.value, ast.Attribute) and f.value.attr == 'system':
                return 'SLog'
            if isinstance(f, ast.Name) and f.id in self.bound and not c.args and len(c.keywords) == 1 and c.keywords[0].arg == 'title':
                return 'SAssign %d (ETagTitle (EVar %d) (%s))' % (self.var(f.id), self.var(f.id), self.expr(c.keywords[0].value))
            raise bad('expression statement', s)
        raise bad('statement %s' % type(s).__name__, s)


def inline_helper(fn: ast.FunctionDef, args: List[ast.expr]) -> ast.expr:
    """A module-level PURE helper whose body is straight-line assignments to locals and an if / return tree is inlined
    as one expression: parameters and locals are substituted, `if c: return a` + rest becomes `a if c else <rest>`."""
    import copy
    params = [a.arg for a in fn.args.args]
    if fn.args.vararg or fn.args.kwarg or fn.args.kwonlyargs or fn.args.posonlyargs or fn.args.defaults or len(params) != len(args) or fn.decorator_list:
        raise bad('helper %s: parameter list' % fn.name, fn)

    class Sub(ast.NodeTransformer):
        def __init__(self, env: Dict[str, ast.expr]):
            self.env = env

        def visit_Name(self, n: ast.Name) -> Any:
            if isinstance(n.ctx, ast.Load) and n.id in self.env:
                return copy.deepcopy(self.env[n.id])
            return n

    def sub(e: ast.expr, env: Dict[str, ast.expr]) -> ast.expr:
        return ast.fix_missing_locations(Sub(env).visit(copy.deepcopy(e)))

    def returns(stmts: List[ast.stmt]) -> bool:
        return bool(stmts) and (isinstance(stmts[-1], ast.Return) or
                                (isinstance(stmts[-1], ast.If) and bool(stmts[-1].orelse) and returns(stmts[-1].body) and returns(stmts[-1].orelse)))

    def tree(stmts: List[ast.stmt], env: Dict[str, ast.expr]) -> ast.expr:
        if not stmts:
            raise bad('helper %s: a path without return' % fn.name, fn)
        s, rest = stmts[0], stmts[1:]
        if isinstance(s, ast.Expr) and isinstance(s.value, ast.Constant):
            return tree(rest, env)
        if isinstance(s, ast.Return) and s.value is not None:
            return sub(s.value, env)
        if isinstance(s, ast.AnnAssign) and isinstance(s.target, ast.Name) and s.value is not None:
            return tree(rest, dict(env, **{s.target.id: sub(s.value, env)}))
        if isinstance(s, ast.Assign) and len(s.targets) == 1 and isinstance(s.targets[0], ast.Name):
            return tree(rest, dict(env, **{s.targets[0].id: sub(s.value, env)}))
        if isinstance(s, ast.If):
            if returns(s.body):
                return ast.IfExp(test=sub(s.test, env), body=tree(list(s.body), env), orelse=tree(list(s.orelse) + rest, env))
            if s.orelse and returns(s.orelse):
                return ast.IfExp(test=sub(s.test, env), body=tree(list(s.body) + rest, env), orelse=tree(list(s.orelse), env))
        raise bad('helper %s: statement that is not an assignment to a local or an if / return tree' % fn.name, s)
    return ast.fix_missing_locations(tree(strip_doc(list(fn.body)), dict(zip(params, args))))


def chain_methods_of(mt: ast.Module) -> List[str]:
    """generator methods of Documentable (no parameters) that, RUN on the fixture objects, yield the object, its parent,
    the parent of that, ... up to the root"""
    cs = [n for n in mt.body if isinstance(n, ast.ClassDef) and n.name == 'Documentable']
    cands = [f.name for f in cs[0].body if isinstance(f, ast.FunctionDef) and len(f.args.args) == 1 and not f.decorator_list
             and any(isinstance(x, (ast.Yield, ast.YieldFrom)) for x in ast.walk(f))] if cs else []
    if not cands:
        return []
    import importlib.util
    spec = importlib.util.spec_from_file_location('gen_listings_fx', Path(__file__).resolve().parent / 'gen_listings.py')
    gl = importlib.util.module_from_spec(spec)
    spec.loader.exec_module(gl)       # type: ignore
    out = []
    for name in cands:
        ok = True
        for rules in gl.RULESETS[:2]:
            s = gl.build_system(rules, True)
            for o in s.allobjects.values():
                want = []
                x = o
                while x is not None:
                    want.append(x)
                    x = x.parent
                try:
                    got = list(getattr(o, name)())
                except Exception:
                    ok = False
                    break
                if len(got) != len(want) or any(a is not b for a, b in zip(got, want)):
                    ok = False
                    break
            if not ok:
                break
        if ok:
            out.append(name)
    return out


def find_method(tree: ast.Module, cls: str, name: str) -> ast.FunctionDef:
    cs = [n for n in tree.body if isinstance(n, ast.ClassDef) and n.name == cls]
    if len(cs) != 1:
        raise bad('class %s not found exactly once' % cls)
    fs = [n for n in cs[0].body if isinstance(n, ast.FunctionDef) and n.name == name]
    if len(fs) != 1:
        raise bad('%s.%s not found exactly once' % (cls, name))
    return fs[0]


def check_property(fn: ast.FunctionDef, want: bool) -> None:
    decs = [ast.unparse(d) for d in fn.decorator_list]
    if want and decs != ['property']:
        raise bad('%s must be a plain @property (decorators: %s)' % (fn.name, decs), fn)
    if not want and decs:
        raise bad('%s must not be decorated (decorators: %s)' % (fn.name, decs), fn)
    a = fn.args
    if a.vararg or a.kwarg or a.kwonlyargs or a.posonlyargs:
        raise bad('parameter list of %s' % fn.name, fn)


def live_checks() -> None:
    from pydoctor import model
    import pydoctor.extensions
    for m in pkgutil.iter_modules(pydoctor.extensions.__path__):
        try:
            importlib.import_module('pydoctor.extensions.' + m.name)
        except Exception:
            pass
    names = ['fullName', 'privacyClass', 'isVisible', 'isPrivate', 'page_object', 'url']

    def subs(c: type) -> List[type]:
        out = []
        for s in c.__subclasses__():
            out.append(s)
            out.extend(subs(s))
        return out
    for c in subs(model.Documentable):
        for n in names:
            if n in c.__dict__ and not (n == 'privacyClass' and c is model.Module):
                raise bad('%s.%s overrides a member that Model/SiteIR.v dispatches to Documentable' % (c.__qualname__, n))
        own = issubclass(c, (model.Module, model.Class))
        member = issubclass(c, (model.Function, model.Attribute))
        if own and c.documentation_location is not model.DocLocation.OWN_PAGE:
            raise bad('%s.documentation_location is not OWN_PAGE' % c.__qualname__)
        if member and c.documentation_location is not model.DocLocation.PARENT_PAGE:
            raise bad('%s.documentation_location is not PARENT_PAGE' % c.__qualname__)
        if not own and not member and c.__module__.startswith('pydoctor') and c not in (model.CanContainImportsDocumentable, model.Inheritable):
            raise bad('Documentable subclass %s is neither module/class nor function/attribute' % c.__qualname__)
    from pydoctor import epydoc2stan, linker
    if epydoc2stan.taglink is not linker.taglink:
        raise bad('epydoc2stan.taglink is not linker.taglink')


def generate() -> Dict[str, str]:
    live_checks()
    from pydoctor import model, linker
    mt = ast.parse(Path(inspect.getsourcefile(model)).read_text(encoding='utf-8'))
    lt = ast.parse(Path(inspect.getsourcefile(linker)).read_text(encoding='utf-8'))
    out = []
    table = []
    chains = chain_methods_of(mt)

    def method(cls: str, name: str, fname: str, prop: bool) -> None:
        fn = find_method(mt, cls, name)
        check_property(fn, prop)
        params = [a.arg for a in fn.args.args]
        if len(params) != 1:
            raise bad('%s.%s takes parameters' % (cls, name), fn)
        b = Body(fn, params[0], [], cls == 'Module')
        b.chain_methods = set(chains)
        code = b.block(strip_doc(fn.body))
        dn = 'code_%s_%s' % (cls, name)
        out.append('(* pydoctor/model.py %s.%s *)\nDefinition %s : istmt :=\n  %s.\n' % (cls, name, dn, code))
        table.append((fname, dn))
    method('Documentable', 'fullName', 'FFullName', False)
    method('Documentable', 'privacyClass', 'FPrivacy', True)
    method('Module', 'privacyClass', 'FModPrivacy', True)
    method('Documentable', 'isVisible', 'FIsVisible', True)
    method('Documentable', 'isPrivate', 'FIsPrivate', True)
    method('Documentable', 'page_object', 'FPageObject', True)
    method('Documentable', 'url', 'FUrl', True)
    fs = [n for n in lt.body if isinstance(n, ast.FunctionDef) and n.name == 'taglink']
    if len(fs) != 1:
        raise bad('linker.taglink not found exactly once')
    fn = fs[0]
    check_property(fn, False)
    params = [a.arg for a in fn.args.args]
    if len(params) != 3 or len(fn.args.defaults) != 1 or not (isinstance(fn.args.defaults[0], ast.Constant) and fn.args.defaults[0].value is None):
        raise bad('taglink(o, page_url, label=None) parameter list', fn)
    b = Body(fn, params[0], params[1:], False)
    b.helpers = {n.name: n for n in lt.body if isinstance(n, ast.FunctionDef) and n.name != 'taglink'}
    code = b.block(strip_doc(fn.body))
    out.append('(* pydoctor/linker.py taglink(%s): parameters %s = variable 0, %s = variable 1 *)\nDefinition code_taglink : istmt :=\n  %s.\n'
               % (', '.join(params), params[1], params[2], code))
    table.append(('FTaglink', 'code_taglink'))
    lines = ['From Coq Require Import NArith List Bool.', 'Import ListNotations.',
             'From PydoctorVerif Require Import Base.Sexp Model.Site Model.SiteIR.', '']
    lines += out
    lines.append('Definition site_code (f : fname) : istmt :=\n  match f with\n%s\n  end.'
                 % '\n'.join('  | %s => %s' % (f, d) for f, d in table))
    return {'SiteCode.v': '\n'.join(lines) + '\n'}


if __name__ == '__main__':
    print(generate()['SiteCode.v'])
