"""Translator A for C02: the BODIES of pydoctor/model.py
     System.addObject, System.handleDuplicate (and its local function readd), System._remove,
     Documentable.reparent, Documentable._handle_reparenting_pre, Documentable._handle_reparenting_post
translated statement by statement into the deep-embedded language of Model/RegistryIR.v.
Proofs/RegistryIRProofs.v proves, for every state and argument, that the interpretation of THIS output is the
hand-written model (Registry.add_object / handle_duplicate / remove_tree / readd_tree / reparent); so a change to
those bodies changes Gen/RegistryCode.v and breaks that proof obligation, not only the sampled correspondence.

Fail-closed: any statement, expression or receiver outside the recognised shapes aborts the generation with
`unrecognised shape`.  Normalisations (meaning-preserving): docstrings, comments, annotations and `pass` vanish;
`list(d.values())` / `tuple(d.values())` is `d.values()`; a local bound to `self.allobjects` is the registry;
`f'{s} {i}'` is `s + ' ' + str(i)`; `x = next(n for n in itertools.count() if C(n))` is `x = 0; while not C(x): x += 1`;
`not not c` is `c`; `a, b = e1, e2` on locals not read on the right is `a = e1; b = e2`;
`for x in _iter_subtree(r): ...` is the primitive SForSubtree when _iter_subtree is the pinned pre-order generator; `a is not b` is `not (a is b)`; `k not in d` is `not (k in d)`; `elif` is a nested if;
`if c: ...; return` followed by more statements is `if c: ... else: <the rest>`; a chained assignment is a sequence;
an assignment to `.parentMod` (not modelled) is dropped; the message arguments of report()/raise are ignored;
local variables are numbered in order of first use (their names do not matter)."""
import ast, inspect, textwrap
from pathlib import Path


class Bad(ValueError):
    pass


def bad(what, node=None):
    raise Bad('unrecognised shape: %s%s' % (what, (' at line %d: %s' % (node.lineno, ast.unparse(node)[:90]))
                                            if node is not None and hasattr(node, 'lineno') else ''))


def find_class(tree, name):
    cs = [n for n in tree.body if isinstance(n, ast.ClassDef) and n.name == name]
    if len(cs) != 1:
        bad('class %s not found exactly once' % name)
    return cs[0]


def find_method(cls, name):
    fs = [n for n in cls.body if isinstance(n, ast.FunctionDef) and n.name == name]
    if len(fs) != 1:
        bad('method %s.%s not found exactly once' % (cls.name, name))
    return fs[0]


def is_doc(s):
    return isinstance(s, ast.Expr) and isinstance(s.value, ast.Constant) and isinstance(s.value.value, str)


WALK_METHODS = {'_remove': 'FRemove', '_handle_reparenting_pre': 'FPre', '_handle_reparenting_post': 'FPost'}
MODULE_CLASSES = {'_ModuleT', 'Module'}


ITER_SUBTREE = ['pending = [root]',
                'while pending:\n    ob = pending.pop()\n    yield ob\n    pending.extend(reversed(list(ob.contents.values())))']


class Fn:
    has_iter_subtree = False        # the source defines the pinned generator _iter_subtree

    """translation of one function body.  kind: 'system' (self is the System) or 'object' (self is a Documentable)"""
    def __init__(self, fn, short, kind, params, local_funcs=()):
        self.fn, self.short, self.kind = fn, short, kind
        self.local_funcs = set(local_funcs)
        self.vars = {}
        self.bound = set()
        self.reg_aliases = set()                # locals bound to the registry (`registry = self.allobjects`)
        a = fn.args
        if a.vararg or a.kwarg or a.kwonlyargs or a.posonlyargs or a.defaults:
            bad('parameter list of %s' % fn.name, fn)
        names = [x.arg for x in a.args]
        if kind == 'system':
            if names[:1] != ['self'] or names[1:] != params:
                bad('parameters of %s are not (self, %s)' % (fn.name, ', '.join(params)), fn)
            self.params = params
        elif kind == 'object':
            if names != ['self'] + params:
                bad('parameters of %s are not (self, %s)' % (fn.name, ', '.join(params)), fn)
            self.params = ['self'] + params
        else:                                   # local function: closes over the System's `self` only
            if names != params:
                bad('parameters of local function %s' % fn.name, fn)
            self.params = params
        for p in self.params:
            self.var(p)
            self.bound.add(p)

    # ---- variables
    def var(self, name):
        if name not in self.vars:
            self.vars[name] = len(self.vars)
        return 'v_%s_%s' % (self.short, name)

    def use(self, name, node):
        if name not in self.bound:
            bad('local %r read before it is bound' % name, node)
        return self.var(name)

    # ---- receivers
    def is_system(self, e):
        """the System object: `self` in a System method or local function, `self.system` in a Documentable method"""
        if self.kind in ('system', 'local'):
            return isinstance(e, ast.Name) and e.id == 'self'
        return (isinstance(e, ast.Attribute) and e.attr == 'system' and isinstance(e.value, ast.Name) and e.value.id == 'self')

    def is_registry(self, e):
        if isinstance(e, ast.Name) and e.id in self.reg_aliases:
            return True
        if isinstance(e, ast.Attribute) and e.attr == 'allobjects':
            if self.is_system(e.value):
                return True
            # <object local>.system.allobjects : every Documentable of a run has the same System
            v = e.value
            if (isinstance(v, ast.Attribute) and v.attr == 'system' and isinstance(v.value, ast.Name)
                    and v.value.id in self.bound and not (v.value.id == 'self' and self.kind != 'object')):
                return True
        return False

    def obj(self, e):
        """an expression denoting a Documentable (or None): a local, or <obj>.parent"""
        if isinstance(e, ast.Name):
            if e.id == 'self' and self.kind != 'object':
                bad('the System used as an object', e)
            return 'EVar %s' % self.use(e.id, e)
        if isinstance(e, ast.Attribute) and e.attr == 'parent':
            return 'EParent (%s)' % self.obj(e.value)
        bad('object expression', e)

    def contents_of(self, e):
        """<obj>.contents -> the object expression"""
        if isinstance(e, ast.Attribute) and e.attr == 'contents':
            return self.obj(e.value)
        return None

    # ---- expressions
    def expr(self, e):
        if isinstance(e, ast.Constant):
            if e.value is None:
                return 'ENone'
            if isinstance(e.value, int) and not isinstance(e.value, bool) and e.value >= 0:
                return 'EInt %d' % e.value
            bad('constant', e)
        if isinstance(e, ast.Name):
            return self.obj(e)
        if isinstance(e, ast.Attribute):
            if e.attr == 'parent':
                return 'EParent (%s)' % self.obj(e.value)
            if e.attr == 'name':
                return 'ENameOf (%s)' % self.obj(e.value)
            bad('attribute', e)
        if isinstance(e, ast.BinOp) and isinstance(e.op, ast.Add):
            # <s> + ' ' + str(<i>)
            l, r = e.left, e.right
            if (isinstance(l, ast.BinOp) and isinstance(l.op, ast.Add) and isinstance(l.right, ast.Constant) and l.right.value == ' '
                    and isinstance(r, ast.Call) and isinstance(r.func, ast.Name) and r.func.id == 'str' and len(r.args) == 1
                    and not r.keywords):
                return 'ESuffix (%s) (%s)' % (self.expr(l.left), self.expr(r.args[0]))
            bad('string concatenation', e)
        if isinstance(e, ast.JoinedStr):
            # f'{<s>} {<i>}'  ==  <s> + ' ' + str(<i>)
            v = e.values
            if (len(v) == 3 and isinstance(v[0], ast.FormattedValue) and isinstance(v[2], ast.FormattedValue)
                    and isinstance(v[1], ast.Constant) and v[1].value == ' '
                    and all(x.conversion == -1 and x.format_spec is None for x in (v[0], v[2]))):
                return 'ESuffix (%s) (%s)' % (self.expr(v[0].value), self.expr(v[2].value))
            bad('f-string', e)
        if isinstance(e, ast.Subscript) and self.is_registry(e.value):
            return 'EAllGet (%s)' % self.expr(e.slice)
        if isinstance(e, ast.Call) and not e.keywords:
            f = e.func
            if isinstance(f, ast.Name) and f.id in ('list', 'tuple') and len(e.args) == 1:
                inner = self.expr(e.args[0])
                if not inner.startswith('EContentsValues'):
                    bad('list() of something other than contents.values()', e)
                return inner
            if isinstance(f, ast.Attribute):
                if f.attr == 'fullName' and not e.args:
                    return 'EFullName (%s)' % self.obj(f.value)
                if f.attr == 'get' and len(e.args) == 1:
                    if self.is_registry(f.value):
                        return 'EAllGetOpt (%s)' % self.expr(e.args[0])
                    c = self.contents_of(f.value)
                    if c is not None:
                        return 'EContGetOpt (%s) (%s)' % (c, self.expr(e.args[0]))
                if f.attr == 'values' and not e.args:
                    c = self.contents_of(f.value)
                    if c is not None:
                        return 'EContentsValues (%s)' % c
        bad('expression', e)

    def cond(self, e):
        if isinstance(e, ast.UnaryOp) and isinstance(e.op, ast.Not):
            return self.neg(self.cond(e.operand))
        if isinstance(e, ast.BoolOp) and isinstance(e.op, ast.And):
            r = self.cond(e.values[-1])
            for v in reversed(e.values[:-1]):
                r = 'CAnd (%s) (%s)' % (self.cond(v), r)
            return r
        if isinstance(e, ast.Compare) and len(e.ops) == 1:
            op, a, b = e.ops[0], e.left, e.comparators[0]
            if isinstance(op, (ast.Is, ast.IsNot)):
                c = 'CIs (%s) (%s)' % (self.expr(a), self.expr(b))
                return c if isinstance(op, ast.Is) else 'CNot (%s)' % c
            if isinstance(op, (ast.In, ast.NotIn)) and self.is_registry(b):
                c = 'CInAll (%s)' % self.expr(a)
                return c if isinstance(op, ast.In) else 'CNot (%s)' % c
            bad('comparison', e)
        if (isinstance(e, ast.Call) and isinstance(e.func, ast.Name) and e.func.id == 'isinstance' and len(e.args) == 2
                and not e.keywords and isinstance(e.args[1], ast.Name)):
            if e.args[1].id in MODULE_CLASSES:
                return 'CIsModule (%s)' % self.expr(e.args[0])
            if e.args[1].id == 'CanContainImportsDocumentable':
                return 'CIsCCI (%s)' % self.expr(e.args[0])
            bad('isinstance class', e)
        if isinstance(e, (ast.Name, ast.Attribute)):
            return 'CTruthy (%s)' % self.obj(e)
        bad('condition', e)

    @staticmethod
    def neg(c):
        """not c, with a double negation removed"""
        if c.startswith('CNot (') and c.endswith(')'):
            depth = 0
            for k, ch in enumerate(c[5:]):
                depth += ch == '('
                depth -= ch == ')'
                if depth == 0:
                    if k == len(c) - 6:
                        return c[6:-1]
                    break
        return 'CNot (%s)' % c

    def first_free(self, target, v, s):
        """x = next(n for n in itertools.count() if C(n))   ==   x = 0; while not C(x): x += 1"""
        g = v.args[0]
        c = g.generators[0]
        n = c.target.id
        if not (isinstance(g.elt, ast.Name) and g.elt.id == n and len(c.ifs) == 1 and not c.is_async
                and isinstance(c.iter, ast.Call) and not c.iter.args and not c.iter.keywords
                and ast.unparse(c.iter.func) in ('itertools.count', 'count')):
            bad('generator of next()', s)
        x = self.var(target)
        saved = self.vars.get(n)
        if n in self.bound and n != target:
            bad('generator variable shadows a local', s)
        self.vars[n] = self.vars[target]
        self.bound.add(n)
        self.bound.add(target)
        try:
            test = self.cond(c.ifs[0]).replace('v_%s_%s' % (self.short, n), x)
        finally:
            self.bound.discard(n)
            if saved is None:
                del self.vars[n]
            else:
                self.vars[n] = saved
        self.bound.add(target)
        return 'SSeq (SAssign %s (EInt 0)) (SWhile (%s) (SIncr %s))' % (x, self.neg(test), x)

    # ---- statements
    @staticmethod
    def seq(parts):
        parts = [p for p in parts if p is not None]
        if not parts:
            return 'SSkip'
        r = parts[-1]
        for p in reversed(parts[:-1]):
            r = 'SSeq (%s) (%s)' % (p, r)
        return r

    def ends_with_return(self, stmts):
        return bool(stmts) and isinstance(stmts[-1], ast.Return) and stmts[-1].value is None

    def block(self, stmts, tail=False):
        """tail: the block is the end of the function (a final bare `return` is dropped)"""
        stmts = [s for s in stmts if not is_doc(s) and not isinstance(s, ast.Pass)]
        if tail and self.ends_with_return(stmts):
            stmts = stmts[:-1]
        out = []
        for k, s in enumerate(stmts):
            rest = stmts[k + 1:]
            # if c: ...; return   <rest>      ==>   if c: ... else: <rest>       (only at the end of the function)
            if tail and isinstance(s, ast.If) and self.ends_with_return(s.body) and not s.orelse and rest:
                c = self.cond(s.test)
                before = set(self.bound)
                th = self.block(s.body, tail=True)
                self.bound = set(before)
                el = self.block(rest, tail=True)
                out.append('SIf (%s) (%s) (%s)' % (c, th, el))
                return self.seq(out)
            out.append(self.stmt(s, tail and not rest))
        return self.seq(out)

    def assign_target(self, t, value_expr, value_node, s):
        if isinstance(t, ast.Name) and t.id in self.reg_aliases:
            bad('assignment to a registry alias', s)
        if isinstance(t, ast.Name):
            out = 'SAssign %s (%s)' % (self.var(t.id), value_expr)
            self.bound.add(t.id)
            return out
        if isinstance(t, ast.Attribute):
            if t.attr == 'parentMod':
                return None
            if t.attr == 'name':
                return 'SSetName (%s) (%s)' % (self.obj(t.value), value_expr)
            if t.attr == 'parent':
                return 'SSetParent (%s) (%s)' % (self.obj(t.value), value_expr)
            bad('assignment to attribute', s)
        if isinstance(t, ast.Subscript):
            if self.is_registry(t.value):
                return 'SAllSet (%s) (%s)' % (self.expr(t.slice), value_expr)
            c = self.contents_of(t.value)
            if c is not None:
                return 'SContSet (%s) (%s) (%s)' % (c, self.expr(t.slice), value_expr)
            if isinstance(t.value, ast.Attribute) and t.value.attr == '_localNameToFullName_map':
                return 'SAliasSet (%s) (%s) (%s)' % (self.obj(t.value.value), self.expr(t.slice), value_expr)
        bad('assignment target', s)

    def stmt(self, s, tail=False):
        if isinstance(s, (ast.Assign, ast.AnnAssign)):
            targets = s.targets if isinstance(s, ast.Assign) else [s.target]
            v = s.value
            if v is None:
                return None
            # a, b = e1, e2  with locals a, b that e1, e2 do not read: a = e1; b = e2
            if (len(targets) == 1 and isinstance(targets[0], ast.Tuple) and isinstance(v, ast.Tuple)
                    and len(targets[0].elts) == len(v.elts) and all(isinstance(t, ast.Name) for t in targets[0].elts)):
                names = [t.id for t in targets[0].elts]
                read = {n.id for e in v.elts for n in ast.walk(e) if isinstance(n, ast.Name)}
                if set(names) & read or len(set(names)) != len(names):
                    bad('tuple assignment whose targets are read on the right', s)
                return self.seq([self.stmt(ast.copy_location(ast.Assign(targets=[t], value=e), s)) for t, e in zip(targets[0].elts, v.elts)])
            # x = self.allobjects.setdefault(k, v)
            if (isinstance(v, ast.Call) and isinstance(v.func, ast.Attribute) and v.func.attr == 'setdefault'
                    and self.is_registry(v.func.value) and len(v.args) == 2 and not v.keywords):
                if len(targets) != 1 or not isinstance(targets[0], ast.Name):
                    bad('target of setdefault', s)
                k, w = self.expr(v.args[0]), self.expr(v.args[1])
                out = 'SSetDefault %s (%s) (%s)' % (self.var(targets[0].id), k, w)
                self.bound.add(targets[0].id)
                return out
            # registry = self.allobjects : the local is another name of the registry (never a value of the language)
            if self.is_registry(v) and len(targets) == 1 and isinstance(targets[0], ast.Name):
                if targets[0].id in self.vars:
                    bad('registry alias reuses a local', s)
                self.reg_aliases.add(targets[0].id)
                return None
            # x = next(n for n in itertools.count() if C(n))
            if (isinstance(v, ast.Call) and isinstance(v.func, ast.Name) and v.func.id == 'next' and len(v.args) == 1
                    and not v.keywords and isinstance(v.args[0], ast.GeneratorExp) and len(v.args[0].generators) == 1
                    and isinstance(v.args[0].generators[0].target, ast.Name)
                    and len(targets) == 1 and isinstance(targets[0], ast.Name)):
                return self.first_free(targets[0].id, v, s)
            ve = self.expr(v)
            if len(targets) > 1 and not isinstance(v, (ast.Name, ast.Constant)):
                bad('chained assignment of a non-trivial value', s)
            return self.seq([self.assign_target(t, ve, v, s) for t in targets])
        if isinstance(s, ast.AugAssign):
            if (isinstance(s.op, ast.Add) and isinstance(s.target, ast.Name) and isinstance(s.value, ast.Constant)
                    and s.value.value == 1):
                return 'SIncr %s' % self.use(s.target.id, s)
            bad('augmented assignment', s)
        if isinstance(s, ast.Delete):
            out = []
            for t in s.targets:
                if isinstance(t, ast.Subscript) and self.is_registry(t.value):
                    out.append('SAllDel (%s)' % self.expr(t.slice))
                elif isinstance(t, ast.Subscript) and self.contents_of(t.value) is not None:
                    out.append('SContDel (%s) (%s)' % (self.contents_of(t.value), self.expr(t.slice)))
                else:
                    bad('del target', s)
            return self.seq(out)
        if isinstance(s, ast.If):
            c = self.cond(s.test)
            before = set(self.bound)
            th = self.block(s.body, tail)
            a1 = self.bound
            self.bound = set(before)
            el = self.block(s.orelse, tail)
            self.bound = a1 & self.bound
            return 'SIf (%s) (%s) (%s)' % (c, th, el)
        if isinstance(s, ast.While):
            if s.orelse:
                bad('while/else', s)
            c = self.cond(s.test)
            before = set(self.bound)
            b = self.block(s.body)
            self.bound = before
            return 'SWhile (%s) (%s)' % (c, b)
        if isinstance(s, ast.For):
            if s.orelse or not isinstance(s.target, ast.Name):
                bad('for loop', s)
            if (isinstance(s.iter, ast.Call) and isinstance(s.iter.func, ast.Name) and s.iter.func.id == '_iter_subtree'
                    and len(s.iter.args) == 1 and not s.iter.keywords):
                if not Fn.has_iter_subtree:
                    bad('_iter_subtree is not the pinned generator', s)
                root = self.obj(s.iter.args[0])
                before = set(self.bound)
                x = self.var(s.target.id)
                self.bound.add(s.target.id)
                b = self.block(s.body)
                self.bound = before
                return 'SForSubtree %s (%s) (%s)' % (x, root, b)
            it = self.expr(s.iter)
            if not (it.startswith('EContentsValues') or it.startswith('EVar')):
                bad('for iterable', s)
            before = set(self.bound)
            x = self.var(s.target.id)
            self.bound.add(s.target.id)
            b = self.block(s.body)
            self.bound = before
            return 'SFor %s (%s) (%s)' % (x, it, b)
        if isinstance(s, ast.Assert):
            return 'SAssert (%s)' % self.cond(s.test)
        if isinstance(s, ast.Raise):
            return 'SRaise'
        if isinstance(s, ast.Return):
            bad('return in the middle of a block / with a value', s)
        if isinstance(s, ast.Expr) and isinstance(s.value, ast.Call):
            c = s.value
            f = c.func
            if isinstance(f, ast.Name) and f.id in self.local_funcs and len(c.args) == 1 and not c.keywords:
                return 'SCall FReadd [%s]' % self.obj(c.args[0])
            if isinstance(f, ast.Attribute):
                if f.attr == 'report':
                    self.obj(f.value)
                    return 'SCall FReport []'
                if (f.attr == 'append' and isinstance(f.value, ast.Attribute) and f.value.attr == 'rootobjects'
                        and self.is_system(f.value.value) and len(c.args) == 1 and not c.keywords):
                    return 'SRootsAppend (%s)' % self.obj(c.args[0])
                if c.keywords:
                    bad('keyword arguments', s)
                if self.is_system(f.value):
                    if f.attr == '_remove' and len(c.args) == 1:
                        return 'SCall FRemove [%s]' % self.obj(c.args[0])
                    if f.attr == 'handleDuplicate' and len(c.args) == 1:
                        return 'SCall FHandleDuplicate [%s]' % self.obj(c.args[0])
                    bad('System method call', s)
                if f.attr in ('_handle_reparenting_pre', '_handle_reparenting_post') and not c.args:
                    return 'SCall %s [%s]' % (WALK_METHODS[f.attr], self.obj(f.value))
            bad('call', s)
        bad('statement %s' % type(s).__name__, s)


def generate() -> dict:
    from pydoctor import model
    src = Path(inspect.getsourcefile(model)).read_text()
    tree = ast.parse(src)
    S = find_class(tree, 'System')
    D = find_class(tree, 'Documentable')
    gens = [n for n in tree.body if isinstance(n, ast.FunctionDef) and n.name == '_iter_subtree']
    Fn.has_iter_subtree = False
    if gens:
        g = gens[0]
        body = [ast.unparse(x) for x in g.body if not is_doc(x)]
        if (len(gens) != 1 or [a.arg for a in g.args.args] != ['root'] or g.args.vararg or g.args.kwarg or g.args.kwonlyargs
                or g.decorator_list or body != ITER_SUBTREE):
            bad('_iter_subtree is not the pinned explicit-stack pre-order walk', g)
        Fn.has_iter_subtree = True

    fns = {}

    def tr(cls, pyname, short, kind, params):
        fn = find_method(cls, pyname)
        body = list(fn.body)
        locals_ = [n for n in body if isinstance(n, ast.FunctionDef)]
        body = [n for n in body if not isinstance(n, ast.FunctionDef)]
        local_names = [n.name for n in locals_]
        if short != 'handleDuplicate' and locals_:
            bad('local function in %s' % pyname, locals_[0])
        if len(locals_) > 1:
            bad('more than one local function in %s' % pyname, locals_[1])
        for lf in locals_:
            if lf.decorator_list:
                bad('decorated local function', lf)
            g = Fn(lf, 'readd', 'local', [a.arg for a in lf.args.args], local_names)
            # the closure sees the registry aliases of the enclosing function
            for st in body:
                if (isinstance(st, ast.Assign) and len(st.targets) == 1 and isinstance(st.targets[0], ast.Name)
                        and ast.unparse(st.value) == 'self.allobjects'):
                    g.reg_aliases.add(st.targets[0].id)
            if len(g.params) != 1:
                bad('local function of handleDuplicate must take one object', lf)
            g.text = g.block(lf.body, tail=True)
            fns['readd'] = g
        if fn.decorator_list:
            bad('decorated %s' % pyname, fn)
        f = Fn(fn, short, kind, params, local_names)
        f.text = f.block(body, tail=True)
        fns[short] = f

    tr(S, '_remove', 'remove', 'system', ['o'])
    tr(D, '_handle_reparenting_pre', 'pre', 'object', [])
    tr(D, '_handle_reparenting_post', 'post', 'object', [])
    tr(S, 'handleDuplicate', 'handleDuplicate', 'system', ['obj'])
    tr(S, 'addObject', 'addObject', 'system', ['obj'])
    tr(D, 'reparent', 'reparent', 'object', ['new_parent', 'new_name'])

    lines = ['From Coq Require Import NArith List.', 'Import ListNotations.',
             'From PydoctorVerif Require Import Model.Registry Model.RegistryIR.', 'Local Open Scope N_scope.', '']
    order = ['remove', 'readd', 'pre', 'post', 'handleDuplicate', 'addObject', 'reparent']
    for name in order:
        if name not in fns:
            continue
        m = fns[name]
        lines.append('(* locals of %s *)' % name)
        for py, i in m.vars.items():
            lines.append('Notation v_%s_%s := (%d%%N) (only parsing).' % (name, py, i))
        lines.append('Definition code_%s : fundef :=' % name)
        lines.append('  {| f_params := [%s];' % '; '.join('v_%s_%s' % (name, p) for p in m.params))
        lines.append('     f_body :=')
        lines.append(textwrap.fill(m.text, 112, initial_indent='       ', subsequent_indent='       ',
                                   break_long_words=False) + ' |}.')
        lines.append('')
    if 'readd' not in fns:
        lines.append('(* handleDuplicate has no local function in this source: the slot is filled with _handle_reparenting_post *)')
        lines.append('Definition code_readd : fundef := code_post.')
        lines.append('')
    lines.append('Definition registry_code : code :=')
    lines.append('  {| c_remove := code_remove; c_readd := code_readd; c_pre := code_pre; c_post := code_post;')
    lines.append('     c_handleDuplicate := code_handleDuplicate; c_addObject := code_addObject; c_reparent := code_reparent |}.')
    return {'RegistryCode.v': '\n'.join(lines) + '\n'}


if __name__ == '__main__':
    print(generate()['RegistryCode.v'])
