"""MiniPy programs for C03: JSON form, pretty-printer to real Python source, identifier collection.

JSON form (mirrors the wire format of coq/theories/Model/MiniPy.v; trailing elements are print hints the model ignores):
 value : [0,z] [1,b] [2,"s"] [3,"bytes"] [4,"1.5"] [5] [6,v..] [7,v..] [8,v..] [9,[k..],[v..]]
 rhs   : [0,value] [1,"name"] [2,"f",["a"..]] [3,"source text"]
 target: [0,"n"] [1,["a","b"]] [2,"attr"]
 deco  : [0,["a","b"]] [1,["a"]]
 stmt  : [0,name,decos,async,body,params?] [1,name,bases("a" or "m.a"),body,cdecos?] [2,targets,rhs] [3,target,ann,optrhs] [4,target,rhs]
         [5,"text",quote] [6,test,body,orelse,variant] [7,body,handlers,orelse,final] [8,body,variant]
         [9,tgt,body,orelse] [10,body,orelse] [11,names,"source text",infos?,refs?] [12,"source text"]
 import info (what a name is bound to; filled in by the harness from the model's result for the imported module):
         [0] anything | [1,exc,[[member,tag]..]] a class | [2,[[class,exc,[[member,tag]..]]..]] a module     tag 0 def/class 1 variable 2 ivar
 refs[i] = None | ["pkg.mod", "Class"] | ["pkg.mod", None]   (what names[i] refers to, for the harness)
"""
from __future__ import annotations
from typing import Any, List, Set

IND = '    '


def pp_value(v: Any) -> str:
    t = v[0]
    if t == 0:
        return str(v[1])
    if t == 1:
        return 'True' if v[1] else 'False'
    if t == 2:
        return repr(v[1])
    if t == 3:
        return repr(v[1].encode('latin-1'))
    if t == 4:
        return v[1]
    if t == 5:
        return 'None'
    if t == 6:
        return '[' + ', '.join(pp_value(x) for x in v[1:]) + ']'
    if t == 7:
        xs = [pp_value(x) for x in v[1:]]
        return '(' + ', '.join(xs) + (',' if len(xs) == 1 else '') + ')'
    if t == 8:
        return '{' + ', '.join(pp_value(x) for x in v[1:]) + '}' if len(v) > 1 else 'set()'
    if t == 9:
        return '{' + ', '.join('%s: %s' % (pp_value(k), pp_value(x)) for k, x in zip(v[1], v[2])) + '}'
    raise ValueError(v)


def pp_rhs(r: Any) -> str:
    t = r[0]
    if t == 0:
        return pp_value(r[1])
    if t == 1:
        return r[1]
    if t == 2:
        return '%s(%s)' % (r[1], ', '.join(r[2]))
    return r[1] if len(r) > 1 and r[1] else "(len('ab') + 1)"


def pp_target(t: Any) -> str:
    if t[0] == 0:
        return t[1]
    if t[0] == 1:
        return ', '.join(t[1])
    return 'self.' + t[1]


def pp_str(s: str, quote: int) -> str:
    safe = s and '\\' not in s and '"""' not in s and not s.endswith('"') and '\r' not in s and '\0' not in s \
        and all(c == '\n' or c == '\t' or c.isprintable() for c in s)
    if quote == 1 and safe:
        return '"""' + s + '"""'
    return repr(s)


TRUE_TESTS = ['True', '1 == 1', 'not False', "__name__ != '__main__'"]
FALSE_TESTS = ['False', '1 == 2', "__name__ == '__mian__'", 'not True']
WITHS = ["memoryview(b'x')", 'open(__file__)']


def has_deco(decos: List[Any], name: str) -> bool:
    return any(d[1] == [name] for d in decos)


def pp_suite(body: List[Any], ind: int, ctx: str, extra: List[str] = []) -> List[str]:
    out: List[str] = []
    for s in body:
        out.extend(pp_stmt(s, ind, ctx))
    out.extend(IND * ind + e for e in extra)
    if not out:
        out.append(IND * ind + 'pass')
    return out


def pp_stmt(s: Any, ind: int, ctx: str) -> List[str]:
    p = IND * ind
    t = s[0]
    if t == 0:
        _, name, decos, asy, body = s[:5]
        out = []
        for d in decos:
            out.append(p + '@' + '.'.join(d[1]) + ('()' if d[0] == 1 else ''))
        if len(s) > 5 and s[5] is not None:
            params = s[5]
        elif ctx == 'class':
            params = '' if has_deco(decos, 'staticmethod') else 'cls' if has_deco(decos, 'classmethod') else 'self'
        else:
            params = ''
        out.append('%s%sdef %s(%s):' % (p, 'async ' if asy else '', name, params))
        return out + pp_suite(body, ind + 1, 'func')
    if t == 1:
        _, name, bases, body = s[:4]
        out = [p + '@' + '.'.join(d[1]) + ('()' if d[0] == 1 else '') for d in (s[4] if len(s) > 4 and s[4] else [])]
        return out + ['%sclass %s%s:' % (p, name, '(' + ', '.join(bases) + ')' if bases else '')] + pp_suite(body, ind + 1, 'class')
    if t == 2:
        return [p + ' = '.join(pp_target(x) for x in s[1]) + ' = ' + pp_rhs(s[2])]
    if t == 3:
        return [p + '%s: %s' % (pp_target(s[1]), s[2]) + (' = ' + pp_rhs(s[3][0]) if s[3] else '')]
    if t == 4:
        return [p + '%s += %s' % (pp_target(s[1]), pp_rhs(s[2]))]
    if t == 5:
        return [p + pp_str(s[1], s[2] if len(s) > 2 else 0)]
    if t == 6:
        _, test, body, orelse = s[:4]
        var = s[4] if len(s) > 4 else 0
        cond = "__name__ == '__main__'" if test == 0 else TRUE_TESTS[var % len(TRUE_TESTS)] if test == 1 else FALSE_TESTS[var % len(FALSE_TESTS)]
        out = [p + 'if %s:' % cond] + pp_suite(body, ind + 1, ctx)
        if orelse:
            out += [p + 'else:'] + pp_suite(orelse, ind + 1, ctx)
        return out
    if t == 7:
        _, body, handlers, orelse, final = s[:5]
        out = [p + 'try:'] + pp_suite(body, ind + 1, ctx)
        out += [p + 'except Exception:'] + pp_suite(handlers, ind + 1, ctx)
        if orelse:
            out += [p + 'else:'] + pp_suite(orelse, ind + 1, ctx)
        if final:
            out += [p + 'finally:'] + pp_suite(final, ind + 1, ctx)
        return out
    if t == 8:
        var = s[2] if len(s) > 2 else 0
        return [p + 'with %s:' % WITHS[var % len(WITHS)]] + pp_suite(s[1], ind + 1, ctx)
    if t == 9:
        out = [p + 'for %s in (0,):' % s[1]] + pp_suite(s[2], ind + 1, ctx)
        if s[3]:
            out += [p + 'else:'] + pp_suite(s[3], ind + 1, ctx)
        return out
    if t == 10:
        out = [p + 'while True:'] + pp_suite(s[1], ind + 1, ctx, ['break'])
        if s[2]:
            out += [p + 'else:'] + pp_suite(s[2], ind + 1, ctx)
        return out
    if t == 11:
        return [p + l for l in s[2].split('\n')]
    if t == 12:
        return [p + (s[1] if len(s) > 1 and s[1] else 'pass')]
    raise ValueError(s)


def pp_module(body: List[Any]) -> str:
    lines: List[str] = []
    for s in body:
        lines.extend(pp_stmt(s, 0, 'module'))
    return '\n'.join(lines) + '\n'


def binding_names(body: List[Any], acc: Set[str]) -> Set[str]:
    for s in body:
        t = s[0]
        if t == 0:
            acc.add(s[1]); binding_names(s[4], acc)
        elif t == 1:
            acc.add(s[1]); binding_names(s[3], acc)
        elif t == 2:
            for x in s[1]:
                acc.update(x[1] if x[0] == 1 else [x[1]])
        elif t in (3, 4):
            x = s[1]
            acc.update(x[1] if x[0] == 1 else [x[1]])
        elif t == 6:
            binding_names(s[2], acc); binding_names(s[3], acc)
        elif t == 7:
            for k in (1, 2, 3, 4):
                binding_names(s[k], acc)
        elif t == 8:
            binding_names(s[1], acc)
        elif t == 9:
            acc.add(s[1]); binding_names(s[2], acc); binding_names(s[3], acc)
        elif t == 10:
            binding_names(s[1], acc); binding_names(s[2], acc)
        elif t == 11:
            acc.update(s[1])
    return acc


def count_stmts(body: List[Any]) -> int:
    n = 0
    for s in body:
        n += 1
        t = s[0]
        for k in {0: (4,), 1: (3,), 6: (2, 3), 7: (1, 2, 3, 4), 8: (1,), 9: (2, 3), 10: (1, 2)}.get(t, ()):
            n += count_stmts(s[k])
    return n


def depth(body: List[Any]) -> int:
    d = 0
    for s in body:
        t = s[0]
        for k in {0: (4,), 1: (3,), 6: (2, 3), 7: (1, 2, 3, 4), 8: (1,), 9: (2, 3), 10: (1, 2)}.get(t, ()):
            d = max(d, 1 + depth(s[k]))
    return d


def to_wire(body: List[Any]) -> List[Any]:
    """JSON form -> the nesting Model/MiniPy.v decodes (dotted bases split, import infos attached, hints dropped where needed)"""
    out = []
    for s in body:
        t = s[0]
        if t == 0:
            out.append([0, s[1], s[2], s[3], to_wire(s[4])])
        elif t == 1:
            out.append([1, s[1], [b.split('.') for b in s[2]], to_wire(s[3]), s[4] if len(s) > 4 and s[4] else []])
        elif t == 6:
            out.append([6, s[1], to_wire(s[2]), to_wire(s[3])])
        elif t == 7:
            out.append([7, to_wire(s[1]), to_wire(s[2]), to_wire(s[3]), to_wire(s[4])])
        elif t == 8:
            out.append([8, to_wire(s[1])])
        elif t == 9:
            out.append([9, s[1], to_wire(s[2]), to_wire(s[3])])
        elif t == 10:
            out.append([10, to_wire(s[1]), to_wire(s[2])])
        elif t == 11:
            infos = s[3] if len(s) > 3 and s[3] else [[0]] * len(s[1])
            out.append([11, [[n, i] for n, i in zip(s[1], infos)]])
        elif t == 5:
            out.append([5, s[1]])
        elif t == 12:
            out.append([12])
        else:
            out.append(s)
    return out
