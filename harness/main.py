"""Entry point: ./check Cxx [--tier quick|thorough] [--seed N] [--replay file]"""
import argparse, importlib, json, os, sys
from pathlib import Path
sys.path.insert(0, str(Path(__file__).resolve().parent))
import lib

def main() -> int:
    ap = argparse.ArgumentParser()
    ap.add_argument('prop')
    ap.add_argument('--tier', default=os.environ.get('VERIF_TIER', 'quick'), choices=['quick', 'thorough'])
    ap.add_argument('--seed', type=int, default=int(os.environ.get('VERIF_SEED', '20260930')))
    ap.add_argument('--replay')
    a = ap.parse_args()
    mod = importlib.import_module(a.prop.lower())
    if a.replay:
        chk = mod.Check(a.tier, a.seed)
        data = json.loads(Path(a.replay).read_text())
        return chk.replay(data)
    return lib.run_check(mod.Check, a.tier, a.seed)

if __name__ == '__main__':
    sys.exit(main())
