"""Shared by harness/c06.py and harness/c07.py: project cases, their rendering to Python source, the encoding for the
extracted model (Model/Project.v + Model/Linker.v), canonical forms, reachable schedules, static analyses used by the
oracles (import graph, which names are re-exported, what a dotted name denotes in Python) and the generators.

case = {"mods": [{"name", "parent": index|None, "pkg": bool, "doc": str|None, "stmts": [stmt...]}, ...]   parents first
        "queries": [[scope_fullname, identifier], ...]}
stmt = ["class", name, doc, [dotted base...], [[mkind, name, doc]...]]      mkind 0 method, 1 class variable
     | ["def", name, doc] | ["var", name, doc] | ["alias", target, dotted] | ["import", dotted, asname|None]
     | ["from", level, dotted|"", [[orgname, asname|None]...]] | ["star", level, dotted|""] | ["all", [names]]
"""
from __future__ import annotations
import itertools, json, random
from typing import Any, Dict, List, Optional, Sequence, Tuple
from lib import enc, dec

PRIV = 1 << 19
DUP = 1 << 20
TYPES = {0: 'Module', 1: 'Package', 2: 'Class', 3: 'Function', 4: 'Attribute'}
KINDS = {1: 'PACKAGE', 2: 'MODULE', 3: 'CLASS', 4: 'FUNCTION', 5: 'METHOD', 6: 'VARIABLE', 7: 'CLASS_VARIABLE'}


# ------------------------------------------------------------------------------------------------ names
def fullnames(case: Any) -> List[str]:
    out: List[str] = []
    for m in case['mods']:
        out.append(m['name'] if m['parent'] is None else out[m['parent']] + '.' + m['name'])
    return out


class Tables:
    def __init__(self) -> None:
        self.ids: Dict[str, int] = {}
        self.names: Dict[int, str] = {}
        self.docs: Dict[str, int] = {}
        self.doc_of: Dict[int, Optional[str]] = {0: None}

    def n(self, name: str) -> int:
        if name not in self.ids:
            i = len(self.ids) + 1
            if name.startswith('_'):
                i |= PRIV
            self.ids[name] = i
            self.names[i] = name
        return self.ids[name]

    def path(self, dotted: str) -> List[int]:
        return [self.n(x) for x in dotted.split('.')] if dotted else []

    def d(self, doc: Optional[str]) -> int:
        if doc is None:
            return 0
        if doc not in self.docs:
            self.docs[doc] = len(self.docs) + 1
            self.doc_of[self.docs[doc]] = doc
        return self.docs[doc]

    def name_str(self, i: int) -> str:
        if i >= DUP:
            return '%s %d' % (self.names.get(i % DUP, '?%d' % (i % DUP)), i // DUP - 1)
        return self.names.get(i, '?%d' % i)

    def path_str(self, p: Sequence[int]) -> str:
        return '.'.join(self.name_str(x) for x in p)


# ------------------------------------------------------------------------------------------------ source
def render(mod: Any) -> str:
    if 'src' in mod:
        return mod['src']
    L: List[str] = []
    if mod.get('doc') is not None:
        L.append('"""%s"""' % mod['doc'])
    for st in mod['stmts']:
        k = st[0]
        if k == 'class':
            _, name, doc, bases, members = st
            L.append('class %s%s:' % (name, '(%s)' % ', '.join(bases) if bases else ''))
            body = []
            if doc is not None:
                body.append('"""%s"""' % doc)
            for mk, mn, md in members:
                if mk == 0:
                    body.append('def %s(self):' % mn)
                    body.append('    ' + ('"""%s"""' % md if md is not None else 'pass'))
                else:
                    body.append('%s = 1' % mn)
                    if md is not None:
                        body.append('"""%s"""' % md)
            if not body:
                body.append('pass')
            L.extend('    ' + b for b in body)
        elif k == 'def':
            L.append('def %s():' % st[1])
            L.append('    ' + ('"""%s"""' % st[2] if st[2] is not None else 'pass'))
        elif k == 'var':
            L.append('%s = 1' % st[1])
            if st[2] is not None:
                L.append('"""%s"""' % st[2])
        elif k == 'alias':
            L.append('%s = %s' % (st[1], st[2]))
        elif k == 'import':
            L.append('import %s%s' % (st[1], ' as %s' % st[2] if st[2] else ''))
        elif k == 'from':
            names = ', '.join(o if not a else '%s as %s' % (o, a) for o, a in st[3])
            if len(st) > 4 and st[4]:
                # optional accelerator pattern: the module is not part of the sources
                L.append('try:')
                L.append('    from %s%s import %s' % ('.' * st[1], st[2], names))
                L.append('except ImportError:')
                L.append('    pass')
            else:
                L.append('from %s%s import %s' % ('.' * st[1], st[2], names))
        elif k == 'star':
            L.append('from %s%s import *' % ('.' * st[1], st[2]))
        elif k == 'all':
            L.append('__all__ = [%s]' % ', '.join(repr(x) for x in st[1]))
        else:
            raise ValueError(st)
    return '\n'.join(L) + '\n'


def impl_job(case: Any, orders: List[List[int]], doclinks: bool = False) -> Any:
    fn = fullnames(case)
    return {'mods': [[m['name'], render(m), bool(m['pkg']), fn[m['parent']] if m['parent'] is not None else None]
                     for m in case['mods']],
            'orders': [[fn[i] for i in o] for o in orders],
            'queries': case.get('queries', []), 'docstring_links': doclinks}


# ------------------------------------------------------------------------------------------------ model wire
def to_model(case: Any, order: List[int], t: Tables) -> str:
    mods = []
    for m in case['mods']:
        sts = []
        for st in m['stmts']:
            k = st[0]
            if k == 'class':
                sts.append([0, t.n(st[1]), t.d(st[2]), [t.path(b) for b in st[3]],
                            [[mk, t.n(mn), t.d(md)] for mk, mn, md in st[4]]])
            elif k == 'def':
                sts.append([1, t.n(st[1]), t.d(st[2])])
            elif k == 'var':
                sts.append([2, t.n(st[1]), t.d(st[2])])
            elif k == 'alias':
                sts.append([3, t.n(st[1]), t.path(st[2])])
            elif k == 'import':
                sts.append([4, t.path(st[1]), t.n(st[2]) if st[2] else 0])
            elif k == 'from':
                sts.append([5, st[1], t.path(st[2]), [[t.n(o), t.n(a if a else o)] for o, a in st[3]]])
            elif k == 'star':
                sts.append([6, st[1], t.path(st[2])])
            elif k == 'all':
                sts.append([7, [t.n(x) for x in st[1]]])
        mods.append([t.n(m['name']), [m['parent']] if m['parent'] is not None else [], 1 if m['pkg'] else 0,
                     t.d(m.get('doc')), sts])
    qs = [[t.path(sc), t.path(ident)] for sc, ident in case.get('queries', [])]
    return enc([mods, list(order), qs])


def canon_model(out: Any, t: Tables) -> Any:
    if out[0] != 0:
        return {'exc': 'model status %s' % out}
    objects = {}
    for e in out[1]:
        key = t.path_str(e[0])
        if len(e) < 7:
            objects[key] = ['<dangling>']
            continue
        _, oid, tag, kind, doc, fn, bases = e
        ent = [TYPES.get(tag), KINDS.get(kind), t.doc_of.get(doc), t.path_str(fn), None, None]
        if tag == 2:
            ent[4] = [t.path_str(b[0]) for b in bases]
            ent[5] = [t.path_str(b[1][0]) if b[1] else None for b in bases]
        objects[key] = ent
    scopes = {}
    for e in out[2]:
        key = t.path_str(e[0])
        if len(e) < 4:
            continue
        scopes[key] = [[t.name_str(c) for c in e[1]], [[t.name_str(a), t.path_str(q)] for a, q in e[2]],
                       [t.name_str(x) for x in e[3][0]] if e[3] else None]
    answers = []
    for a in out[3]:
        if not a:
            answers.append(None)
            continue
        op = lambda x: t.path_str(x[0]) if x else None
        answers.append([t.path_str(a[0]), op(a[1]), op(a[2]), op(a[3]), [a[4][0], op(a[4][1])]])
    return {'objects': objects, 'scopes': scopes, 'answers': answers}


def canon_impl(d: Any) -> Any:
    """The part of the worker's dump that the model predicts (mro is left to the oracle)."""
    if 'exc' in d:
        return {'exc': d['exc']}
    objects = {k: v[:6] for k, v in d['objects'].items()}
    scopes = {}
    for k, v in d['scopes'].items():
        # the model keeps `all` only on modules; classes have none in both
        scopes[k] = v
    return {'objects': objects, 'scopes': scopes, 'answers': d['answers']}


def diff(a: Any, b: Any, path: str = '') -> List[str]:
    out: List[str] = []
    if isinstance(a, dict) and isinstance(b, dict):
        for k in sorted(set(a) | set(b)):
            if k not in a:
                out.append('%s/%s only in second' % (path, k))
            elif k not in b:
                out.append('%s/%s only in first' % (path, k))
            else:
                out.extend(diff(a[k], b[k], path + '/' + str(k)))
    elif a != b:
        out.append('%s: %r != %r' % (path, a, b))
    return out


# ------------------------------------------------------------------------------------------------ schedules
def all_reachable_orders(case: Any, limit: int, rng: random.Random) -> Tuple[List[List[int]], bool]:
    """Orders the real tool can realise: roots in any order, each package's own module first, then its sub-modules
    and sub-packages (each with its whole sub-tree) in any order.  Returns (orders, complete?)."""
    kids: Dict[Optional[int], List[int]] = {}
    for i, m in enumerate(case['mods']):
        kids.setdefault(m['parent'], []).append(i)

    def count(node: Optional[int]) -> int:
        c = 1
        ks = kids.get(node, [])
        for k in ks:
            c *= count(k)
        f = 1
        for j in range(2, len(ks) + 1):
            f *= j
        return c * f

    def enum(node: Optional[int]) -> List[List[int]]:
        ks = kids.get(node, [])
        subs = [enum(k) for k in ks]
        res = []
        for perm in itertools.permutations(range(len(ks))):
            for combo in itertools.product(*[subs[j] for j in perm]):
                res.append(([node] if node is not None else []) + [x for part in combo for x in part])
        return res

    def sample(node: Optional[int]) -> List[int]:
        ks = list(kids.get(node, []))
        rng.shuffle(ks)
        out = [node] if node is not None else []
        for k in ks:
            out.extend(sample(k))
        return out

    total = count(None)
    if total <= limit:
        return enum(None), True
    seen = set()
    res: List[List[int]] = []
    # always include the order a user sees (sorted siblings)
    def sorted_order(node: Optional[int]) -> List[int]:
        ks = sorted(kids.get(node, []), key=lambda i: case['mods'][i]['name'])
        out = [node] if node is not None else []
        for k in ks:
            out.extend(sorted_order(k))
        return out
    first = sorted_order(None)
    res.append(first)
    seen.add(tuple(first))
    tries = 0
    while len(res) < limit and tries < limit * 20:
        tries += 1
        o = sample(None)
        if tuple(o) not in seen:
            seen.add(tuple(o))
            res.append(o)
    return res, False


# ------------------------------------------------------------------------------------------------ static analyses
def module_all(mod: Any) -> Optional[List[str]]:
    a = None
    for st in mod['stmts']:
        if st[0] == 'all':
            a = list(st[1])
    return a


def abs_modname(case: Any, fn: List[str], mi: int, level: int, dotted: str) -> Optional[str]:
    """Python's meaning of a (relative) module name written in module mi."""
    if level == 0:
        return dotted
    base = fn[mi].split('.')
    if not case['mods'][mi]['pkg']:
        base = base[:-1]
    keep = len(base) - (level - 1)
    if keep < 1:
        return None
    return '.'.join(base[:keep] + ([dotted] if dotted else []))


def import_edges(case: Any) -> Dict[int, List[int]]:
    """m -> modules whose processing m's from-imports can trigger (getProcessedModule calls)."""
    fn = fullnames(case)
    idx = {n: i for i, n in enumerate(fn)}
    edges: Dict[int, List[int]] = {i: [] for i in range(len(fn))}
    for i, m in enumerate(case['mods']):
        for st in m['stmts']:
            if st[0] in ('from', 'star'):
                t = abs_modname(case, fn, i, st[1], st[2])
                if t is None:
                    continue
                if t in idx:
                    edges[i].append(idx[t])
                    if st[0] == 'from' and case['mods'][idx[t]]['pkg']:
                        for o, a in st[3]:
                            if t + '.' + o in idx:
                                edges[i].append(idx[t + '.' + o])
    return edges


def cycle_modules(case: Any) -> List[int]:
    """Modules that lie on an import cycle (including self imports)."""
    edges = import_edges(case)
    n = len(case['mods'])
    reach = {i: set(edges[i]) for i in range(n)}
    changed = True
    while changed:
        changed = False
        for i in range(n):
            new = set(reach[i])
            for j in list(reach[i]):
                new |= reach[j]
            if new != reach[i]:
                reach[i] = new
                changed = True
    return [i for i in range(n) if i in reach[i]]


def bound_names(mod: Any) -> List[str]:
    """Every module-level binding of a name, in order, with repetitions."""
    out = []
    for st in mod['stmts']:
        k = st[0]
        if k in ('class', 'def', 'var'):
            out.append(st[1])
        elif k == 'alias':
            out.append(st[1])
        elif k == 'import':
            out.append(st[2] if st[2] else st[1].split('.')[0])
        elif k == 'from':
            if len(st) > 4 and st[4]:
                continue           # inside try/except ImportError, module not in the sources: binds nothing in Python
            out.extend(a if a else o for o, a in st[3])
    return out


def twice_bound(mod: Any) -> List[str]:
    b = bound_names(mod)
    return sorted({x for x in b if b.count(x) > 1})


def defs_of(mod: Any) -> Dict[str, Any]:
    return {st[1]: st for st in mod['stmts'] if st[0] in ('class', 'def', 'var')}


def reexports(case: Any, kept: bool = False) -> List[Dict[str, Any]]:
    """Statically: (R, D, x, n) such that module R imports x from project module D at module level as n (by name or by
    star), lists n in its __all__, D defines x and does not list it in its own __all__.
    With kept=True: the same but D DOES list x in its own __all__ (the object is to stay where it is defined)."""
    fn = fullnames(case)
    idx = {n: i for i, n in enumerate(fn)}
    out = []
    for r, m in enumerate(case['mods']):
        allr = module_all(m) or []
        if not allr:
            continue
        for st in m['stmts']:
            if st[0] not in ('from', 'star'):
                continue
            t = abs_modname(case, fn, r, st[1], st[2])
            if t not in idx:
                continue
            d = idx[t]
            dm = case['mods'][d]
            alld = module_all(dm)
            ddefs = defs_of(dm)
            if st[0] == 'from':
                pairs = [(o, a if a else o, 'renamed' if (a and a != o) else 'plain') for o, a in st[3]]
            else:
                pub = alld if alld is not None else [x for x in ddefs if not x.startswith('_')]
                pairs = [(x, x, 'star') for x in pub]
            for x, n, how in pairs:
                if n in allr and x in ddefs and (not (alld is not None and x in alld)) != kept:
                    out.append({'R': r, 'D': d, 'x': x, 'n': n, 'how': how})
    return out


def binding_of(case: Any, fn: List[str], mi: int, name: str, depth: int = 0, upto: Optional[int] = None) -> Optional[Tuple[str, Any]]:
    """What the LAST module-level binding of `name` in module mi denotes in Python:
    ('def', module index, name) | ('mod', module index) | ('ext', dotted) ; None when unbound.
    Also returns how it was bound: 'def' | 'from:<module index>' | 'star:<module index>' | 'import' | 'alias'."""
    idx = {n: i for i, n in enumerate(fn)}
    m = case['mods'][mi]
    res: Optional[Tuple[str, Any]] = None
    for st in (m['stmts'] if upto is None else m['stmts'][:upto]):     # upto: only the bindings before that statement
        k = st[0]
        if k in ('class', 'def', 'var') and st[1] == name:
            res = ('def', ('def', mi, name))
        elif k == 'import':
            a = st[2] if st[2] else st[1].split('.')[0]
            if a == name:
                tgt = st[1] if st[2] else st[1].split('.')[0]
                res = ('import', ('mod', idx[tgt]) if tgt in idx else ('ext', tgt))
        elif k == 'from':
            if len(st) > 4 and st[4]:
                continue
            t = abs_modname(case, fn, mi, st[1], st[2])
            for o, a in st[3]:
                if (a if a else o) == name:
                    if t in idx:
                        d = denote_attr(case, fn, idx[t], o, depth + 1)
                        res = ('from:%d' % idx[t], d if d else ('ext', t + '.' + o))
                    else:
                        res = ('from:-1', ('ext', '%s.%s' % (t, o)))
        elif k == 'star':
            t = abs_modname(case, fn, mi, st[1], st[2])
            if t in idx:
                dm = case['mods'][idx[t]]
                alld = module_all(dm)
                pub = alld if alld is not None else [x for x in bound_names(dm) if not x.startswith('_')]
                if name in pub:
                    d = denote_attr(case, fn, idx[t], name, depth + 1)
                    res = ('star:%d' % idx[t], d if d else ('ext', t + '.' + name))
        elif k == 'alias' and st[1] == name:
            res = ('alias', ('ext', st[2]))
    return res


def denote_attr(case: Any, fn: List[str], mi: int, name: str, depth: int) -> Optional[Any]:
    """The entity that attribute `name` of module mi is in Python (sub-modules count as attributes)."""
    if depth > 8:
        return None
    b = binding_of(case, fn, mi, name, depth)
    if b is not None:
        return b[1]
    sub = fn[mi] + '.' + name
    if case['mods'][mi]['pkg'] and sub in fn:
        return ('mod', fn.index(sub))
    return None


def denote(case: Any, fn: List[str], mi: int, dotted: str, upto: Optional[int] = None) -> Tuple[Optional[str], Optional[Any]]:
    """(how the first component is bound in module mi, the entity the whole dotted name denotes).
    upto = i: as seen by statement i of the module (a class statement evaluating its bases): only earlier bindings count."""
    parts = dotted.split('.')
    b = binding_of(case, fn, mi, parts[0], 0, upto)
    if b is None:
        # an absolute dotted name starting at a root module (docstring references by qualified name)
        if parts[0] in fn and case['mods'][fn.index(parts[0])]['parent'] is None:
            how, ent = 'absolute', ('mod', fn.index(parts[0]))
        else:
            return None, None
    else:
        how, ent = b
    for p in parts[1:]:
        if ent is None or ent[0] != 'mod':
            return how, None
        ent = denote_attr(case, fn, ent[1], p, 0)
    return how, ent


def last_binding(case: Any, fn: List[str], mi: int, name: str, upto: Optional[int] = None) -> Optional[Tuple[str, Optional[int], str]]:
    """the last module-level binding of `name` in module mi (before statement `upto`):
    ('def', mi, name) | ('from', <index of the project module imported from or None>, original name) |
    ('star', <module index>, name) | ('import', None, target) | ('alias', None, value)"""
    idx = {n: i for i, n in enumerate(fn)}
    stmts = case['mods'][mi]['stmts']
    res = None
    for st in (stmts if upto is None else stmts[:upto]):
        k = st[0]
        if k in ('class', 'def', 'var') and st[1] == name:
            res = ('def', mi, name)
        elif k == 'import' and (st[2] if st[2] else st[1].split('.')[0]) == name:
            res = ('import', None, st[1])
        elif k == 'from' and not (len(st) > 4 and st[4]):
            t = abs_modname(case, fn, mi, st[1], st[2])
            for o, a in st[3]:
                if (a if a else o) == name:
                    res = ('from', idx.get(t), o)
        elif k == 'star':
            t = abs_modname(case, fn, mi, st[1], st[2])
            if t in idx:
                dm = case['mods'][idx[t]]
                alld = module_all(dm)
                pub = alld if alld is not None else [x for x in bound_names(dm) if not x.startswith('_')]
                if name in pub:
                    res = ('star', idx[t], name)
        elif k == 'alias' and st[1] == name:
            res = ('alias', None, st[2])
    return res


def stale_chain(case: Any, fn: List[str], mi: int, name: str, r: Dict[str, Any], upto: Optional[int] = None,
                depth: int = 0) -> Optional[Tuple[str, int]]:
    """Does the binding of `name` in module mi go, possibly through other modules, through an import of r's object FROM ITS
    DEFINING MODULE under its old name (`from D import x`: the alias is the literal 'D.x', dead after the move; or
    `from D import *`: dead when the star import ran before the move)?  Returns ('from' | 'star', the module holding that
    import).  The re-exporting import itself does not count (it moves the object, it does not leave an alias)."""
    if depth > 8:
        return None
    b = last_binding(case, fn, mi, name, upto)
    if b is None:
        return None
    if mi == r['R'] and name == r['n'] and b[0] in ('from', 'star') and b[1] == r['D']:
        return None
    if b[0] in ('from', 'star'):
        if b[1] == r['D'] and b[2] == r['x']:
            return b[0], mi
        if b[1] is not None:
            return stale_chain(case, fn, b[1], b[2], r, None, depth + 1)
    return None


def via_of(case: Any, fn: List[str], mi: int, dotted: str, r: Dict[str, Any],
           upto: Optional[int] = None) -> Tuple[Optional[str], Optional[str], Optional[int]]:
    """Does `dotted`, written in module mi (as seen by its statement `upto`), denote (in Python) the object re-exported by
    r or one of its members?  Returns (via, expected full name, the module whose import of the defining module matters):
    via in from-D star-D from-R star-R attr-D attr-R local other, or chain-from-D / chain-star-D when the name reaches the
    object through some module's `from D import x` / `from D import *` (e.g. R's own second import of it under the old
    name, looked at through R)."""
    new = fn[r['R']] + '.' + r['n']
    parts = dotted.split('.')
    ddef = defs_of(case['mods'][r['D']])[r['x']]
    members = [m[1] for m in ddef[4]] if ddef[0] == 'class' else []
    for cut in (len(parts), len(parts) - 1):
        if cut < 1:
            continue
        how, ent = denote(case, fn, mi, '.'.join(parts[:cut]), upto)
        if ent != ('def', r['D'], r['x']):
            continue
        suffix = parts[cut:]
        if suffix and (suffix[0] not in members or members.count(suffix[0]) != 1):
            return None, None, None
        expected = '.'.join([new] + suffix)
        holder: Optional[int] = mi
        if cut == 1:
            if how == 'def':
                via = 'local'
            elif how in ('from:%d' % r['D'], 'star:%d' % r['D']):
                via = how.split(':')[0] + '-D'
            elif how in ('from:%d' % r['R'], 'star:%d' % r['R']):
                via = how.split(':')[0] + '-R'
            else:
                via = 'other'
            if via in ('from-R', 'star-R', 'other'):
                ch = stale_chain(case, fn, mi, parts[0], r, upto)
                if ch is not None:
                    via, holder = 'chain-%s-D' % ch[0], ch[1]
        else:
            _, cont = denote(case, fn, mi, '.'.join(parts[:cut - 1]), upto)
            if cont == ('mod', r['D']):
                via = 'attr-D'
            elif cont == ('mod', r['R']):
                via = 'attr-R'
            else:
                via = 'other'
            if cont is not None and cont[0] == 'mod' and cont[1] != r['D']:
                ch = stale_chain(case, fn, cont[1], parts[cut - 1], r)
                if ch is not None:
                    via, holder = 'chain-%s-D' % ch[0], ch[1]
        return via, expected, holder
    return None, None, None


def module_of_scope(fn: List[str], scope: str) -> Optional[int]:
    best = None
    for i, n in enumerate(fn):
        if scope == n or scope.startswith(n + '.'):
            if best is None or len(n) > len(fn[best]):
                best = i
    return best


# ------------------------------------------------------------------------------------------------ generators
def M(name: str, stmts: List[Any], parent: Optional[int] = None, pkg: bool = False, doc: Optional[str] = None) -> Any:
    return {'name': name, 'parent': parent, 'pkg': pkg, 'doc': doc, 'stmts': stmts}


def cls(name: str, bases: Sequence[str] = (), members: Sequence[Any] = (), doc: Any = '') -> Any:
    return ['class', name, ('doc of %s' % name) if doc == '' else doc, list(bases), [list(m) for m in members]]


def frm(mod: str, *names: Any, level: int = 0, optional: bool = False) -> Any:
    st = ['from', level, mod, [[n, None] if isinstance(n, str) else list(n) for n in names]]
    if optional:
        st.append(True)
    return st


def corpus() -> List[Tuple[str, Any]]:
    out: List[Tuple[str, Any]] = []
    # a SUB-MODULE re-exported through __all__ by a module that is not the package's own __init__: `from pkg import core`
    # processes pkg.core on demand BEFORE it is moved, so its relative imports are resolved in its own package whatever the
    # order of the roots (a facade analysed first must not move a still unprocessed module)
    sub_pkg = [M('pkg', [], pkg=True, doc='The package.'),
               M('base', [cls('Base', members=[[0, 'hello', 'Say hello.']])], parent=0),
               M('core', [frm('base', 'Base', level=1), cls('Impl', ['Base'], doc='Implementation.')], parent=0, doc='Core.')]
    out.append(('submodule-reexport-root-facade', {'mods': sub_pkg + [
        M('facade', [frm('pkg', 'core'), ['all', ['core']]], doc='Facade.')],
        'queries': [['facade', 'core.Impl'], ['pkg', 'core.Impl']]}))
    for fac in ('afacade', 'zfacade'):
        out.append(('submodule-reexport-sibling-' + fac, {'mods': sub_pkg + [
            M(fac, [frm('', 'core', level=1), ['all', ['core']]], parent=0, doc='Facade.')],
            'queries': [['pkg.' + fac, 'core.Impl']]}))
    # the stale old name seen THROUGH the re-exporter: R imports the object twice, once under the exported new name (the move)
    # and once under its old name (alias = the dead literal 'D.K4'); a third module writes R.K4
    out.append(('reexport-renamed-old-name-kept-in-R', {'mods': [
        M('m3', [cls('K4', members=[[0, 'a4_0', 'doc a4_0']])]),
        M('m4', [frm('m3', 'K4'), frm('m3', ['K4', 'K4_pub']), cls('K5', ['K4']), ['all', ['K4_pub', 'K5']]], doc='doc of module 4'),
        M('user', [['import', 'm4', None], cls('U', ['m4.K4_pub']), cls('V', ['m4.K4'])])],
        'queries': [['user', 'm4.K4'], ['user', 'm4.K4_pub'], ['m4', 'K4'], ['m4', 'K4_pub']]}))
    # a star-import consumer analysed ON DEMAND from inside the re-exporter, before the re-exporting import runs: its star
    # import copies the pre-move name although the re-exporter was started first
    out.append(('star-consumer-on-demand-before-reexport', {'mods': [
        M('m0', [cls('K1'), cls('K2', ['K1'])], doc='doc of module 0'),
        M('m1', [frm('m3', 'K9'), frm('m0', ['K2', 'K2_pub']), ['all', ['K2_pub']]]),
        M('m3', [['star', 0, 'm0'], cls('K7', ['K2']), cls('K9')], doc='doc of module 3')],
        'queries': [['m3', 'K2'], ['m3.K7', 'K2']]}))
    # an import cycle in which a class is visited while the module of its base is still being processed (base resolved by the
    # second pass of compute_mro, in the scope of the class's PARENT) and the class has a member named like the base
    out.append(('cycle-base-named-like-member', {'mods': [
        M('options', [frm('config', 'Config'), cls('Options', members=[[0, 'get', 'Get an option.']], doc='Container of options.'),
                      ['def', 'default', 'The default configuration.']], doc='Options.'),
        M('config', [frm('options', 'Options'), cls('Config', ['Options'], members=[[1, 'Options', 'the options in use']],
                                                  doc='A configuration.')], doc='Configuration.')],
        'queries': []}))
    # the witness of C06_dup_in_cycle_refuted
    out.append(('dup-in-cycle', {'mods': [
        M('a', [cls('B', doc='first'), frm('b', 'C'), cls('B', doc='second')]),
        M('b', [frm('a', 'B'), cls('C', ['B'])])], 'queries': []}))
    # the witness of C07_reach_via_defining_module_refuted (package re-export, consumer imports from the defining module)
    out.append(('pkg-reexport-consumer-from-D', {'mods': [
        M('pkg', [frm('_impl', 'Foo', level=1), ['all', ['Foo']]], pkg=True, doc='pkg doc'),
        M('_impl', [cls('Foo', members=[[0, 'm', 'doc m'], [1, 'v', None]])], parent=0),
        M('cons', [frm('pkg._impl', 'Foo'), cls('X', ['Foo'], doc='see L{Foo}')], parent=0)],
        'queries': [['pkg.cons', 'Foo'], ['pkg.cons.X', 'Foo'], ['pkg.cons', 'pkg._impl.Foo'], ['pkg.cons', 'pkg.Foo'],
                    ['pkg.cons', 'pkg._impl.Foo.m']]}))
    # 2-cycle and 3-cycle whose bases need the second pass
    out.append(('two-cycle-bases', {'mods': [
        M('a', [frm('b', 'B'), cls('A', ['B'])]),
        M('b', [frm('a', 'A'), cls('B'), cls('B2', ['A'])])], 'queries': []}))
    out.append(('three-cycle-bases', {'mods': [
        M('a', [frm('b', 'B'), cls('A', ['B'])]),
        M('b', [frm('c', 'C'), cls('B', ['C'])]),
        M('c', [frm('a', 'A'), cls('C'), cls('C2', ['A'])])], 'queries': []}))
    # acyclic chain through module aliases and dotted names
    out.append(('acyclic-chain', {'mods': [
        M('base', [cls('Root', members=[[0, 'run', 'doc run']]), ['def', 'helper', 'doc helper'], ['var', 'limit', 'doc limit']]),
        M('mid', [['import', 'base', None], cls('Mid', ['base.Root'])]),
        M('top', [['import', 'mid', 'm'], frm('base', ['Root', 'R']), cls('Top', ['m.Mid', 'R'])])],
        'queries': [['top', 'm.Mid'], ['top.Top', 'R.run'], ['mid', 'base.helper']]}))
    # sibling re-export, renamed, consumers through R, through a module alias and by qualified names
    out.append(('sibling-renamed-reexport', {'mods': [
        M('_core', [cls('Impl', members=[[0, 'go', 'doc go']]), cls('Sub', ['Impl'])]),
        M('api', [frm('_core', ['Impl', 'Public']), ['all', ['Public']]]),
        M('user', [frm('api', 'Public'), ['import', '_core', 'c'], cls('U1', ['Public']), cls('U2', ['c.Impl'])])],
        'queries': [['user', 'Public'], ['user', 'c.Impl'], ['user', '_core.Impl'], ['user', 'api.Public'],
                    ['user', 'c.Impl.go'], ['_core.Sub', 'Impl']]}))
    # star re-export
    out.append(('star-reexport', {'mods': [
        M('_core', [cls('Impl'), ['def', 'tool', 'doc tool'], ['def', '_hidden', None]]),
        M('api', [['star', 0, '_core'], ['all', ['Impl', 'tool']]]),
        M('user', [frm('api', 'Impl', 'tool'), cls('U', ['Impl'])])],
        'queries': [['user', 'Impl'], ['user', 'tool'], ['user', '_core.Impl'], ['user', 'api._hidden']]}))
    # the origin lists the name in its own __all__: nothing moves
    out.append(('origin-lists-name', {'mods': [
        M('_core', [cls('Impl'), ['all', ['Impl']]]),
        M('api', [frm('_core', 'Impl'), ['all', ['Impl']]]),
        M('user', [frm('api', 'Impl'), cls('U', ['Impl'])])], 'queries': [['user', 'Impl'], ['user', 'api.Impl']]}))
    # chain: R re-exports what M imported from D
    out.append(('chain-reexport', {'mods': [
        M('d', [cls('X')]),
        M('m', [frm('d', 'X')]),
        M('r', [frm('m', 'X'), ['all', ['X']]]),
        M('u', [frm('r', 'X'), cls('U', ['X'])])], 'queries': [['u', 'X'], ['m', 'X'], ['u', 'd.X']]}))
    # nested packages and relative imports
    out.append(('nested-relative', {'mods': [
        M('top', [frm('sub', 'leaf', level=1), frm('sub.leaf', 'L', level=1), cls('T', ['L', 'leaf.L2'])], pkg=True),
        M('sub', [frm('', 'leaf', level=1)], parent=0, pkg=True),
        M('leaf', [frm('', 'other', level=2), cls('L'), cls('L2', ['other.O'])], parent=1),
        M('other', [cls('O')], parent=0)], 'queries': [['top.T', 'leaf.L2'], ['top.sub.leaf', 'other.O']]}))
    # relative import that goes too high, unknown modules, import of a non-module
    out.append(('odd-imports', {'mods': [
        M('a', [frm('x', 'y', level=1), frm('nosuch', 'Z'), ['star', 0, 'nosuch'], frm('b.K', 'inner'), cls('A', ['Z', 'y'])]),
        M('b', [cls('K'), ['alias', 'K2', 'K'], ['alias', 'K', 'K2'], ['var', 'K', 'late doc'], ['var', 'w', 'doc w'], ['var', 'w', 'doc w again']])],
        'queries': [['a', 'Z'], ['b', 'K2'], ['a.A', 'y']]}))
    # duplicate definitions without a cycle; duplicate members
    out.append(('dups-acyclic', {'mods': [
        M('a', [cls('B', doc='first', members=[[0, 'm', 'm1'], [0, 'm', 'm2'], [1, 'v', 'v1'], [1, 'v', 'v2'], [1, 'm', 'vm']]),
                cls('B', doc='second'), cls('B', doc='third'), ['def', 'f', 'f1'], ['def', 'f', 'f2']]),
        M('b', [frm('a', 'B', 'f'), cls('C', ['B'])])], 'queries': [['b', 'B'], ['b', 'f']]}))
    # a re-exported object with duplicate members is moved
    out.append(('reexport-dup-members', {'mods': [
        M('d', [cls('X', members=[[0, 'm', 'm1'], [0, 'm', 'm2']])]),
        M('r', [frm('d', 'X'), ['all', ['X']]])], 'queries': []}))
    # star import chain, private names, __all__ restricting a star import
    out.append(('star-chain', {'mods': [
        M('a', [cls('A1'), cls('_A2'), cls('A3'), ['all', ['A1', '_A2']]]),
        M('b', [['star', 0, 'a'], cls('B1', ['A1']), cls('B2', ['_A2']), cls('B3', ['A3']), cls('_B4')]),
        M('c', [['star', 0, 'b'], cls('C1', ['A1', 'B1']), cls('C2', ['_B4'])])], 'queries': [['c', 'A1'], ['c', 'B3']]}))
    # `from pkg import submodule` triggers processing of the submodule; re-export of a function
    out.append(('from-package-import-module', {'mods': [
        M('pkg', [frm('', 'impl', level=1), frm('impl', 'make', level=1), ['all', ['make']]], pkg=True),
        M('impl', [['def', 'make', 'doc make'], cls('Thing')], parent=0),
        M('app', [frm('pkg', 'impl', 'make'), cls('App', ['impl.Thing'])])], 'queries': [['app', 'make'], ['app', 'impl.make']]}))
    # re-export in a cycle: the defining module imports the re-exporter
    out.append(('reexport-in-cycle', {'mods': [
        M('d', [frm('r', 'helper'), cls('X')]),
        M('r', [frm('d', 'X'), ['def', 'helper', None], ['all', ['X']]]),
        M('u', [frm('r', 'X'), cls('U', ['X'])])], 'queries': []}))
    # the defining module also binds the re-exported name by an optional import (accelerator fallback pattern)
    out.append(('reexport-optional-accelerator', {'mods': [
        M('pkg', [frm('_impl', 'Thing', level=1), ['all', ['Thing']]], pkg=True),
        M('_impl', [cls('Thing', members=[[0, 'method', 'doc method']]), frm('_speedups', 'Thing', level=1, optional=True),
                    ['def', 'make', 'returns a L{Thing}']], parent=0),
        M('app', [frm('pkg', '_impl'), ['import', 'pkg._impl', None],
                  cls('Sub', ['_impl.Thing'], doc='old L{pkg._impl.Thing} L{pkg._impl.Thing.method} new L{pkg.Thing}'),
                  cls('Sub2', ['pkg._impl.Thing'], doc=None)])],
        'queries': [['app', 'pkg._impl.Thing'], ['app', '_impl.Thing'], ['app', 'pkg._impl.Thing.method'], ['app', 'pkg.Thing'],
                    ['app.Sub', '_impl.Thing.method']]}))
    # the re-export runs while the defining module is still on the processing stack: the defining module imports its
    # own package at the bottom, and a root module that imports from the defining module is listed first
    out.append(('reexport-mid-defining-module', {'mods': [
        M('app', [frm('pkg._impl', 'make'), ['import', 'pkg._impl', None],
                  cls('Sub', ['pkg._impl.Thing'], doc='old L{pkg._impl.Thing} L{pkg._impl.make} new L{pkg.Thing} L{pkg.make}')]),
        M('pkg', [frm('_impl', 'Thing', 'make', level=1), ['all', ['Thing', 'make']]], pkg=True, doc='The package.'),
        M('_impl', [cls('Thing', members=[[0, 'method', 'doc method']]), ['def', 'make', 'makes a L{Thing}'],
                    frm('', '_util', level=1)], parent=1),
        M('_util', [['def', 'helper', 'doc helper']], parent=1)],
        'queries': [['app', 'pkg._impl.Thing'], ['app', 'pkg._impl.Thing.method'], ['app', 'pkg.Thing'], ['app', 'pkg.make'],
                    ['app', 'pkg._impl.make']]}))
    # re-exporting a root module: reported, not moved
    out.append(('reexport-root-module', {'mods': [
        M('a', [['import', 'b', None]]),
        M('b', [cls('B')]),
        M('c', [frm('a', 'b'), ['all', ['b']], cls('C', ['b.B'])])], 'queries': [['c', 'b.B'], ['c', 'b']]}))
    # `name = dotted.name` is expanded when it is visited; a plain import does not make the module known before
    out.append(('alias-assignment-plain-import', {'mods': [
        M('a', [['import', 'm', None], ['alias', 'x', 'm.B'], cls('K', ['x'])]),
        M('m', [frm('c', 'B')]),
        M('c', [cls('B')])], 'queries': [['a', 'x']]}))
    # star import inside a cycle
    out.append(('star-in-cycle', {'mods': [
        M('a', [cls('A0'), ['star', 0, 'b'], cls('A1', ['B0'])]),
        M('b', [cls('B0'), ['star', 0, 'a'], cls('B1', ['A0']), cls('B2', ['A1'])])], 'queries': []}))
    # C06-stale-defining-module-name in its duplicate-definition variant: the class that refers to the re-exported object
    # through the defining module is defined twice, so the superseded definition lives on as 'm1.K3 0' and differs too
    out.append(('stale-ref-duplicate-class', {'mods': [
        M('m0', [['var', 'v1', 'doc v1'], cls('_K2', members=[[0, 'a2_0', 'doc a2_0'], [1, 'a2_1', 'doc a2_1']])], pkg=True,
          doc='doc of module 0'),
        M('m1', [frm('m0', '_K2'), frm('m0', '_K2'), cls('K3', ['_K2'], members=[[1, 'a3_0', 'doc a3_0'], [0, 'a3_1', None]]),
                 ['def', 'f4', 'doc f4'], cls('K5', ['K3', '_K2']), cls('K3', ['_K2'], doc='second definition of K3')]),
        M('_m2', [frm('m0', '_K2'), frm('m0', ['_K2', 'K2_as2']), cls('K6', ['K2_as2'], members=[[1, 'a6_0', None], [1, 'a6_1', None]]),
                  ['all', ['_K2', 'K6']]], parent=0, pkg=True, doc='doc of module 2')],
        'queries': [['m1.K3', 'm0._K2'], ['m1.K3', 'm1.K3']]}))
    # the witness of C06_rebound_import_in_cycle_refuted: a name imported twice in a module on an import cycle
    out.append(('rebound-import-in-cycle', {'mods': [
        M('a', [frm('c', 'Z'), cls('X', doc='a.X')]),
        M('b', [cls('X', doc='b.X')]),
        M('c', [frm('a', 'X'), cls('K', ['X']), frm('b', 'X'), cls('Z')])], 'queries': []}))
    return out


REEXPORT_LAYOUTS = ('package', 'sibling')
REEXPORT_HOWS = ('plain', 'renamed', 'star')
CONSUMER_KINDS = ('fromD', 'fromR', 'both', 'modalias', 'starD', 'starR')


def reexport_case(layout: str, how: str, consumer: str) -> Any:
    """One point of the C07 domain: one re-exporter (package __init__ or sibling module) x import form x consumer kind."""
    n = 'Pub' if how == 'renamed' else 'Foo'
    dmod = [cls('Foo', members=[[0, 'm', 'doc m'], [1, 'v', 'doc v']]), cls('Bar', ['Foo']), ['def', 'helper', 'doc helper']]
    if layout == 'package':
        Dn, Rn = 'pkg._impl', 'pkg'
        if how == 'star':
            rst = [['star', 1, '_impl'], ['all', [n]]]
        else:
            rst = [frm('_impl', ['Foo', n] if how == 'renamed' else 'Foo', level=1), ['all', [n]]]
        mods = [M('pkg', rst, pkg=True, doc='the package'), M('_impl', dmod, parent=0)]
        cparent: Optional[int] = 0
    else:
        Dn, Rn = '_impl', 'api'
        if how == 'star':
            rst = [['star', 0, '_impl'], ['all', [n]]]
        else:
            rst = [frm('_impl', ['Foo', n] if how == 'renamed' else 'Foo'), ['all', [n]]]
        mods = [M('_impl', dmod), M('api', rst, doc='the api')]
        cparent = None

    def consumer_stmts(tag: str) -> Tuple[List[Any], List[str]]:
        st: List[Any] = []
        idents: List[str] = []
        if consumer in ('fromD', 'both'):
            st.append(frm(Dn, ['Foo', 'FooD'] if consumer == 'both' else 'Foo'))
            loc = 'FooD' if consumer == 'both' else 'Foo'
            st.append(cls('K1' + tag, [loc], doc='uses L{%s} and L{%s.m}' % (loc, loc)))
            idents += [loc, loc + '.m']
        if consumer in ('fromR', 'both'):
            st.append(frm(Rn, [n, 'FooR'] if consumer == 'both' else n))
            loc = 'FooR' if consumer == 'both' else n
            st.append(cls('K2' + tag, [loc], doc='uses L{%s}' % loc))
            idents += [loc, loc + '.m']
        if consumer == 'starD':
            st.append(['star', 0, Dn])
            st.append(cls('K5' + tag, ['Foo'], doc='uses L{Foo}'))
            st.append(cls('K5b' + tag, ['Bar'], doc=None))
            idents += ['Foo', 'Foo.m']
        if consumer == 'starR':
            st.append(['star', 0, Rn])
            st.append(cls('K6' + tag, [n], doc='uses L{%s}' % n))
            idents += [n, n + '.m']
        if consumer == 'modalias':
            st.append(['import', Dn, 'dm'])
            st.append(['import', Rn, 'rm'])
            st.append(cls('K3' + tag, ['dm.Foo'], doc='uses L{dm.Foo}'))
            st.append(cls('K4' + tag, ['rm.' + n], doc='uses L{rm.%s}' % n))
            idents += ['dm.Foo', 'rm.' + n, 'dm.Foo.m']
        st.append(['def', 'use' + tag, 'by name L{%s.Foo} or L{%s.%s}' % (Dn, Rn, n)])
        idents += [Dn + '.Foo', Rn + '.' + n, Dn + '.Foo.m', Rn + '.' + n + '.v']
        return st, idents
    queries = []
    st, idents = consumer_stmts('a')
    mods.append(M('cons', st, parent=cparent))
    cname = ('pkg.cons' if cparent is not None else 'cons')
    for i in idents:
        queries.append([cname, i])
    if layout == 'package':
        st2, idents2 = consumer_stmts('b')
        mods.append(M('user', st2))
        for i in idents2:
            queries.append(['user', i])
    return {'mods': mods, 'queries': queries, 'label': '%s/%s/%s' % (layout, how, consumer)}


def reexport_matrix() -> List[Any]:
    return [reexport_case(l, h, c) for l in REEXPORT_LAYOUTS for h in REEXPORT_HOWS for c in CONSUMER_KINDS]


def small_family(n: int, forms: Sequence[str]) -> List[Any]:
    """Every project of n flat modules m0..m(n-1), module i defining class Ci, with at most one import of another
    module's class (form: 'from' | 'star' | 'mod'), placed before or after the class, used as base or not."""
    names = ['m%d' % i for i in range(n)]
    per_mod: List[List[Any]] = []
    for i in range(n):
        opts: List[Any] = [None]
        for j in range(n):
            if j == i:
                continue
            for form in forms:
                for pos in (0, 1):
                    for base in (0, 1):
                        opts.append((j, form, pos, base))
        per_mod.append(opts)
    out = []
    for combo in itertools.product(*per_mod):
        mods = []
        for i, o in enumerate(combo):
            if o is None:
                mods.append(M(names[i], [cls('C%d' % i)]))
                continue
            j, form, pos, base = o
            if form == 'from':
                imp, ref = frm(names[j], 'C%d' % j), 'C%d' % j
            elif form == 'star':
                imp, ref = ['star', 0, names[j]], 'C%d' % j
            else:
                imp, ref = ['import', names[j], None], '%s.C%d' % (names[j], j)
            c = cls('C%d' % i, [ref] if base else [])
            mods.append(M(names[i], [imp, c] if pos == 0 else [c, imp]))
        case = {'mods': mods, 'queries': []}
        if not inheritance_cycle(case):
            out.append(case)
    return out


def c3_linearise(hier: Dict[int, List[int]], c: int) -> Optional[List[int]]:
    """C3 as CPython does it; None when there is no consistent linearisation."""
    seqs = []
    for b in hier.get(c, []):
        l = c3_linearise(hier, b)
        if l is None:
            return None
        seqs.append(l)
    seqs.append(list(hier.get(c, [])))
    res = [c]
    seqs = [list(x) for x in seqs if x]
    while seqs:
        for x in seqs:
            h = x[0]
            if not any(h in y[1:] for y in seqs):
                break
        else:
            return None
        res.append(h)
        seqs = [[z for z in y if z != h] for y in seqs]
        seqs = [y for y in seqs if y]
    return res


def inheritance_cycle(case: Any) -> bool:
    """Conservative: is there a cycle in the graph class short name -> short names (last components) of its bases?"""
    g: Dict[str, set] = {}
    for m in case['mods']:
        for st in m['stmts']:
            if st[0] == 'class':
                g.setdefault(st[1], set()).update(b.split('.')[-1] for b in st[3])
    seen: Dict[str, int] = {}

    def dfs(x: str) -> bool:
        seen[x] = 1
        for y in g.get(x, ()):
            if seen.get(y) == 1 or (y not in seen and y in g and dfs(y)):
                return True
        seen[x] = 2
        return False
    return any(dfs(x) for x in list(g) if x not in seen)


def random_project(rng: random.Random, nmods: Optional[int] = None, allow_dups: bool = True,
                   allow_cycles: bool = True, reexport_p: float = 0.5) -> Any:
    """A mostly valid project: packages, classes with cross-module bases (acyclic inheritance), every import form,
    __all__ re-exports (at most one re-exporter per object), sometimes duplicate definitions and import cycles."""
    n = nmods or rng.randint(3, 6)
    mods: List[Any] = []
    pk: List[int] = []
    for i in range(n):
        parent = rng.choice(pk) if pk and rng.random() < 0.5 else None
        is_pkg = rng.random() < 0.3
        nm = ('_m%d' if rng.random() < 0.25 else 'm%d') % i
        mods.append(M(nm, [], parent=parent, pkg=is_pkg, doc=('doc of module %d' % i) if rng.random() < 0.3 else None))
        if is_pkg:
            pk.append(i)
    case = {'mods': mods, 'queries': []}
    fn = fullnames(case)
    # definitions: global class order = inheritance order
    classes: List[Tuple[int, str]] = []
    k = 0
    defs: Dict[int, List[Any]] = {i: [] for i in range(n)}
    for i in range(n):
        for _ in range(rng.randint(0, 3)):
            k += 1
            r = rng.random()
            if r < 0.7:
                nm = ('_K%d' if rng.random() < 0.15 else 'K%d') % k
                members = []
                for j in range(rng.randint(0, 2)):
                    members.append([rng.randint(0, 1), 'a%d_%d' % (k, j), 'doc a%d_%d' % (k, j) if rng.random() < 0.6 else None])
                defs[i].append(cls(nm, [], members, doc='doc of %s' % nm))
                classes.append((i, nm))
            elif r < 0.85:
                defs[i].append(['def', 'f%d' % k, 'doc f%d' % k])
            else:
                defs[i].append(['var', 'v%d' % k, 'doc v%d' % k if rng.random() < 0.5 else None])
    # order of module indices used to avoid import cycles when they are not wanted
    rank = list(range(n))
    rng.shuffle(rank)
    imports: Dict[int, List[Any]] = {i: [] for i in range(n)}

    def may_import(i: int, j: int) -> bool:
        return i != j and (allow_cycles or rank[j] < rank[i])

    def ref_to(i: int, j: int, name: str) -> Optional[str]:
        """adds an import to module i that makes `name` of module j accessible; returns the expression to use"""
        if not may_import(i, j):
            return None
        form = rng.choice(['from', 'from', 'fromas', 'mod', 'modas', 'star', 'rel', 'frompkg'])
        tgt = fn[j]
        if form == 'rel':
            # relative form when i and j share a package
            pi = fn[i].split('.')[:-1] if not mods[i]['pkg'] else fn[i].split('.')
            pj = tgt.split('.')
            if pi and pj[:len(pi)] == pi and len(pj) > len(pi):
                imports[i].append(frm('.'.join(pj[len(pi):]), name, level=1))
                return name
            form = 'from'
        if form == 'frompkg':
            if '.' in tgt:
                pkgname, short = tgt.rsplit('.', 1)
                imports[i].append(frm(pkgname, short))
                return short + '.' + name
            form = 'from'
        if form == 'from':
            imports[i].append(frm(tgt, name))
            return name
        if form == 'fromas':
            a = '%s_as%d' % (name.strip('_'), i)
            imports[i].append(frm(tgt, [name, a]))
            return a
        if form == 'mod':
            imports[i].append(['import', tgt, None])
            return tgt + '.' + name
        if form == 'modas':
            a = 'mod%d_%d' % (j, i)
            imports[i].append(['import', tgt, a])
            return a + '.' + name
        imports[i].append(['star', 0, tgt])
        return name
    # bases: acyclic by construction, no repeated base, and only lists that CPython's C3 accepts
    hier: Dict[int, List[int]] = {}
    for ci, (i, nm) in enumerate(classes):
        st = [s for s in defs[i] if s[0] == 'class' and s[1] == nm][0]
        hier[ci] = []
        for _ in range(rng.choice([0, 1, 1, 2])):
            if ci == 0:
                break
            bi = rng.randrange(ci)
            if bi in hier[ci]:
                continue
            hier[ci].append(bi)
            if c3_linearise(hier, ci) is None:
                hier[ci].pop()
                continue
            bj, bn = classes[bi]
            if bj == i:
                st[3].append(bn)
            else:
                r = ref_to(i, bj, bn)
                if r:
                    st[3].append(r)
                else:
                    hier[ci].pop()
        if rng.random() < 0.08:
            st[3].append('nosuch.Base')
    # re-exports: each object at most one re-exporter
    taken = set()
    for r in range(n):
        if rng.random() < reexport_p:
            exported = []
            for _ in range(rng.randint(1, 2)):
                cands = [(j, s[1]) for j in range(n) if may_import(r, j) for s in defs[j]
                         if s[0] in ('class', 'def', 'var') and (j, s[1]) not in taken]
                if not cands:
                    break
                j, x = rng.choice(cands)
                taken.add((j, x))
                how = rng.choice(['plain', 'plain', 'renamed', 'star'])
                if how == 'plain':
                    imports[r].append(frm(fn[j], x))
                    exported.append(x)
                elif how == 'renamed':
                    a = x.strip('_') + '_pub'
                    imports[r].append(frm(fn[j], [x, a]))
                    exported.append(a)
                else:
                    imports[r].append(['star', 0, fn[j]])
                    exported.append(x)
            own = [s[1] for s in defs[r] if s[0] in ('class', 'def', 'var') and rng.random() < 0.5]
            if exported:
                defs[r].append(['all', exported + own])
        elif rng.random() < 0.15 and defs[r]:
            defs[r].append(['all', [s[1] for s in defs[r] if s[0] != 'all' and rng.random() < 0.7]])
    # extra random imports (these create the cycles) and aliases
    for i in range(n):
        for _ in range(rng.choice([0, 0, 1, 2])):
            j = rng.randrange(n)
            if may_import(i, j):
                names = [s[1] for s in defs[j] if s[0] in ('class', 'def', 'var')]
                if names and rng.random() < 0.85:
                    ref_to(i, j, rng.choice(names))
                else:
                    imports[i].append(frm(fn[j], 'missing%d' % i))
        if rng.random() < 0.1 and classes:
            defs[i].append(['alias', 'al%d' % i, rng.choice(classes)[1]])
    # duplicates
    if allow_dups and rng.random() < 0.2:
        i = rng.randrange(n)
        cl = [s for s in defs[i] if s[0] == 'class']
        if cl:
            d = json.loads(json.dumps(rng.choice(cl)))
            d[2] = 'second definition of %s' % d[1]
            d[4] = []
            defs[i].append(d)
    # statement order: imports mostly first, sometimes in between (late imports)
    for i in range(n):
        body = list(defs[i])
        for imp in imports[i]:
            if rng.random() < 0.75:
                body.insert(0, imp)
            else:
                body.insert(rng.randint(0, len(body)), imp)
        mods[i]['stmts'] = body
    # queries
    qs = []
    scopes = list(fn)
    for i in range(n):
        for s in defs[i]:
            if s[0] == 'class':
                scopes.append(fn[i] + '.' + s[1])
    for _ in range(rng.randint(2, 6)):
        sc = rng.choice(scopes)
        mi = module_of_scope(fn, sc)
        bn = bound_names(mods[mi]) if mi is not None else []
        r = rng.random()
        if r < 0.5 and bn:
            ident = rng.choice(bn)
            if rng.random() < 0.4 and classes:
                ident += '.' + rng.choice(classes)[1]
        elif classes:
            j, x = rng.choice(classes)
            ident = fn[j] + '.' + x
        else:
            ident = rng.choice(fn)
        qs.append([sc, ident])
    case['queries'] = qs
    return case


# ------------------------------------------------------------------------------------------------ raw (oracle only) projects
RAW_BASE = ('class Base:\n    """The base."""\n    def run(self):\n        """Run it."""\n'
            '    def stop(self):\n        """Stop it."""\n')
RAW_OTHER = 'class Mixin:\n    """The mixin."""\n    def ping(self):\n        """Ping."""\n'


def raw_app(imports: Sequence[str], bases: Sequence[str], body_rebind: Sequence[Tuple[str, str]],
            self_rebind: Sequence[str]) -> str:
    L = list(imports) + ['', 'def traced(f):', '    return f', '', 'class Job(%s):' % ', '.join(bases), '    """A job."""']
    for name, expr in body_rebind:
        L.append('    %s = traced(%s)' % (name, expr))
    L.append('    own = 1')
    L.append('    def __init__(self):')
    for name in self_rebind:
        L.append('        self.%s = traced(self.%s)' % (name, name))
    L.append('        self.fresh = 1')
    return '\n'.join(L) + '\n'


def raw_cases() -> List[Any]:
    """Projects outside the model (Class.find / _maybeAttribute): a root module, added BEFORE the package, that imports a
    sub-module of the package (aliased or not) and re-binds methods inherited through that module alias. What is
    documented must not depend on whether the root module or the package is analysed first."""
    out = []

    def proj(label: str, app_src: str, nested: bool = False) -> Any:
        mods = [{'name': 'app', 'parent': None, 'pkg': False, 'doc': None, 'stmts': [], 'src': app_src},
                {'name': 'pkg', 'parent': None, 'pkg': True, 'doc': None, 'stmts': [], 'src': ''}]
        if nested:
            mods.append({'name': 'sub', 'parent': 1, 'pkg': True, 'doc': None, 'stmts': [], 'src': ''})
            par = 2
        else:
            par = 1
        mods.append({'name': 'base', 'parent': par, 'pkg': False, 'doc': None, 'stmts': [], 'src': RAW_BASE})
        mods.append({'name': 'other', 'parent': par, 'pkg': False, 'doc': None, 'stmts': [], 'src': RAW_OTHER})
        return {'mods': mods, 'queries': [], 'raw': True, 'label': 'raw/' + label}
    P_ = 'pkg'
    for nested in (False, True):
        pk = 'pkg.sub' if nested else 'pkg'
        tag = 'nested-' if nested else ''
        out.append(proj(tag + 'from-package-as', raw_app(['from %s import base as b' % pk], ['b.Base'],
                                                       [('run', 'b.Base.run')], ['stop']), nested))
        out.append(proj(tag + 'from-package', raw_app(['from %s import base' % pk], ['base.Base'],
                                                    [('run', 'base.Base.run')], ['stop']), nested))
        out.append(proj(tag + 'from-package-two', raw_app(['from %s import base as b, other as o' % pk], ['b.Base', 'o.Mixin'],
                                                        [('run', 'b.Base.run'), ('ping', 'o.Mixin.ping')], ['stop', 'ping']), nested))
        out.append(proj(tag + 'from-module-name', raw_app(['from %s.base import Base' % pk], ['Base'],
                                                        [('run', 'Base.run')], ['stop']), nested))
        out.append(proj(tag + 'plain-import-as', raw_app(['import %s.base as b' % pk], ['b.Base'],
                                                       [('run', 'b.Base.run')], ['stop']), nested))
    # the same cycle with a NESTED CLASS named like the base (nested classes are outside the model)
    out.append({'mods': [
        {'name': 'options', 'parent': None, 'pkg': False, 'doc': None, 'stmts': [],
         'src': '"""Options."""\nfrom config import Config\nclass Options:\n    """Container of options."""\n    def get(self, name):\n'
                '        """Get an option."""\ndef default() -> Config:\n    """The default configuration."""\n'},
        {'name': 'config', 'parent': None, 'pkg': False, 'doc': None, 'stmts': [],
         'src': '"""Configuration."""\nfrom options import Options\nclass Config(Options):\n    """A configuration."""\n'
                '    class Options:\n        """Nested, named like the base."""\n'}],
        'queries': [], 'raw': True, 'label': 'raw/cycle-base-named-like-nested-class'})
    # exception hierarchies spread over modules reached through plain imports and dotted base expressions
    def exc_proj(label: str, root_last: bool) -> Any:
        mods = [{'name': 'pkg', 'parent': None, 'pkg': True, 'doc': None, 'stmts': [], 'src': ''},
                {'name': 'errors', 'parent': 0, 'pkg': False, 'doc': None, 'stmts': [],
                 'src': 'class BaseError(Exception):\n    "Base of all errors."\nclass InputError(BaseError, ValueError):\n    "Bad input."\n'},
                {'name': 'handlers', 'parent': 0, 'pkg': False, 'doc': None, 'stmts': [],
                 'src': 'import pkg.errors\nclass HandlerError(pkg.errors.BaseError):\n    "A handler failed."\n'
                        'class DeepHandlerError(HandlerError):\n    "A nested handler failed."\n'},
                {'name': 'tools', 'parent': 0, 'pkg': False, 'doc': None, 'stmts': [],
                 'src': 'from pkg import errors\nimport pkg.handlers as h\nclass ToolError(errors.BaseError):\n    "A tool failed."\n'
                        'class DeepToolError(h.DeepHandlerError):\n    "Three levels."\nclass NotAnError:\n    "Just a class."\n'}]
        cli = {'name': 'cli', 'parent': None, 'pkg': False, 'doc': None, 'stmts': [],
               'src': 'import pkg.tools\nimport pkg.errors as e\nclass CliError(pkg.tools.DeepToolError):\n    "Four levels."\n'
                      'class UsageError(e.InputError):\n    "Usage."\nclass Plain(pkg.tools.NotAnError):\n    "Plain."\n'}
        if root_last:
            mods.append(cli)
        else:
            mods = [cli] + mods
            for m in mods[2:]:
                m['parent'] = 1
        return {'mods': mods, 'queries': [], 'raw': True, 'label': 'raw/' + label}
    out.append(exc_proj('exceptions-root-last', True))
    out.append(exc_proj('exceptions-root-first', False))
    out.append(proj('from-package-as-late-class', 'from pkg import other as o\n' +
                    raw_app(['from pkg import base as b'], ['b.Base', 'o.Mixin'], [('stop', 'b.Base.stop')], ['run', 'ping'])))
    return out
