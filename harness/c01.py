"""C01 -- a run never aborts: any source tree is analysed and rendered to the end."""
from __future__ import annotations
import itertools, json
from typing import Any, Dict, List, Optional
import lib
from lib import PropertyCheck, Violation, enc, dec


def calls_of(mods: List[Any]) -> Dict[str, List[str]]:
    """The getProcessedModule(target) calls the visitor makes for each module, derived syntactically:
    `from T import n` -> [T] + [T.n] if T is a package of the project."""
    pk = {m[0] for m in mods if m[3]}
    out = {}
    for name, ok, imps, is_pkg, parent in mods:
        calls = []
        for tgt, nm in imps:
            calls.append(tgt)
            if tgt in pk:
                calls.append(tgt + '.' + nm)
        out[name] = calls
    return out


def to_model(case: Any) -> str:
    mods = case['mods']
    ids = {m[0]: i + 1 for i, m in enumerate(mods)}
    calls = calls_of(mods)
    return enc([0, [[ids[m[0]], 1 if m[1] else 0, [ids.get(t, 0) for t in calls[m[0]]]] for m in mods],
                [ids[n] for n in case['order']]])


def canon_model(case: Any, out: Any) -> Any:
    mods = case['mods']
    names = {i + 1: m[0] for i, m in enumerate(mods)}
    if out[0] != 0:
        return {'kind': out[0], 'detail': out[1]}
    states, reports, trace, unproc, stack = out[1]
    tr = []
    for tag, m in trace:
        if tag == 0:
            tr.append([0, names[m]])
        elif tag == 1:
            tr.append([1, names[m]])
        else:                       # report = the module was entered and left without a walk
            tr.append([0, names[m]])
            tr.append([1, names[m]])
    return {'kind': 0, 'states': [[names[i], s] for i, s in states], 'reports': [names[r] for r in reports],
            'trace': tr, 'unproc': [names[u] for u in unproc], 'stack': [names[u] for u in stack]}


def oracle_proc(case: Any, r: Any) -> Optional[str]:
    """C01 on the work-list machine, stated on the observation of the real System."""
    if r['kind'] != 0:
        return 'exception escaped System.process(): %s' % r.get('exc')
    if r['unproc'] or r['stack']:
        return 'unprocessed/processing lists not drained: %s %s' % (r['unproc'], r['stack'])
    starts = [n for t, n in r['trace'] if t == 0]
    for name, ok, *_ in case['mods']:
        st = dict((a, b) for a, b in r['states'])[name]
        if starts.count(name) != 1:
            return 'module %s processed %d times' % (name, starts.count(name))
        if ok and st != 2:
            return 'parseable module %s not PROCESSED (state %d)' % (name, st)
        if not ok and r['reports'].count(name) != 1:
            return 'unparsable module %s reported %d times' % (name, r['reports'].count(name))
        if ok and name in r['reports']:
            return 'parseable module %s reported as unparsable' % name
    return None


class Check(PropertyCheck):
    id = 'C01'
    props_module = 'Props.C01'
    models = {'proc': 'XProc.v', 'proc_ir': 'XProcIR.v'}
    needs_gen = True
    gen_modules = ['gen_skeleton', 'gen_c01_code', 'gen_c01_exit']
    rule = ('(A) import graphs: every project of <= N flat modules x <= K imports each (targets: any module incl. itself, or an '
            'unknown name) x parse flag per module, plus random projects with packages, cycles and all processing orders '
            'sampled; non-trivial = at least one import edge AND (a cycle or an unparsable module); '
            '(B) fault injection into every barrier function; (C) exit-status table; (D) token/line-mutated real source '
            'files through `python -m pydoctor` in a subprocess')
    trusted_base = [
        'Coq 8.16.1 kernel; vm_compute used for skeletons_checked and the Example; no native_compute; no axioms',
        'translator harness/gen/gen_c01_code.py (fail-closed; bodies of System.processModule / getProcessedModule / process -> '
        'Gen/ProcCode.v in the statement language of Model/ProcIR.v, whose interpreter is the stated meaning of the Python '
        'statements it covers; primitives: parseString/parseFile, processModuleAST = the listed getProcessedModule calls, '
        '_introspectThing/msg/progress/postProcess without effect on the modelled state)',
        'translator harness/gen/gen_c01_exit.py (fail-closed; the exit-status region of driver.main -> Gen/ExitCode.v, language and '
        'primitives in Model/ExitIR.v; C01_code_exit_status_is_model)',
        'translator harness/gen/gen_skeleton.py (fail-closed; prints the try/except skeleton and the live exception class table)',
        'oracle contract `allowed_table` in Gen/Skeleton.v: what each designated risky call may raise (stated, not proved)',
        'extraction ExtrOcamlBasic only + coq/ocaml/driver.ml',
        'harness/c01.py and harness/impl/c01_*.py',
        'modelled not verified: the visitor issues exactly the getProcessedModule calls derived from `from T import n`; '
        'statements outside the designated risky calls do not raise; CPython ast / docutils / astor / twisted / lunr '
        'internals (exceptions, recursion depth, regex backtracking) are only sampled by stream D',
    ]
    assumptions = ['see trusted_base: oracle contract of risky calls; non-risky statements of barrier functions do not raise']
    manifest = {
        'text': ('Tie to the source: the bodies of System.processModule/getProcessedModule/process are translated from the current '
                 'model.py on every run and C01_code_process_module_is_model / C01_code_process_is_model prove that interpreting them '
                 'is the machine below (C01_code_process_total restates the result on the translated code). '
                 'Theorems: the module work-list machine (System.process/processModule/getProcessedModule, re-entrant through '
                 'imports) terminates for every project and order without tripping an assert, drains the list, and each module '
                 'ends PROCESSED iff it parsed, reported exactly once otherwise (C01_process_total); an unparsable file does not '
                 'affect other modules (C01_bad_file_isolated); exit status is 0/2/3 by the documented rule (C01_exit_status); a '
                 'sound escape analysis (C01_barrier_sound) applied to the try/except skeletons REGENERATED from /repo on every run '
                 'shows no exception within the oracle contract escapes the ten barrier functions (C01_barrier_total). Tie: '
                 'exhaustive/random trace correspondence of the machine with the real System, fault injection into the real barrier '
                 'functions, exit-status runs of driver.main, and a mutated-source stream through the CLI.'),
        'note': ('Partial: exception-freedom/termination INSIDE CPython ast, docutils, astor, twisted, lunr cannot be exhibited by a '
                 'model of pydoctor and is only sampled (stream D). Trusted: Coq kernel, gen_skeleton.py, the allowed_table contract, '
                 'extraction, harness.'),
        'technique': 'Coq proof (state-machine invariant on fuel; sound escape analysis over regenerated try/except skeletons) + correspondence + fault injection',
    }

    # ------------------------------------------------------------------ generators
    def graph_cases(self) -> List[Any]:
        out = []
        def flat(n: int, k: int) -> None:
            names = ['m%d' % i for i in range(n)]
            targets = names + ['nosuch']
            per_mod = []
            for L in range(k + 1):
                per_mod.extend(itertools.product(targets, repeat=L))
            opts = [(imps, ok) for imps in per_mod for ok in (True, False)]
            for combo in itertools.product(opts, repeat=n):
                mods = [[names[i], combo[i][1], [[t, 'x'] for t in combo[i][0]], False, None] for i in range(n)]
                out.append({'mods': mods, 'order': list(names)})
        if self.tier == 'quick':
            flat(1, 2); flat(2, 2); flat(3, 1)
            self.stats['exhaustive_bound'] = 'n<=2,k<=2 and n=3,k<=1'
        else:
            flat(1, 2); flat(2, 2); flat(3, 2); flat(4, 1)
            self.stats['exhaustive_bound'] = 'n<=3,k<=2 and n=4,k<=1'
        self.exhaustive = True
        nex = len(out)
        # random: packages, longer import lists, all/sampled orders
        nrand = 300 if self.tier == 'quick' else 5000
        for _ in range(nrand):
            n = self.rng.randint(2, 7)
            mods = []
            pk: List[str] = []
            for i in range(n):
                parent = self.rng.choice(pk) if pk and self.rng.random() < 0.5 else None
                is_pkg = self.rng.random() < 0.35
                short = 'm%d' % i
                full = (parent + '.' + short) if parent else short
                mods.append([full, self.rng.random() < 0.8, [], is_pkg, parent])
                if is_pkg:
                    pk.append(full)
            allnames = [m[0] for m in mods]
            for m in mods:
                for _ in range(self.rng.randint(0, 4)):
                    t = self.rng.choice(allnames + ['nosuch', 'os.path'])
                    kids = [x.rsplit('.', 1)[1] for x in allnames if x.startswith(t + '.') and '.' not in x[len(t) + 1:]]
                    nm = self.rng.choice(kids + ['x']) if kids else 'x'
                    m[2].append([t, nm])
            order = list(allnames)
            self.rng.shuffle(order)
            out.append({'mods': mods, 'order': order})
        self.stats['graphs_exhaustive'] = nex
        self.stats['graphs_random'] = nrand
        return out

    # ------------------------------------------------------------------ check
    def correspondence(self) -> List[Violation]:
        out: List[Violation] = []
        # A. work-list machine
        cases = self.graph_cases()
        impl = lib.run_impl_worker('c01_proc.py', cases, jobs=16)
        mod = self.model('proc', [to_model(c) for c in cases])
        # third leg: the interpretation of the code TRANSLATED from model.py (Gen/ProcCode.v)
        mod_ir = self.model('proc_ir', [to_model(c) for c in cases])
        for c, r, mi in zip(cases, impl, mod_ir):
            mm = canon_model(c, dec(mi))
            if r != mm and len([v for v in out if v.kind == 'correspondence']) < 5:
                out.append(Violation('correspondence', 'the code translated from model.py (Gen/ProcCode.v, interpreted by Model.ProcIR) '
                                     'and System.process disagree: the translator or the statement language misrepresents the source',
                                     case={'proc': c}, expected=mm, observed=r))
        nt = 0
        for c, r, m in zip(cases, impl, mod):
            mm = canon_model(c, dec(m))
            has_edge = any(x[2] for x in c['mods'])
            bad = any(not x[1] for x in c['mods'])
            if has_edge and (bad or len(c['mods']) > 1):
                nt += 1
            self.count('mods_%d' % len(c['mods']))
            if r['kind'] != 0:
                self.count('impl_exception')
            if r != mm and len([v for v in out if v.kind == 'correspondence']) < 10:
                out.append(Violation('correspondence', 'Model.Proc and System.process disagree', case={'proc': c},
                                     expected=mm, observed=r))
            o = oracle_proc(c, r)
            if o and len([v for v in out if v.kind == 'oracle']) < 10:
                out.append(Violation('oracle', o, case={'proc': c}, observed=r))
        self.evaluations += len(cases)
        self.stats['distinct_nontrivial'] = nt
        self.sample({'proc': cases[len(cases) // 2]})
        self.sample({'proc': cases[-1]})
        # B. fault injection into the barrier functions, C. exit status
        res = lib.run_impl_worker('c01_barriers.py', {'tier': self.tier, 'seed': self.seed}, timeout=1800)
        self.stats['barrier_injections'] = res['injections']
        self.stats['barrier_functions'] = res['functions']
        self.stats['exit_status_runs'] = res['exit_runs']
        self.evaluations += res['injections'] + res['exit_runs']
        for f in res['failures'][:6]:
            out.append(Violation('oracle', f['what'], case={'barrier': f['case']}, observed=f.get('observed')))
        st_cases = [[d, o, v, w] for d in (0, 1, 3) for o in (0, 2) for v in (0, 1, 5) for w in (0, 1)]
        st_model = self.model('proc', [enc([1] + c) for c in st_cases])
        for c, m in zip(st_cases, st_model):
            want = 3 if (c[2] and c[3]) else (2 if (c[0] or c[1]) else 0)
            if dec(m) != want:
                out.append(Violation('correspondence', 'exit_status model disagrees with the documented rule',
                                     case={'exit': c}, expected=want, observed=dec(m), found_input=False))
        for r in res['exit_observed']:
            m = dec(self.model('proc', [enc([1, r['docstring_errs'], r['other_errs'], r['violations'], r['W']])])[0])
            if m != r['status']:
                out.append(Violation('correspondence', 'driver.main exit status differs from Model.Proc.exit_status',
                                     case={'exitrun': r}, expected=m, observed=r['status']))
            if r['status'] not in (0, 2, 3):
                out.append(Violation('oracle', 'driver.main returned undocumented status %r' % r['status'], case={'exitrun': r}))
        # D. mutated real sources through the CLI
        nproj = 24 if self.tier == 'quick' else 400
        res = lib.run_impl_worker('c01_cli.py', {'projects': nproj, 'seed': self.seed, 'jobs': 16}, timeout=3400)
        self.stats['cli_projects'] = res['projects']
        self.stats['cli_files'] = res['files']
        self.stats['cli_unparsable_files'] = res['unparsable']
        self.stats['cli_status_hist'] = res['status_hist']
        self.evaluations += res['projects']
        for f in res['failures'][:4]:
            out.append(Violation('oracle', f['what'], case={'cli': f['case']}, observed=f.get('observed')))
        if res.get('sample'):
            self.sample({'cli': res['sample']})
        return out

    def search(self, broken: List[Violation]) -> List[Violation]:
        # broken proof obligation (e.g. a narrowed except): the fault-injection worker already tries every
        # class below the contract bound; widen it to the thorough class list and more CLI projects
        res = lib.run_impl_worker('c01_barriers.py', {'tier': 'thorough', 'seed': self.seed + 1}, timeout=1800)
        out = [Violation('oracle', f['what'], case={'barrier': f['case']}, observed=f.get('observed'))
               for f in res['failures'][:3]]
        if not out:
            res = lib.run_impl_worker('c01_cli.py', {'projects': 120, 'seed': self.seed + 7, 'jobs': 16}, timeout=3400)
            out = [Violation('oracle', f['what'], case={'cli': f['case']}, observed=f.get('observed'))
                   for f in res['failures'][:3]]
        return out

    def replay(self, data: Any) -> int:
        case = data['input']
        if 'proc' in case:
            r = lib.run_impl_worker('c01_proc.py', [case['proc']])[0]
            o = oracle_proc(case['proc'], r)
            print('observed:', json.dumps(r)); print('property:', o or 'holds on this input')
            return 1 if o else 0
        if 'barrier' in case:
            res = lib.run_impl_worker('c01_barriers.py', {'only': case['barrier']})
            print(json.dumps(res, indent=1)); return 1 if res['failures'] else 0
        if 'cli' in case:
            res = lib.run_impl_worker('c01_cli.py', {'replay': case['cli']})
            print(json.dumps(res, indent=1)[:4000]); return 1 if res['failures'] else 0
        if 'exitrun' in case or 'exit' in case:
            res = lib.run_impl_worker('c01_barriers.py', {'tier': 'quick', 'seed': self.seed})
            bad = 0
            for r in res['exit_observed']:
                want = 3 if (r['violations'] and r['W']) else (2 if (r['docstring_errs'] or r['other_errs']) else 0)
                print(r, 'documented status:', want)
                bad += (r['status'] != want)
            return 1 if bad else 0
        print('nothing to replay for', list(case)); return 2
