"""C07 -- a re-exported object is documented once, where exported, and stays reachable."""
from __future__ import annotations
import json, random
from typing import Any, Dict, List, Optional, Tuple
import lib
from lib import PropertyCheck, Violation, dec
import c06_lib as P
import c06

WORKER = c06.WORKER
KNOWN_VIAS = ('from-D', 'star-D')


def reaches(case: Any) -> Dict[int, set]:
    edges = P.import_edges(case)
    n = len(case['mods'])
    reach = {i: set(edges[i]) for i in range(n)}
    changed = True
    while changed:
        changed = False
        for i in range(n):
            new = set(reach[i])
            for j in list(reach[i]):
                new |= reach[j]
            if new != reach[i]:
                reach[i] = new
                changed = True
    return reach


def claimed_reexports(case: Any) -> List[Dict[str, Any]]:
    """The re-exports the property speaks about: one re-exporter for the object, and the defining module does not
    (transitively) import the re-exporter BEFORE it defines the object (otherwise the object may not exist yet when the
    re-exporter is analysed -- such a program does not import in Python either). An import of the own package placed
    after the definitions is fine."""
    rx = P.reexports(case)
    keys = [(r['D'], r['x']) for r in rx]
    reach = reaches(case)
    fn = P.fullnames(case)
    idx = {nm: i for i, nm in enumerate(fn)}
    out = []
    for r in rx:
        if keys.count((r['D'], r['x'])) != 1 or r['R'] == r['D']:
            continue
        early: set = set()
        for st in case['mods'][r['D']]['stmts']:
            if st[0] in ('class', 'def', 'var') and st[1] == r['x']:
                break
            if st[0] in ('from', 'star'):
                t = P.abs_modname(case, fn, r['D'], st[1], st[2])
                if t in idx:
                    early.add(idx[t])
                    if st[0] == 'from' and case['mods'][idx[t]]['pkg']:
                        early.update(idx[t + '.' + o] for o, a in st[3] if t + '.' + o in idx)
        if any(e == r['R'] or r['R'] in reach[e] for e in early):
            continue
        # a re-exporter that binds the exported name more than once, or a defining module that binds x more than once,
        # is outside "each object has at most one re-exporter"
        if P.bound_names(case['mods'][r['R']]).count(r['n']) != 1 or P.bound_names(case['mods'][r['D']]).count(r['x']) != 1:
            continue
        out.append(r)
    return out


last_binding, stale_chain, via_of = P.last_binding, P.stale_chain, P.via_of


def oracle_one(case: Any, dump: Any) -> List[Dict[str, Any]]:
    """C07 on one run of the real tool: failures as dicts {kind, via, what}."""
    fails: List[Dict[str, Any]] = []
    if 'exc' in dump:
        return [{'kind': 'abort', 'via': None, 'what': 'the run aborts: %s' % dump['exc']}]
    fn = P.fullnames(case)
    objects, scopes = dump['objects'], dump['scopes']
    seen = dump.get('order_seen', [])

    events = dump.get('events')

    def before(mi: Optional[int], r: Any) -> bool:
        """did the star import of the defining module in module mi finish BEFORE the re-export moved the object? (then the
        name it copied is the pre-move name).  From the events recorded during the run; without them: was mi started
        before the re-exporter."""
        if mi is None:
            return False
        if events is not None:
            new = fn[r['R']] + '.' + r['n']
            mv = [i for i, e in enumerate(events) if e[0] == 'move' and e[1] == new]
            if not mv:
                return False
            return any(e[0] == 'star-done' and e[1] == fn[mi] and e[2] == fn[r['D']] for e in events[:mv[0]])
        a, b = fn[mi], fn[r['R']]
        return a in seen and b in seen and seen.index(a) < seen.index(b)
    # the defining module exports the name itself: the object stays documented where it is defined
    moved_away = {(r['D'], r['x']) for r in P.reexports(case)}
    for r in P.reexports(case, kept=True):
        if (r['D'], r['x']) in moved_away or r['R'] == r['D']:
            continue
        if P.bound_names(case['mods'][r['D']]).count(r['x']) != 1:
            continue
        # only when the direct import is the only way the name reaches R (a star import of a third module that
        # imported it may legitimately move it: that module does not list it)
        if P.bound_names(case['mods'][r['R']]).count(r['n']) != 1 or any(st[0] == 'star' for st in case['mods'][r['R']]['stmts']):
            continue
        old = fn[r['D']] + '.' + r['x']
        new = fn[r['R']] + '.' + r['n']
        ddef = P.defs_of(case['mods'][r['D']])[r['x']]
        # (the object may legitimately be moved by a module that imports it from a THIRD module which does not list it)
        if old not in objects and new in objects and ddef[2] is not None and objects[new][2] == ddef[2]:
            fails.append({'kind': 'kept', 'via': None, 'what': '%s is listed in the __all__ of its defining module %s, yet the '
                          'import of it from there by %s moved it to %s' % (r['x'], fn[r['D']], fn[r['R']], new)})
    for r in claimed_reexports(case):
        Rn, Dn = fn[r['R']], fn[r['D']]
        new, old = Rn + '.' + r['n'], Dn + '.' + r['x']
        ddef = P.defs_of(case['mods'][r['D']])[r['x']]
        tag = '%s -> %s' % (old, new)
        # documented once, where exported
        if new not in objects:
            fails.append({'kind': 'location', 'via': None, 'what': '%s: nothing is registered as %s' % (tag, new)})
        elif ddef[2] is not None and objects[new][2] != ddef[2]:
            fails.append({'kind': 'location', 'via': None, 'what': '%s: %s is not the re-exported object (docstring %r)'
                          % (tag, new, objects[new][2])})
        if ddef[0] == 'class':
            names = [m[1] for m in ddef[4]]
            for mk, mn, md in ddef[4]:
                if names.count(mn) == 1 and new + '.' + mn not in objects:
                    fails.append({'kind': 'location', 'via': None, 'what': '%s: member %s.%s is not registered' % (tag, new, mn)})
        stale = [k for k in objects if k == old or k.startswith(old + '.')]
        if stale:
            names = [m[1] for m in ddef[4]] if ddef[0] == 'class' else []
            only_dups = all(k.startswith(old + '.') and ' ' in k[len(old) + 1:] and '.' not in k[len(old) + 1:]
                            and names.count(k[len(old) + 1:].rsplit(' ', 1)[0]) > 1 for k in stale)
            fails.append({'kind': 'stale-dup-member' if only_dups else 'location', 'via': None,
                          'what': '%s: still registered under the defining module: %s' % (tag, stale)})
        if Dn in scopes and r['x'] in scopes[Dn][0]:
            fails.append({'kind': 'location', 'via': None, 'what': '%s: %s is still in the contents of %s' % (tag, r['x'], Dn)})
        if Rn in scopes and r['n'] not in scopes[Rn][0]:
            fails.append({'kind': 'location', 'via': None, 'what': '%s: %s is not in the contents of %s' % (tag, r['n'], Rn)})
        if ddef[2] is not None:
            twins = [k for k, v in objects.items() if v[2] == ddef[2] and v[0] == objects.get(new, [None])[0] and k != new]
            if twins:
                fails.append({'kind': 'location', 'via': None, 'what': '%s: documented more than once: %s' % (tag, twins)})
        # every reference that names either location leads to it
        for mi, m in enumerate(case['mods']):
            for si, st in enumerate(m['stmts']):
                if st[0] != 'class':
                    continue
                for pos, b in enumerate(st[3]):
                    # a base expression only sees the bindings made before the class statement
                    via, expected, holder = via_of(case, fn, mi, b, r, si)
                    if via is None or via == 'other':
                        continue
                    keys = [fn[mi] + '.' + st[1]]
                    rr = [q for q in P.reexports(case) if q['D'] == mi and q['x'] == st[1]]
                    keys += [fn[q['R']] + '.' + q['n'] for q in rr]
                    ent = next((objects[k] for k in keys if k in objects and objects[k][0] == 'Class'
                                and objects[k][2] == st[2]), None)
                    if ent is None or ent[5] is None or pos >= len(ent[5]):
                        continue
                    if ent[5][pos] != expected:
                        fails.append({'kind': 'base', 'via': via, 'moved_class': bool(rr), 'before_R': before(holder, r),
                                      'what': 'base %r of class %s.%s (%s)%s resolves to %r, not to %s'
                                              % (b, fn[mi], st[1], via, ', a class that is itself moved by a re-export,' if rr else '',
                                                 ent[5][pos], expected)})
        for q, ans in zip(case.get('queries', []), dump.get('answers', [])):
            if ans is None:
                continue
            mi = P.module_of_scope(fn, q[0])
            if mi is None:
                continue
            via, expected, holder = via_of(case, fn, mi, q[1], r)
            if via is None or via == 'other':
                continue
            for ch, idx in (('resolveName', 1), ('link_to', 2), ('xref', 3)):
                if ans[idx] != expected:
                    fails.append({'kind': ch, 'via': via, 'before_R': before(holder, r), 'what': '%s(%r) in %s (%s) gives %r, not %s'
                                  % (ch, q[1], q[0], via, ans[idx], expected)})
            if q[1] == old and ans[4] != [1, new]:
                fails.append({'kind': 'find_object', 'via': 'attr-D', 'what': 'find_object(%r) gives %r, not %s' % (q[1], ans[4], new)})
        for key, links in dump.get('doclinks', {}).items():
            mi = P.module_of_scope(fn, key)
            if mi is None:
                continue
            for text, target in links:
                via, expected, holder = via_of(case, fn, mi, text, r)
                if via is None or via == 'other':
                    continue
                if target != expected:
                    fails.append({'kind': 'doclink', 'via': via, 'before_R': before(holder, r),
                                  'what': 'L{%s} in the docstring of %s (%s) links to %r, not to %s'
                                          % (text, key, via, target, expected)})
    return fails


class Check(c06.Check):
    id = 'C07'
    props_module = 'Props.C07'
    models = {'project': 'XProject.v'}
    want_doclinks = True
    rule = ('the whole C07 domain {re-exporter = package __init__ | sibling module} x {plain, renamed, star import} x {consumer imports from '
            'D, from R, both, through module aliases, by a star import of D, by a star import of R} + references by old and new qualified name, under EVERY reachable schedule; plus '
            'corpus (chain re-export, origin lists the name, function re-export through a package, duplicate members) and seeded random '
            'projects with at most one re-exporter per object; non-trivial = the project has a claimed re-export and a reference to it '
            'from another module; distinct by JSON text')
    trusted_base = c06.Check.trusted_base + [
        'harness/c07.py: static reading of which dotted names denote the re-exported object in Python (c06_lib.denote)',
        'linker observed through _EpydocLinker.link_to / _resolve_identifier_xref and epydoc2stan.format_docstring + flatten']
    assumptions = ['each object has at most one re-exporter; the defining module does not (transitively) import the re-exporter',
                   'theorems: see Props/C07.v for the exact hypotheses']
    manifest = {
        'text': ('Model/Project.v + Model/Linker.v (link_to and the lookup ladder of _resolve_identifier_xref). PROVED for ALL projects '
                 'and ALL schedules (C07_moved_once): if R imports x from D by name (plain or renamed, absolute or relative) and lists '
                 'it in __all__, D does not list it and has no from-imports, nothing else re-exports, then the final registry is exactly '
                 'the static one with x and everything below it under R.n, D.contents lacks x, R.contents has n, D keeps the alias '
                 'x -> R.n (Documentable.reparent and _handleReExport themselves are tied to the source: their current bodies, translated '
                 'into Gen/ReexportCode.v, are proved to be the model\'s reparent / handle_reexport -- C07_code_reparent_is_model, '
                 'C07_code_registry_walks_is_model, C06_code_handle_reexport_is_model); the same for the star-import form `from D import *` + __all__ when D only defines things (C07_moved_once_star). PROVED for ALL schedules, no hypothesis on the state (C07_reach_via_reexporter, C07_reach_via_module_alias and their _star forms): '
                 'a third module whose import statements bind a name to R.n, or a name to the module D, reaches the moved object in the '
                 'final state -- expandName, resolveName (base classes), link_to; find_object by the old qualified name returns it too '
                 '(C07_find_object_old_name). REFUTED (known finding): the reference through `from <defining module> '
                 'import <name>` (C07_reach_via_defining_module_refuted). Tie: per-schedule model/implementation diff incl. resolveName / '
                 'link_to / xref / find_object answers on the whole re-export matrix under every schedule; oracle on the real tool.'),
        'note': ('Partial: defining modules with imports of their own, several re-exports per project and consumers with star imports / '
                 'assignment aliases are covered by the correspondence check and the oracle only. Three genuine defects recorded as known findings.'),
        'technique': 'Coq proof (step invariants of an explicit-stack machine, two-phase invariant around reparent, consumer alias-map invariant) + exhaustive-schedule correspondence',
    }

    def gen_cases(self, thorough: bool) -> List[Any]:
        out: List[Any] = []
        for label, c in P.corpus():
            c = dict(c); c['label'] = label
            out.append(c)
        out.extend(P.reexport_matrix())
        self.exhaustive = True
        self.stats['exhaustive_bound'] = 're-export matrix 2 x 3 x 6 (36 projects), every reachable schedule'
        nrand = 2500 if thorough else 130
        n = 0
        while n < nrand:
            c = c06.gen_random(self.rng) if self.rng.random() < 0.7 else \
                P.random_project(self.rng, allow_cycles=False, allow_dups=False, reexport_p=0.8)
            if c06.multi_reexported(c) or not P.reexports(c):
                continue
            c['label'] = 'random'
            out.append(c)
            n += 1
        self.stats['random_projects'] = nrand
        return out

    def project_oracle(self, c: Any, orders: List[List[int]], im: List[Any]) -> List[Violation]:
        out = []
        cl = claimed_reexports(c)
        if cl:
            self.count('projects_with_claimed_reexport')
            self.count('claimed_reexports', len(cl))
        seen = set()
        for o, d in zip(orders, im):
            fails = oracle_one(c, d)
            for f in fails:
                self.count('oracle_fail_%s_%s' % (f['kind'], f['via']))
            if fails:
                sig = json.dumps(sorted((f['kind'], f['via'], f['what']) for f in fails))
                if sig in seen:
                    continue
                seen.add(sig)
                out.append(Violation('oracle', 'order %s: ' % o + '; '.join(f['what'] for f in fails[:3])[:700],
                                     case={'case': c, 'orders': [o]}, observed={'fails': fails}))
        return out

    def real_packages(self) -> List[Violation]:
        return []

    def classify_known(self, v: Violation, known: List[dict]) -> Optional[dict]:
        if v.kind != 'oracle' or not isinstance(v.observed, dict) or 'fails' not in v.observed:
            return None
        by = {k['id']: k for k in known}
        fails = v.observed['fails']
        def stale(f: Any) -> bool:
            # `from D import x`: always the literal D.x ; `from D import *`: the literal D.x only when the star import
            # ran before the re-exporter moved the object (afterwards _importAll copies D's alias, i.e. the new name)
            if f['kind'] not in ('base', 'resolveName', 'link_to', 'xref', 'doclink'):
                return False
            return f['via'] in ('from-D', 'chain-from-D') or (f['via'] in ('star-D', 'chain-star-D') and f.get('before_R') is True)

        def rescoped(f: Any) -> bool:
            return f['kind'] == 'base' and f.get('moved_class') is True
        if fails and all(stale(f) for f in fails):
            return by.get('C07-stale-defining-module-name')
        if fails and all(stale(f) or rescoped(f) for f in fails):
            return by.get('C07-moved-consumer-bases-rescoped')
        if fails and all(f['kind'] == 'stale-dup-member' for f in fails):
            return by.get('C07-superseded-member-left-behind')
        return None

    def replay(self, data: Any) -> int:
        inp = data['input']
        case, orders = inp['case'], inp['orders']
        for m in case['mods']:
            print('# ---- module %s%s' % (m['name'], ' (package)' if m['pkg'] else ''))
            print(P.render(m))
        im = lib.run_impl_worker(WORKER, [P.impl_job(case, orders, True)])[0]
        fn = P.fullnames(case)
        bad = 0
        for o, d in zip(orders, im):
            print('order %s:' % [fn[i] for i in o])
            for k, v in sorted(d.get('objects', {}).items()):
                print('   ', k, v)
            for q, a in zip(case.get('queries', []), d.get('answers', [])):
                print('    query', q, '->', a)
            fails = oracle_one(case, d)
            for f in fails:
                print('    FAIL', f)
            bad += len(fails)
            if fails:
                known, _ = lib.load_known_findings('C07')
                k = self.classify_known(Violation('oracle', 'replay', case={'case': case, 'orders': [o]}, observed={'fails': fails}), known)
                if k:
                    print('    this is the listed known finding %s (a defect of the unchanged tree, not of a change under test)' % k['id'])
            if data.get('kind') == 'correspondence':
                t = P.Tables()
                b, _ = lib.build_model(self.id + '_project', 'XProject.v')
                m = lib.run_model(b, [P.to_model(case, o, t)])[0]
                df = P.diff(P.canon_model(dec(m), t), P.canon_impl(d))
                print('    model vs implementation:', df[:10] or 'agree')
                bad += len(df)
        print('property requires: the re-exported object and its members registered exactly once under <re-exporter>.<name>, and '
              'every reference naming either location resolving to it')
        print('property:', 'FAILS on this input' if bad else 'holds on this input')
        return 1 if bad else 0
