"""C15 -- a displayed value or expression means the same as the source expression.

Model: Model/ExprPrint.v (AST side, parenthesis decision) + Model/Wrap.v (_output line state, wrapping, truncation) +
Model/StrEsc.v; spec: Spec/PyGrammar.v (a reader for the displayed tokens); tables: Gen/TablesC15.v.
Correspondence: node-for-node comparison of the model's output with colorize_pyval / colorize_inline_pyval of /repo.
Oracle: the displayed text (wrap markers removed) read by CPython's own parser is the source tree, modulo the documented
spellings; truncated output ends with the ellipsis marker and says is_complete = False."""
from __future__ import annotations
import ast
import itertools
import json
import sys
import time
from pathlib import Path
from typing import Any, Dict, List, Optional, Tuple

import lib
from lib import PropertyCheck, Violation, enc, dec, txt
import c15_gen as G

sys.path.insert(0, str(Path(__file__).resolve().parent / 'impl'))
import c15_colorize as W          # only its pure helpers (build / norm_dump); pydoctor is imported lazily inside the worker functions

WORKER = 'c15_colorize.py'
LINELENS = [0, 1, 2, 5, 10, 80]
MAXLINES = [0, 1, 2, 7]
# (linelen, maxlines, linebreakok): what pydoctor itself can ask for -- format_constant_value uses linebreakok=True with
# the two options, everything else goes through colorize_inline_pyval (linelen -1 here)
REACHABLE = [(ll, ml, 1) for ll in LINELENS for ml in MAXLINES] + [(-1, 1, 0)]
# direct API use with linebreakok=False (not reachable from pydoctor's own call sites; modelled all the same)
API_ONLY = [(ll, ml, 0) for ll in LINELENS for ml in MAXLINES]
ALL_CFGS = REACHABLE + API_ONLY
FLAT = (0, 0, 0)
CTXS = [0, 1, 2, 3, 4, 5, 6]

PUNCT = {2: '(', 3: ')', 4: '[', 5: ']', 6: '{', 7: '}', 8: ',', 9: ':', 10: '.', 11: '=', 14: 'not', 15: 'and', 16: 'or'}
OPTOK = ['-', '+', '~', '*', '/', '//', '%', '**', '<<', '>>', '|', '^', '&', '@']


# ---------------------------------------------------------------------------------------------- helpers on encodings
def children(x: Any) -> List[Tuple[Any, bool]]:
    """Direct sub-expressions of an encoded expression; the flag says: stands directly in a Subscript's slice position."""
    t = x[0]
    if t == 2:
        return [(x[1], False)]
    if t == 3:
        return [(x[2], False)]
    if t == 4:
        return [(x[2], False), (x[3], False)]
    if t == 5:
        return [(v, False) for v in x[2]]
    if t in (6, 7, 8):
        return [(v, False) for v in x[1]]
    if t == 9:
        return [(k, False) for k, _ in x[1] if k is not None] + [(v, False) for _, v in x[1]]
    if t == 10:
        return [(x[1], False), (x[2], True)]
    if t == 11:
        return [(x[1], False)] + [(a, False) for a in x[2]] + [(v, False) for _, v in x[3]]
    if t == 12:
        return [(x[1], False)]
    if t == 13:
        g = x[1]
        if g == 0:
            return [(x[3], False)] + [(c, False) for c in x[4]]
        if g == 1:
            return [(x[2], False), (x[3], False), (x[4], False)]
        if g == 2:
            return [(x[3], False)]
        if g == 3:
            return [(b, False) for b in x[2:5] if b is not None]
        if g in (4, 12):
            return [(x[2], False)]
        if g == 5:
            return [(x[2], False)] if x[2] is not None else []
        if g == 6:
            return [(x[3], False)]
        if g in (7, 8, 10):
            return [(x[2], False), (x[3], False), (x[4], False)] + [(i, False) for i in x[5]]
        if g == 9:
            return [(p, False) for p in x[2] if not isinstance(p, str)]
        if g == 11:
            return [(x[2], False), (x[3], False), (x[4], False), (x[5], False)]
    return []


def walk(e: Any):
    """Sub-expressions (pre-order) with the slice-position flag."""
    stack = [(e, False)]
    while stack:
        x, in_slice = stack.pop()
        yield x, in_slice
        stack.extend(reversed(children(x)))


def depth(e: Any) -> int:
    ks = children(e)
    return 1 + max(depth(k) for k, _ in ks) if ks else (0 if e[0] in (0, 1) else 1)


def rewrite(e: Any, f: Any, in_slice: bool = False) -> Any:
    """Bottom-up rewriting of an encoded expression: f(node, in_slice) -> node."""
    t = e[0]
    r = lambda x, s=False: rewrite(x, f, s)
    opt = lambda x: None if x is None else r(x)
    if t in (0, 1):
        out = e
    elif t == 2:
        out = [2, r(e[1]), e[2]]
    elif t == 3:
        out = [3, e[1], r(e[2])]
    elif t == 4:
        out = [4, e[1], r(e[2]), r(e[3])]
    elif t == 5:
        out = [5, e[1], [r(v) for v in e[2]]]
    elif t in (6, 7, 8):
        out = [t, [r(v) for v in e[1]]]
    elif t == 9:
        out = [9, [[opt(k), r(v)] for k, v in e[1]]]
    elif t == 10:
        out = [10, r(e[1]), r(e[2], True)]
    elif t == 11:
        out = [11, r(e[1]), [r(a) for a in e[2]], [[k, r(v)] for k, v in e[3]]]
    elif t == 12:
        out = [12, r(e[1])]
    elif t == 13:
        g = e[1]
        if g == 0:
            out = [13, 0, e[2], r(e[3]), [r(c) for c in e[4]]]
        elif g == 1:
            out = [13, 1, r(e[2]), r(e[3]), r(e[4])]
        elif g == 2:
            out = [13, 2, e[2], r(e[3])]
        elif g == 3:
            out = [13, 3, opt(e[2]), opt(e[3]), opt(e[4])]
        elif g in (4, 12):
            out = [13, g, r(e[2])]
        elif g == 5:
            out = [13, 5, opt(e[2])]
        elif g == 6:
            out = [13, 6, e[2], r(e[3])]
        elif g in (7, 8, 10):
            out = [13, g, r(e[2]), e[3], r(e[4]), [r(i) for i in e[5]]]
        elif g == 9:
            out = [13, 9, [p if isinstance(p, str) else r(p) for p in e[2]]]
        elif g == 11:
            out = [13, 11, r(e[2]), r(e[3]), e[4], r(e[5])]
        else:
            out = e
    else:
        out = e
    return f(out, in_slice)


def is_inf_literal(x: Any) -> bool:
    if x[0] == 0 and x[1] == 0:
        try:
            v = ast.literal_eval(x[2])
        except Exception:  # noqa
            return False
        if isinstance(v, float):
            return v in (float('inf'), float('-inf'))
        if isinstance(v, complex):
            return abs(v.imag) == float('inf') or abs(v.real) == float('inf')
    return False


# the classes of genuine defects recorded in known_findings/C15.json: (id, detector on a sub-expression, harmless replacement)
def k_one_tuple(x: Any, in_slice: bool) -> Optional[Any]:
    if x[0] == 6 and len(x[1]) == 1 and not in_slice:
        return [6, [x[1][0], x[1][0]]]
    return None


def k_slice_tuple(x: Any, in_slice: bool) -> Optional[Any]:
    if x[0] == 13 and x[1] == 3 and any(b is not None and b[0] == 6 and b[1] for b in x[2:5]):
        return [13, 3] + [([1, 'tb'] if (b is not None and b[0] == 6 and b[1]) else b) for b in x[2:5]]
    return None


def k_inf(x: Any, in_slice: bool) -> Optional[Any]:
    if is_inf_literal(x):
        return [0, 0, '1.5j' if 'j' in x[2] else '1.5']
    return None


def leftmost_brace_or_lambda(p: Any) -> bool:
    """astor's text of p starts with a brace (set/dict display or comprehension at the left edge) or is a lambda."""
    if p[0] in (8, 9) or (p[0] == 13 and p[1] in (2, 10, 11)):
        return True
    if p[0] == 4:
        return leftmost_brace_or_lambda(p[2])
    if p[0] in (2, 10, 11):
        return leftmost_brace_or_lambda(p[1])
    return False


def k_fstring(x: Any, in_slice: bool) -> Optional[Any]:
    if x[0] == 13 and x[1] == 9:
        def bad(p: Any) -> bool:
            return not isinstance(p, str) and leftmost_brace_or_lambda(p)
        if any(bad(p) for p in x[2]):
            return [13, 9, [[1, 'fv'] if bad(p) else p for p in x[2]]]
    return None


def k_dict_unpack(x: Any, in_slice: bool) -> Optional[Any]:
    """(only matters inside text delegated to astor, which writes `**` + the value without parentheses)"""
    if x[0] == 9:
        def low(v: Any) -> bool:
            return v[0] == 5 or (v[0] == 3 and v[1] == 2) or (v[0] == 13 and v[1] in (0, 1, 2))
        if any(k is None and low(v) for k, v in x[1]):
            return [9, [[k, ([1, 'du'] if (k is None and low(v)) else v)] for k, v in x[1]]]
    return None


def k_re_unpack(x: Any, in_slice: bool) -> Optional[Any]:
    if W.is_re_compile_call(x) and any(k is None for k, _ in x[3]):
        return [11, x[1], x[2], [[k, v] for k, v in x[3] if k is not None]]
    return None


KNOWN_CLASSES = [('C15-one-tuple', k_one_tuple), ('C15-slice-tuple-bound', k_slice_tuple),
                 ('C15-float-inf', k_inf), ('C15-fstring-brace', k_fstring),
                 ('C15-astor-dict-unpack', k_dict_unpack), ('C15-re-compile-unpack-dropped', k_re_unpack)]


def repair(e: Any) -> Tuple[Any, List[str]]:
    """The expression with every instance of a recorded defect class replaced by a harmless sibling, and the ids hit."""
    hit: List[str] = []

    def f(x: Any, in_slice: bool) -> Any:
        for kid, det in KNOWN_CLASSES:
            y = det(x, in_slice)
            if y is not None:
                if kid not in hit:
                    hit.append(kid)
                return y
        return x
    return rewrite(e, f), hit


# ---------------------------------------------------------------------------------------------- observation helpers
def unwrapped_text(nodes: List[List[Any]]) -> str:
    """Text of the result with every LINEWRAP marker and the newline node that follows it taken out again."""
    out = []
    i = 0
    while i < len(nodes):
        k, t = nodes[i]
        if k == 6:
            i += 1
            if i < len(nodes) and nodes[i][0] == 0 and nodes[i][1] == '\n':
                i += 1
            continue
        out.append(t)
        i += 1
    return ''.join(out)


def docutils_unescape(s: str) -> str:
    """docutils.nodes.unescape, which Text.astext() applies: NUL is docutils' internal escape mark and is dropped together
    with a space or newline that follows it."""
    if '\x00' not in s:
        return s
    for sep in ('\x00 ', '\x00\n', '\x00'):
        s = ''.join(s.split(sep))
    return s


def model_params(cfg: Tuple[int, int, int]) -> List[int]:
    ll, ml, lb = cfg
    if ll == -1:
        return [0, 1, 0]            # colorize_inline_pyval: linelen=None, maxlines=1, linebreakok=False
    return [ll, ml, lb]


def spell(tok: Any, gen_cache: Dict[str, Optional[List[str]]]) -> Optional[List[str]]:
    """The CPython token strings one model token stands for."""
    if isinstance(tok, int):
        return [PUNCT[tok]]
    tag = tok[0]
    if tag == 1:
        return [txt(tok[1])]
    if tag == 13:
        return [OPTOK[tok[1]]]
    if tag == 0:
        text = txt(tok[1])
        leaf = tok[2]
        if leaf[0] == 13:
            if text not in gen_cache:
                gen_cache[text] = W.py_tokens(text)
            return gen_cache[text]
        return [text]
    raise ValueError(tok)


class Check(PropertyCheck):
    id = 'C15'
    props_module = 'Props.C15'
    models = {'exprprint': 'XExprPrint.v', 'delim': 'XDelim.v'}
    needs_gen = True
    gen_modules = ['gen_c15', 'gen_c15_code']
    rule = ('every form of the quantifier (unary, binary, boolean, comparison, conditional, call, subscript, attribute, container, '
            'starred) with leaf children, every tree of depth two over them (forms with more than two child slots: every '
            'assignment with at most two non-leaf children), every operator chain of depth three over unary/binary/boolean '
            'operators in every operand position, every literal-leaf kind, seeded random deeper trees; each under the flat '
            'setting and under line-length x max-lines x linebreakok x parent-context settings; non-trivial = depth >= 2 or a '
            'wrapping/truncating setting; distinct by construction (duplicates removed)')
    trusted_base = [
        'Coq 8.16.1 kernel (coqc; vm_compute for table facts and _refuted witnesses; no native_compute)',
        'no axioms (Print Assumptions: Closed under the global context for every theorem)',
        'extraction: ExtrOcamlBasic only; OCaml 4.13.1; coq/ocaml/driver.ml',
        'translators harness/gen/gen_c15.py (astor precedences, operator spellings and the _str_escape table, extracted '
        'from the behaviour of the live code) and harness/gen/gen_c15_code.py (the body of _OperatorDelimiter.__init__ and of '
        'the pydoctor helpers it calls -> Gen/DelimCode.v in the language of Model/DelimIR.v), both fail-closed; the '
        'primitives of Model/DelimIR.v (parent lookup, ast class hierarchy, get_op_precedence = the regenerated table, '
        'explicit_precedence only set for children of non-operator parents, attribute access)',
        'correspondence harness harness/c15.py + harness/impl/c15_colorize.py; CPython tokenize/ast.parse as the reference '
        'reader (Spec/PyGrammar.v is validated against it)',
        'modelled not verified: str(number), astor.to_source for delegated forms (comparison, conditional, lambda, slices, '
        'comprehensions, f-strings, attributes of non-names) are oracles whose text is an input of the model; the regex '
        'colouriser (calls to re.compile) is outside the model',
    ]
    manifest = {
        'text': ('Theorems over Model/ExprPrint.v + Model/Wrap.v + Model/StrEsc.v against Spec/PyTokenizer.v + Spec/PyGrammar.v + '
                 'Spec/PyLex.v, for trees of any depth. Text level: the text pydoctor displays for an expression -- inline, or '
                 'under ANY linelen/maxlines/linebreakok setting whenever is_complete is true, with the LINEWRAP markers and the '
                 'newlines after them removed -- tokenized by a lexer written from the language reference and read by a '
                 'precedence-climbing reader written from the grammar, is the source tree up to the documented spellings '
                 '(C15_display_parses, C15_wrapped_display_parses, via C15_complete_layout: a complete run emits one of the '
                 'layouts of the tree, C15_display_tokens: every layout lexes to the printed tokens, i.e. the separators the '
                 'colouriser writes never merge or split tokens, and C15_read_print on tokens, fuel proved sufficient). Guards: '
                 'no one-element tuple display (recorded defect, C15_one_tuple_refuted) and, for the text-level statements, no '
                 'text delegated to astor inside the tree. Tables regenerated from /repo on every run carry the precedence '
                 'facts and operator spellings the proofs use (C15_prec_wf, C15_operator_spelling). _output conserves text '
                 'when it wraps (C15_wrap_conserves); a cut result always ends with the ellipsis marker and is_complete False '
                 '(C15_truncation_marked); the inline display is never cut (C15_inline_complete); _str_escape/_bytes_escape '
                 'read back as literals are the value for every string and byte string (C15_str_escape_roundtrip, '
                 'C15_bytes_escape_roundtrip, _old_refuted witnesses for the two repaired defects); the re.compile colouriser '
                 'is modelled at the envelope level (C15_re_fallback, C15_re_envelope_text, recorded defect '
                 'C15_re_unpack_dropped_refuted). Tie to the source: the body of _OperatorDelimiter.__init__ (helpers inlined) is '
                 'translated on every run into a deep-embedded language and C15_code_init_is_model proves that interpreting it is '
                 'the model decision needs_paren for every operator and parent situation; C15_code_dispatch_is_model ties the '
                 'dispatch of _colorize_ast onto the delimiter. Model and code are also tied node for node by an exhaustive correspondence check '
                 '(every form, every depth-two tree, every depth-three operator chain, every literal kind, re.compile calls, '
                 'all line-length x max-lines x linebreakok x parent-context settings, random deeper trees); the spec '
                 'tokenizer and reader are run on every real output and validated against CPython tokenize / ast.parse, and '
                 'the oracle re-reads every real output with ast.parse.'),
        'note': ('Trusted: Coq kernel, extraction + OCaml driver, gen_c15.py, the Python harness, CPython ast/tokenize as the '
                 'reference reader. Oracles (their text is an input of the model, checked by the ast.parse oracle only): str() of '
                 'numbers, astor.to_source for delegated forms (comparison, conditional, lambda, slices, comprehensions, '
                 'f-strings, attributes of non-names), and the regex colouriser proper (_colorize_re_pattern) inside re.compile '
                 'calls; re.compile calls nested inside other expressions are outside the model.'),
        'technique': 'Coq proof (induction on expression trees in continuation-passing form over a fuelled Pratt reader and a '
                     'fuelled lexer, layouts as a relation on the tree of output calls) + tables regenerated from source + '
                     'exhaustive model/implementation correspondence + ast.parse oracle',
    }
    assumptions = ['delegated forms (astor) are opaque atoms in the theorems; their text is checked by the oracle only',
                   'calls to re.compile are outside the model',
                   'the source tree is one CPython can produce (BoolOp with >= 2 values, Starred only where the grammar allows it)']

    # ------------------------------------------------------------------------------------------ cases
    def exprs(self) -> Dict[str, List[Any]]:
        t = self.tier
        groups: Dict[str, List[Any]] = {}
        groups['corpus'] = self.corpus()
        groups['depth1'] = G.d1_forms('thorough')
        groups['depth2'] = G.depth2(t)
        groups['chains3'] = G.chains3(t)
        groups['recompile'] = G.re_compile_calls(t)
        groups['literals'] = G.literal_leaves() + (G.single_char_strings() if t == 'thorough' else G.single_char_strings()[::3])
        nrand = 1500 if t == 'quick' else 50000
        rnd = []
        for i in range(nrand):
            e = G.random_tree(self.rng, self.rng.randint(2, 5))
            if not G.has_re_compile(e):
                rnd.append(e)
        groups['random'] = rnd
        return groups

    def corpus(self) -> List[Any]:
        N, K, S = G.N, G.K, G.S
        a, b, c = N('a'), N('b'), N('c')
        return [
            [4, 0, K('1'), [4, 0, K('2'), K('3')]],                    # 1-(2-3)        (ae14ef1)
            [4, 3, a, [4, 2, b, c]], [4, 5, a, [4, 5, b, c]], [4, 7, a, [4, 8, b, c]],
            [4, 6, a, [4, 6, b, c]], [4, 6, [4, 6, a, b], c], [4, 6, [3, 0, a], b], [3, 0, [4, 6, a, b]], [4, 6, a, [3, 0, b]],
            [6, []], [10, a, [6, []]], [10, a, [6, [b]]], [10, a, [6, [b, c]]],    # 38cbc77
            [6, [K('1')]], [4, 1, a, [6, [b]]], [11, N('f'), [[6, [K('1')]]], []], [9, [[[6, [K('1')]], K('2')]]],
            [10, a, [13, 3, [6, [b, c]], N('d'), None]],               # a[(b,c):d]
            [5, 1, [[5, 1, [a, b]], c]], [5, 1, [a, [5, 1, [b, c]]]], [5, 0, [[5, 1, [a, b]], c]], [5, 1, [[5, 0, [a, b]], c]],
            [3, 2, [5, 0, [a, b]]], [3, 2, [3, 2, a]], [3, 0, [3, 0, a]], [3, 0, [3, 2, a]], [4, 1, a, [3, 2, b]],
            [11, N('f'), [a, [12, b]], [['k', c], [None, N('d')]]],
            [11, [2, [2, N('m'), 'n'], 'g'], [S('x' * 40), S('y' * 40), S('z' * 40)], []],
            [7, [S('a\nb'), S('c')]], [9, [[S('k'), [7, [K('1'), K('2'), K('3')]]], [None, a]]],
            [8, [a, b]], [2, [11, N('f'), [], []], 'm'], [2, [4, 1, a, b], 'm'], [2, K('1'), 'real'],
            [13, 0, [2], a, [b]], [4, 1, a, [13, 0, [2], b, [c]]], [13, 1, a, b, c], [3, 0, [13, 1, a, b, c]],
            [13, 2, ['p'], [4, 1, N('p'), K('1')]], [10, a, [13, 3, b, c, None]], [10, a, [6, [[13, 3, b, c, None], N('d')]]],
            [0, 1, [ord(ch) for ch in 'x' * 200]], [0, 2, list(b"it's")], [0, 0, '1e999'], [0, 1, [0]],
            [7, [N('name%d' % i) for i in range(30)]],
            [4, 1, [4, 1, [4, 1, [4, 1, a, b], c], a], [4, 2, [4, 1, a, b], [4, 1, b, c]]],
        ]

    def cases(self) -> List[List[Any]]:
        groups = self.exprs()
        seen = set()
        out: List[List[Any]] = []
        counts: Dict[str, int] = {}
        rot = 0
        quick = self.tier == 'quick'
        for gname, es in groups.items():
            n = 0
            for e in es:
                key = json.dumps(e)
                if key in seen:
                    continue
                seen.add(key)
                n += 1
                out.append([e, 0, 0, 0, 0])                               # flat: the text itself
                if gname == 'recompile':
                    for cfg in ALL_CFGS:
                        out.append([e, cfg[0], cfg[1], cfg[2], 0])
                elif gname in ('corpus', 'depth1'):
                    for cfg in ALL_CFGS:                                   # every setting
                        out.append([e, cfg[0], cfg[1], cfg[2], 0])
                    for ctx in CTXS[1:]:
                        out.append([e, 0, 0, 1, ctx])
                        out.append([e, -1, 1, 0, ctx])
                else:
                    # one more setting per tree, rotating through all settings and parent contexts
                    step = 3 if (quick and gname in ('depth2', 'chains3')) else 1
                    if n % step == 0:
                        cfg = ALL_CFGS[rot % len(ALL_CFGS)]
                        ctx = CTXS[(rot // len(ALL_CFGS)) % len(CTXS)]
                        rot += 1
                        out.append([e, cfg[0], cfg[1], cfg[2], ctx])
            counts[gname] = n
        self.stats['expressions_by_group'] = counts
        self.stats['distinct_expressions'] = len(seen)
        self.exhaustive = True
        return out

    # ------------------------------------------------------------------------------------------ oracle
    def oracle_pre(self, case: List[Any], obs: Dict[str, Any]) -> Tuple[Optional[str], Optional[str]]:
        """First half of the property on one observation of the REAL code: returns (failure, text to re-read with CPython)."""
        e, ll, ml, lb, ctx = case
        if 'error' in obs:
            return 'crash: the colouriser raised instead of displaying the value: ' + obs['error'], None
        nodes = obs['nodes']
        if obs.get('lw_mutated'):
            return ('linewrap-node: _trim_result wrote into the shared LINEWRAP node: every later wrapped value loses its '
                    'continuation mark'), None
        if obs['complete']:
            if any(k == 7 for k, _ in nodes):
                return 'marker: is_complete is True but the output contains the truncation marker', None
            if W.is_re_compile_call(e):
                return None, 'r' + json.dumps([e, unwrapped_text(nodes)])
            if obs['canon']:
                return None, 'd' + unwrapped_text(nodes)
            return None, None
        # truncated: must be visibly marked
        if not nodes or nodes[-1][0] != 7 or nodes[-1][1] != '...':
            return 'marker: output was cut (is_complete False) but does not end with the ellipsis marker', None
        if ll in (0, -1) and ml == 0 and lb == 1:
            return 'marker: output was cut although no line-length or line-count limit was set', None
        return None, None

    def oracle_post(self, obs: Dict[str, Any], reread: Optional[str], parsed: Optional[str]) -> Optional[str]:
        if reread is None:
            return None
        if reread[0] == 'r':
            return parsed            # the worker's verdict for a displayed re.compile call (None = holds)
        reread = reread[1:]
        if parsed is None:
            return 'meaning: the displayed text %r is not a Python expression' % (reread[:200],)
        if parsed != obs['dump']:
            return 'meaning: the displayed text %r reads back as a different expression' % (reread[:200],)
        return None

    def run_oracle(self, cases: List[List[Any]], impl: List[Dict[str, Any]]) -> List[Optional[str]]:
        pre = [self.oracle_pre(c, o) for c, o in zip(cases, impl)]
        texts = sorted(set(t for _, t in pre if t is not None))
        parsed = dict(zip(texts, lib.run_impl_worker(WORKER, texts, jobs=16))) if texts else {}
        out: List[Optional[str]] = []
        for (fail, t), o in zip(pre, impl):
            out.append(fail or self.oracle_post(o, t, parsed.get(t) if t is not None else None))
        return out

    # ------------------------------------------------------------------------------------------ correspondence
    BATCH = 120000

    def correspondence(self) -> List[Violation]:
        t0 = time.time()
        cases = self.cases()
        self.stats['t_cases'] = round(time.time() - t0, 1)
        self.evaluations = len(cases)
        acc: Dict[str, Any] = {'out': [], 'ncorr': 0, 'nontrivial': 0, 'ntok': 0, 'nread': 0, 'fails': [], 'm1': [],
                               't_impl': 0.0, 't_model': 0.0, 'model_runs': 0}
        for lo in range(0, len(cases), self.BATCH):
            self.run_batch(cases[lo:lo + self.BATCH], acc)
        out: List[Violation] = acc['out']
        self.stats['t_impl'] = round(acc['t_impl'], 1)
        self.stats['t_model'] = round(acc['t_model'], 1)
        self.stats['model_runs'] = acc['model_runs']
        self.stats['correspondence_mismatches'] = acc['ncorr']
        self.stats['distinct_nontrivial'] = acc['nontrivial']
        self.stats['token_views_checked'] = acc['ntok']
        self.stats['read_print_instances'] = acc['nread']
        self.stats['display_text_instances'] = acc.get('ntext', 0)
        self.stats['t_batches'] = round(time.time() - t0, 1)

        # oracle: failures explained by a recorded defect class are verified in one batch (the failure must disappear when
        # the instances of the class are replaced by harmless siblings); unexplained ones are reported first
        fails = acc['fails']
        self.stats['oracle_failures_before_known_findings'] = len(fails)
        self.explain_batch([(c, v) for c, _, v in fails])
        per_class: Dict[str, int] = {}
        for c, o, v in sorted(fails, key=lambda t: len(json.dumps(t[0]))):
            kid = self._explained.get(json.dumps(c)) or ''
            per_class[kid] = per_class.get(kid, 0) + 1
            if per_class[kid] <= (20 if kid == '' else 3):
                out.append(Violation('oracle', v, case=c, observed=o))
        self.stats['oracle_failures_by_known_class'] = {k or 'UNEXPLAINED': n for k, n in per_class.items()}

        for c in [cases[0], cases[len(cases) // 3], cases[len(cases) // 2], cases[-1]]:
            self.sample({'expr': c[0], 'linelen': c[1], 'maxlines': c[2], 'linebreakok': c[3], 'ctx': c[4]})

        self.stats['t_explain'] = round(time.time() - t0, 1)
        out.extend(self.delim_leg())
        # the driver only searches when no oracle failure at all is at hand, and the recorded defects always are:
        # widen the search here when model and code disagree and the oracle has nothing new to say on this domain
        breaks = [v for v in out if v.kind != 'oracle']
        if breaks and per_class.get('', 0) == 0:
            found = self.search(breaks)
            self.stats['search_after_correspondence_break'] = len(found)
            out.extend(found)
        self.spec_validation(acc['m1'])
        self.stats['t_specval'] = round(time.time() - t0, 1)
        return out

    def delim_leg(self) -> List[Violation]:
        """Third leg for the parenthesis decision: the interpretation of the code TRANSLATED from _OperatorDelimiter.__init__
        (Gen/DelimCode.v), the hand model, and the real constructor, on every operator x every parent situation."""
        ops = [[0, i] for i in range(4)] + [[1, i] for i in range(13)] + [[2, i] for i in range(2)]
        sits: List[List[int]] = [[0], [1]] + [[2, u] for u in range(4)] + [[3, b, r] for b in range(13) for r in (0, 1)] + \
            [[4, o] for o in range(2)] + [[5, c] for c in range(3)] + [[5, c, p] for c in range(3) for p in (0, 21, 33, 34, 48, 55, 56, 63)]
        cases = [[o, s] for o in ops for s in sits]
        real = lib.run_impl_worker('c15_delim.py', cases, jobs=8)
        mod = self.model('delim', [enc(c) for c in cases])
        out: List[Violation] = []
        for c, r, m in zip(cases, real, mod):
            got = dec(m)
            want = None if isinstance(r, dict) else [int(r), int(r)]
            if got != want and len(out) < 5:
                out.append(Violation('correspondence', 'the code translated from _OperatorDelimiter.__init__ (Gen/DelimCode.v, '
                                     'interpreted), the model decision and the real constructor disagree on self.discard',
                                     case=None, expected={'operator_and_situation': c, 'interpreted_code_and_model': got}, observed=r))
        self.stats['delimiter_decisions_compared'] = len(cases)
        self.evaluations += len(cases)
        return out

    def run_batch(self, cases: List[List[Any]], acc: Dict[str, Any]) -> None:
        t0 = time.time()
        impl = lib.run_impl_worker(WORKER, cases, jobs=16)
        acc['t_impl'] += time.time() - t0
        out: List[Violation] = acc['out']

        # model: mode 0 on every case, mode 1 once per (ctx, expression)
        t1 = time.time()
        m0_in: List[str] = []
        m0_idx: List[int] = []
        m1_keys: Dict[str, int] = {}
        m1_in: List[str] = []
        for i, (c, o) in enumerate(zip(cases, impl)):
            if 'mexpr' not in o:
                continue
            e, ll, ml, lb, ctx = c
            if W.is_re_compile_call(e):
                ro = o.get('re', {})
                if 'error' in ro:
                    raise RuntimeError('re oracle failed on %r: %s' % (c, ro['error']))
                m0_in.append(enc([4, model_params((ll, ml, lb)), o['mexpr'], [ro['pieces']] if 'pieces' in ro else []]))
                m0_idx.append(i)
                self.count('re_compile_' + ('pieces' if 'pieces' in ro else 'raised' if 'raised' in ro else 'not_reached'))
                continue
            m0_in.append(enc([0, model_params((ll, ml, lb)), ctx, o['mexpr']]))
            m0_idx.append(i)
            key = json.dumps([ctx, o['mexpr']])
            if key not in m1_keys:
                m1_keys[key] = len(m1_in)
                m1_in.append(enc([1, ctx, o['mexpr']]))
        m0 = self.model('exprprint', m0_in)
        m1 = self.model('exprprint', m1_in)
        acc['model_runs'] += len(m0_in) + len(m1_in)
        acc['t_model'] += time.time() - t1
        want_m1 = 400 if self.tier == 'quick' else 6000
        step = max(1, (self.evaluations // 2) // want_m1)
        acc['m1'].extend(m1[::step])

        verdicts = self.run_oracle(cases, impl)

        gen_cache: Dict[str, Optional[List[str]]] = {}
        for j, i in enumerate(m0_idx):
            c, o = cases[i], impl[i]
            e, ll, ml, lb, ctx = c
            self.count('cfg_%s' % ('flat' if (ll, ml, lb) == FLAT else 'inline' if ll == -1 else
                                   ('lb' if lb else 'nolb') + ('_wrap' if ll else '') + ('_maxlines' if ml else '')))
            self.count('ctx_%d' % ctx)
            if 'error' in o:
                self.count('impl_raised')
                continue
            if m0[j].startswith('!'):
                raise RuntimeError('model driver error on %r: %s' % (c, m0[j]))
            m = dec(m0[j])
            if m == [-998]:
                self.count('unmodelled_re_compile')
                continue
            if m == [-999]:
                raise RuntimeError('model rejected its input: %r' % (c,))
            m_complete, m_lw, m_fuel, m_nodes = m
            if not m_fuel:
                raise RuntimeError('model ran out of fuel on %r' % (c,))
            mn = [[k, docutils_unescape(txt(t))] for k, t in m_nodes]
            canon_model = [bool(m_complete), bool(m_lw), mn]
            canon_impl = [o['complete'], o['lw_mutated'], o['nodes']]
            self.count('complete' if o['complete'] else 'truncated')
            if any(k == 6 for k, _ in o['nodes']):
                self.count('wrapped')
            if canon_model != canon_impl:
                acc['ncorr'] += 1
                if acc['ncorr'] <= 20:
                    out.append(Violation('correspondence', 'Model.ExprPrint/Wrap and _pyval_repr disagree on the displayed nodes',
                                         case=c, expected=canon_model, observed=canon_impl))
            if depth(e) >= 2 or (ll, ml, lb) != FLAT:
                acc['nontrivial'] += 1

        # token view of the model against CPython's tokenizer on the real flat text; theorem instance read(pp e) = norm e
        for i, (c, o) in enumerate(zip(cases, impl)):
            e, ll, ml, lb, ctx = c
            if (ll, ml, lb) != FLAT or 'mexpr' not in o or 'error' in o or W.is_re_compile_call(e):
                continue
            r = m1[m1_keys[json.dumps([ctx, o['mexpr']])]]
            m = dec(r)
            if m in ([-998], [-999]):
                continue
            toks, read_ok, tree, _lexable = m
            if o.get('toks') is not None:
                want: Optional[List[str]] = []
                for t in toks:
                    s = spell(t, gen_cache)
                    if s is None:
                        want = None
                        break
                    want.extend(docutils_unescape(x) for x in s)
                if want is not None:
                    acc['ntok'] += 1
                    if want != o['toks'] and len(out) < 40:
                        out.append(Violation('correspondence', 'the token view Model.ExprPrint.pp differs from CPython tokenize on '
                                             'the displayed text', case=c, expected=want, observed=o['toks']))
            # the theorem C15_read_print on this instance (guard: no recorded defect class, canonical tree)
            _, hits = repair(e)
            if o['canon'] and 'C15-one-tuple' not in hits:
                acc['nread'] += 1
                if not read_ok and len(out) < 40:
                    out.append(Violation('correspondence', 'Spec.PyGrammar.read (pp e) <> norm e on a tree inside the guard of '
                                         'C15_read_print', case=c, expected='read back', observed=tree))

        # the theorems C15_display_tokens / C15_wrapped_display_parses on the REAL output: the spec tokenizer, run on what
        # pydoctor displayed (wrap markers removed) in any complete run of a lexable, canonical tree without a recorded
        # defect, gives exactly the tokens pp printed
        t3_in: List[str] = []
        t3_idx: List[int] = []
        for i, (c, o) in enumerate(zip(cases, impl)):
            if 'mexpr' not in o or 'error' in o or not o['complete'] or not o['canon'] or W.is_re_compile_call(c[0]):
                continue
            m = dec(m1[m1_keys[json.dumps([c[4], o['mexpr']])]])
            if m in ([-998], [-999]) or not m[3]:
                continue
            if 'C15-one-tuple' in repair(c[0])[1]:
                continue
            t3_in.append(enc([3, unwrapped_text(o['nodes'])]))
            t3_idx.append(i)
        t3 = self.model('exprprint', t3_in)
        acc['model_runs'] += len(t3_in)
        for r, i in zip(t3, t3_idx):
            c, o = cases[i], impl[i]
            want = dec(m1[m1_keys[json.dumps([c[4], o['mexpr']])]])[0]
            got = dec(r)
            acc['ntext'] = acc.get('ntext', 0) + 1
            if got != [want] and len(out) < 60:
                out.append(Violation('correspondence', 'Spec.PyTokenizer.tokenize on the displayed text does not give the tokens of '
                                     'Model.ExprPrint.pp (instance of C15_display_tokens)', case=c,
                                     expected=want, observed=got))

        for c, o, v in zip(cases, impl, verdicts):
            if v:
                acc['fails'].append((c, {k: o.get(k) for k in ('text', 'complete', 'error', 'lw_mutated')}, v))

    # ------------------------------------------------------------------------------------------ spec validation
    def spec_validation(self, m1: List[str]) -> None:
        """Spec.PyGrammar.read against ast.parse: on the token strings the model printed and on perturbed ones
        (a token dropped, doubled, swapped with its neighbour, or replaced).  A disagreement is a defect of the
        verification itself: raised, not reported as a finding about pydoctor."""
        streams: List[List[Any]] = []
        for r in m1:
            m = dec(r)
            if m in ([-998], [-999]):
                continue
            toks = m[0]
            ok = True
            simple = []
            for t in toks:
                if isinstance(t, list) and t[0] == 0:
                    t = [0, [49], [0, 0, [49]]]                 # every literal / delegated text: the number 1 in its place
                simple.append(t)
            if ok:
                streams.append(simple)
        pert: List[List[Any]] = []
        pool: List[Any] = [2, 3, 4, 5, 6, 7, 8, 9, 10, 11, 14, 15, 16] + [[13, k] for k in range(14)] + \
                          [[1, [ord('q')]], [0, [50], [0, 0, [50]]]]
        for s in streams:
            pert.append(s)
            if len(s) >= 1:
                for _ in range(3):
                    k = self.rng.randrange(len(s))
                    kind = self.rng.randrange(4)
                    if kind == 0:
                        pert.append(s[:k] + s[k + 1:])
                    elif kind == 1:
                        pert.append(s[:k] + [s[k]] + s[k:])
                    elif kind == 2 and k + 1 < len(s):
                        pert.append(s[:k] + [s[k + 1], s[k]] + s[k + 2:])
                    else:
                        pert.append(s[:k] + [self.rng.choice(pool)] + s[k + 1:])
        # a bare top-level tuple (a, b without parentheses) is Python too but is never displayed; the strings are
        # validated inside one pair of parentheses so that both readers see the same language
        pert = [[2] + s + [3] for s in pert]
        cache: Dict[str, Optional[List[str]]] = {}
        texts = []
        for s in pert:
            parts: List[str] = []
            for t in s:
                parts.extend(spell(t, cache) or ['?'])
            texts.append('t' + ' '.join(parts))
        py = lib.run_impl_worker(WORKER, texts, jobs=16) if texts else []
        mo = self.model('exprprint', [enc([2, s]) for s in pert])
        agree = rejected = 0
        for s, t, p, m in zip(pert, texts, py, mo):
            got = dec(m)
            if p == '?':
                continue
            mtree = None if got == [] else to_json_tree(got[0])
            ptree = None if p is None else p
            if mtree != ptree:
                raise RuntimeError('spec validation: Spec.PyGrammar.read and ast.parse disagree on %r: reader %r, CPython %r'
                                   % (t[1:], mtree, ptree))
            agree += 1
            if p is None:
                rejected += 1
        self.stats['spec_validation_strings'] = agree
        self.stats['spec_validation_rejected_by_both'] = rejected
        # the tokenizer: whenever Spec.PyTokenizer accepts a text, CPython's tokenize gives the same token strings
        ktexts = [t[1:] for t in texts] + [t[1:].replace(' ', '') for t in texts]
        kpy = lib.run_impl_worker(WORKER, ['k' + t for t in ktexts], jobs=16) if ktexts else []
        kmo = self.model('exprprint', [enc([3, t]) for t in ktexts])
        accepted = 0
        for t, p, m in zip(ktexts, kpy, kmo):
            got = dec(m)
            if got == []:
                continue
            accepted += 1
            want: List[str] = []
            for tok in got[0]:
                want.extend(spell(tok, cache) or ['?'])
            if p != want:
                raise RuntimeError('spec validation: Spec.PyTokenizer.tokenize and CPython tokenize disagree on %r: %r vs %r'
                                   % (t, want, p))
        self.stats['tokenizer_validation_texts'] = len(ktexts)
        self.stats['tokenizer_validation_accepted'] = accepted

    # ------------------------------------------------------------------------------------------ search / replay / known
    def search(self, broken: List[Violation]) -> List[Violation]:
        """Oracle alone against the real code: the diverging inputs first, then the thorough domain (time-boxed when the
        check itself runs in the quick tier)."""
        saved = self.tier
        found: List[Violation] = []
        try:
            self.tier = 'thorough'
            cases = self.cases()
        finally:
            self.tier = saved
        first = [b.case for b in broken if b.case]
        cases = first + cases
        deadline = time.time() + (240 if saved == 'quick' else 1500)
        known, _ = lib.load_known_findings(self.id)
        for lo in range(0, len(cases), 40000):
            if time.time() > deadline:
                self.notes.append('search stopped at its time budget after %d cases' % lo)
                break
            chunk = cases[lo:lo + 40000]
            impl = lib.run_impl_worker(WORKER, chunk, jobs=16)
            verdicts = self.run_oracle(chunk, impl)
            self.explain_batch([(c, v) for c, v in zip(chunk, verdicts) if v])
            for c, o, v in zip(chunk, impl, verdicts):
                if v:
                    viol = Violation('oracle', v, case=c, observed={k: o.get(k) for k in ('text', 'complete', 'error')})
                    if self.classify_known(viol, known) is None:
                        found.append(viol)
                        if len(found) >= 5:
                            return found
            if found:
                return found
        return found

    _explained: Dict[str, Optional[str]] = {}

    def explain_batch(self, items: List[Tuple[List[Any], str]]) -> None:
        """For each failing (case, verdict): the id of the recorded defect class that explains it, or None."""
        self._explained = dict(self._explained)
        todo: List[Tuple[str, List[Any], List[str]]] = []
        by_expr: Dict[str, Optional[str]] = getattr(self, '_explained_expr', {})
        self._explained_expr = by_expr
        pending: Dict[str, List[str]] = {}
        for c, v in items:
            key = json.dumps(c)
            if key in self._explained:
                continue
            e, ll, ml, lb, ctx = c
            if v.startswith('linewrap-node:'):
                self._explained[key] = 'C15-linewrap-node-mutated' if (lb == 0 and ll > 0) else None
                continue
            if not v.startswith('meaning:'):
                self._explained[key] = None
                continue
            fixed, hits = repair(e)
            if not hits:
                self._explained[key] = None
                continue
            # the failure must already be there without any line limit (same parent context, linebreakok on or off), and
            # must be gone there once the instances of the recorded classes are replaced by harmless siblings
            ekey = json.dumps([e, ctx])
            if ekey in by_expr:
                self._explained[key] = by_expr[ekey]
                continue
            if ekey in pending:
                pending[ekey].append(key)
                continue
            pending[ekey] = [key]
            todo.append((ekey, [[e, 0, 0, 1, ctx], [e, 0, 0, 0, ctx]], [[fixed, 0, 0, 1, ctx], [fixed, 0, 0, 0, ctx]], hits))
        if todo:
            cs = [c for t in todo for c in t[1] + t[2]]
            obs = lib.run_impl_worker(WORKER, cs, jobs=16)
            vs = self.run_oracle(cs, obs)
            for i, (ekey, _, _, hits) in enumerate(todo):
                o1, o0, f1, f0 = vs[4 * i: 4 * i + 4]
                ok = any(vo is not None and vo.startswith('meaning:') and vf is None for vo, vf in ((o1, f1), (o0, f0)))
                by_expr[ekey] = hits[0] if ok else None
                for key in pending[ekey]:
                    self._explained[key] = by_expr[ekey]

    def classify_known(self, v: Violation, known: List[dict]) -> Optional[dict]:
        if v.kind != 'oracle' or not v.case:
            return None
        key = json.dumps(v.case)
        if key not in self._explained:
            self.explain_batch([(v.case, v.what)])
        kid = self._explained.get(key)
        for k in known:
            if k['id'] == kid:
                return k
        return None

    def replay(self, data: Any) -> int:
        case = data['input']
        if not case:
            print('no concrete input in this replay file:', data.get('what'))
            return 1
        o = lib.run_impl_worker(WORKER, [case])[0]
        v = self.run_oracle([case], [o])[0]
        e, ll, ml, lb, ctx = case
        try:
            src = ast.unparse(W.build(e))
        except Exception:  # noqa
            src = '<tree CPython cannot unparse>'
        print('expression :', src)
        print('encoded    :', json.dumps(e))
        print('settings   : linelen=%s maxlines=%s linebreakok=%s parent-context=%s' % (ll, ml, bool(lb), ctx))
        print('displayed  : %r' % (o.get('text'),))
        print('is_complete:', o.get('complete'))
        print('source tree:', o.get('dump'))
        print('property   :', v or 'holds on this input')
        if data.get('kind') == 'correspondence':
            print('(this replay file records a model/implementation disagreement; expected = model, observed = implementation)')
        return 1 if v else 0


def to_json_tree(m: Any) -> Any:
    """Model wire tree (ints / code-point lists) -> the worker's JSON encoding (strings for names)."""
    t = m[0]
    if t == 0:
        k = m[1]
        if k == 0:
            return [0, 0, txt(m[2])]
        if k in (1, 2):
            return [0, k, list(m[2])]
        return [0, k, None]
    if t == 1:
        return [1, txt(m[1])]
    if t == 2:
        return [2, to_json_tree(m[1]), txt(m[2]), txt(m[3])]
    if t == 3:
        return [3, m[1], to_json_tree(m[2])]
    if t == 4:
        return [4, m[1], to_json_tree(m[2]), to_json_tree(m[3])]
    if t == 5:
        return [5, m[1], [to_json_tree(x) for x in m[2]]]
    if t in (6, 7, 8):
        return [t, [to_json_tree(x) for x in m[1]]]
    if t == 9:
        return [9, [[None if k == [] else to_json_tree(k), to_json_tree(v)] for k, v in m[1]]]
    if t == 10:
        return [10, to_json_tree(m[1]), to_json_tree(m[2])]
    if t == 11:
        return [11, to_json_tree(m[1]), [to_json_tree(x) for x in m[2]],
                [[None if k == [] else txt(k), to_json_tree(v)] for k, v in m[3]]]
    if t == 12:
        return [12, to_json_tree(m[1])]
    if t == 13:
        return [13, txt(m[1])]
    raise ValueError(m)
