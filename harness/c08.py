"""C08 -- any docstring in any format is rendered; markup errors degrade to plain text."""
from __future__ import annotations
import ast, itertools, json, os, re
from pathlib import Path
from typing import Any, Dict, List, Optional, Tuple
import lib
from lib import PropertyCheck, Violation, enc, dec, txt

WORKER = 'c08_docflow.py'

FMT_NAMES = ['epytext', 'restructuredtext', 'google', 'numpy', 'plaintext', 'nosuchformat', '_types']
FMT_ID = {n: i for i, n in enumerate(FMT_NAMES)}
KIND_OBJ = {'module': 'm', 'class': 'm.C', 'function': 'm.f', 'method': 'm.C.meth', 'attribute': 'm.C.x',
            'property': 'm.C.prop'}
OID = {'A': 1, 'B': 2, 'P': 3, 'I': 4}
INHERITOR = {'method': 'm.D.meth', 'attribute': 'm.D.x', 'property': 'm.D.prop'}
KEY_OF = {v: k for k, v in OID.items()}
DOC_A = ' docA <&> \u00e9\n  second line\n'
DOC_B = 'docB'
DOC_P = 'docP of the parent'
PT_WARNING = 7777           # canonical id of "a warning appended by processtypes"
OPCODE = {'format_docstring': 0, 'format_summary': 1, 'format_toc': 2, 'extract_fields': 3, 'parse_docstring': 4,
          'ensure': 5}
PARSER_KINDS = ['ok', 'pe_app', 'pe_noapp', 'ValueError', 'KeyError', 'RecursionError', 'Custom']
TYPE_FIELDS = ('type', 'rtype', 'ytype', 'returntype', 'yieldtype')


def P(i: int, **kw: Any) -> dict:
    d = {'id': i, 'to_stan': 'ok', 'to_node': 'ok', 'para': True, 'boom_sum': False, 'title': 0, 'fields': []}
    d.update(kw)
    return d


def plain_summary_text(doc: str) -> str:
    """What SummaryExtractor shows for a short plaintext docstring (first paragraph, newlines -> spaces)."""
    return doc.split('\n\n')[0].strip('\n').replace('\n', ' ')


# ------------------------------------------------------------------------------------------------ case -> model input
class Tables:
    """Derives the oracle tables of the model from the stub specifications of a case.  This is the statement of
    what the stubs in harness/impl/c08_docflow.py do, written independently of pydoctor."""

    def __init__(self, case: dict):
        self.case = case
        self.pdocs: Dict[int, list] = {}
        self.ptypes: Dict[int, list] = {}
        self.parsers: List[list] = []
        self.plainsums: List[list] = []
        self.sum_ids: Dict[str, int] = {}
        for text, beh in case['parsers'].items():
            spec = beh['pdoc']
            self.row(spec)
            errs = [spec['id'] * 10 + i for i in range(beh.get('errs', 0))]
            kind = beh['kind']
            if kind == 'ok':
                self.parsers.append([text, 0, errs, spec['id']])
            elif kind == 'pe_app':
                self.parsers.append([text, 1, errs + [spec['id'] * 10 + 9], spec['id']])
            elif kind == 'pe_noapp':
                self.parsers.append([text, 1, errs, spec['id']])
            else:
                self.parsers.append([text, 2, errs, spec['id']])
        for key, spec in case.get('preset', {}).items():
            self.row(spec)
        self.row(P(99))
        # summaries of plaintext docstrings: the real SummaryExtractor / node2stan run on them
        texts = [o['doc'] for o in case['objs'].values() if o['doc'] is not None]
        for op in case['ops']:
            if op[0] == 'parse_docstring':
                texts.append(op[2])
        for i, t in enumerate(dict.fromkeys(texts)):
            sid = 300 + i
            self.sum_ids[plain_summary_text(t)] = sid
            self.plainsums.append([t, [2, sid]])
            self.pdocs[sid] = [sid, [] if 'BOOM' in t else [sid], [], [], [0], [2]]

    def row(self, spec: dict) -> None:
        pid = spec['id']
        if pid in self.pdocs:
            return
        fields = spec.get('fields', [])
        eager = [f for f in fields if f['tag'] in TYPE_FIELDS]
        lazy = [f for f in fields if f['tag'] == 'note']
        var = [f for f in fields if f['tag'] in ('ivar', 'cvar', 'var')]
        assert len(eager) + len(lazy) + len(var) == len(fields), 'stub fields limited to rtype / note / ivar'
        to_stan = [pid] if spec['to_stan'] == 'ok' else []
        if spec['to_node'] != 'ok':
            summ = [0]
        elif spec.get('typetext') is not None:
            summ = [2, pid + 100]      # not used
        elif not spec.get('para', True):
            summ = [1]
        else:
            summ = [2, pid + 100]
            self.pdocs[pid + 100] = [pid + 100, [] if spec.get('boom_sum') else [pid + 100], [], [], [0], [2]]
        if spec['to_node'] == 'NotImplementedError':
            toc = [0]
        elif spec['to_node'] != 'ok':
            toc = [1]
        elif not spec.get('title'):
            toc = [2]
        else:
            toc = [3, pid + 200]
            self.pdocs[pid + 200] = [pid + 200, [pid + 200] if spec['title'] == 1 else [], [], [], [0], [2]]
        frow = [f['body']['id'] for f in eager] + [f['body']['id'] for f in lazy]
        vrow = [[OID[f['arg_obj']], f['body']['id']] for f in var]
        self.pdocs[pid] = [pid, to_stan, frow, vrow, summ, toc]
        for f in fields:
            self.row(f['body'])
        # what markup.processtypes does to this parsed docstring (real wrapper, real TypeDocstring tokenizer)
        if eager:
            f = eager[0]
            assert len(eager) == 1
            b = f['body']
            if b['to_node'] == 'ParseError':
                self.ptypes[pid] = [pid, 1, [], 0]
            elif b['to_node'] != 'ok':
                self.ptypes[pid] = [pid, 2, [], 0]
            else:
                warns = [PT_WARNING] if b.get('typetext', '').count('[') != b.get('typetext', '').count(']') else []
                newp = pid + 1000
                newb = b['id'] + 1000
                self.ptypes[pid] = [pid, 0, warns, newp]
                # the replaced body is a real ParsedTypeDocstring: renders fine, shows its text
                self.pdocs[newb] = [newb, [b['id']], [], [], [0], [0]]
                self.pdocs[newp] = [newp, to_stan, [newb] + [x['body']['id'] for x in lazy], vrow,
                                    summ, toc]


def to_model(case: dict) -> str:
    t = Tables(case)
    objs = []
    for key, o in case['objs'].items():
        parent = [OID[o['parent']]] if o.get('parent') else []
        modfmt = [FMT_ID[case['modfmt']]] if case.get('modfmt') else []
        doc = [o['doc']] if o['doc'] is not None else []
        preset = [case['preset'][key]['id']] if key in case.get('preset', {}) else []
        objs.append([OID[key], parent, modfmt, doc, preset, [OID[k] for k in o.get('inherits', [])]])
    cfg = [FMT_ID[case['sysfmt']], 1 if case['pt'] else 0, 1 if case.get('tocdepth', 6) > 0 else 0, objs,
           list(t.pdocs.values()), t.parsers, list(t.ptypes.values()), t.plainsums]
    ops = []
    for op in case['ops']:
        if op[0] == 'parse_docstring':
            ops.append([OPCODE[op[0]], OID[op[1]], op[2], OID[op[3] if len(op) > 3 else op[1]]])
        else:
            ops.append([OPCODE[op[0]], OID[op[1]]])
    return enc([0, cfg, ops])


# ------------------------------------------------------------------------------------------------ canonical forms
def m_stan(s: Any) -> Any:
    k = s[0]
    return {0: lambda: ['pre', txt(s[1])], 1: lambda: ['opaque', s[1]], 2: lambda: ['broken'],
            3: lambda: ['undoc_span'], 4: lambda: ['broken_summary'], 5: lambda: ['no_summary'],
            6: lambda: ['undoc_p', 'Undocumented'], 7: lambda: ['none']}[k]()


def m_parsed(p: Any) -> Any:
    if not p:
        return None
    p = p[0]
    if p[0] == 0:
        return ['plain', txt(p[1])]
    if p[0] == 1:
        # processtypes mutates the parsed docstring in place: the processed docstring (id + 1000) IS the object (id)
        return ['mark', p[1] - 1000 if p[1] >= 1000 else p[1]]
    return ['stanonly', m_stan(p[1])]


def m_perr(e: Any) -> Any:
    return [0, e[1]] if e[0] == 0 else [e[0]]


def canon_model(case: dict, out: Any) -> Any:
    opres, pe, caches = out
    ops = []
    for op, r in zip(case['ops'], opres):
        raised, res, reps = r
        d: Dict[str, Any] = {'raised': bool(raised)}
        if not raised:
            if op[0] == 'format_docstring':
                d['body'] = m_stan(res[0])
                d['fields'] = [m_stan(x) for x in res[1]]
            elif op[0] in ('format_summary', 'format_toc'):
                d['stan'] = m_stan(res)
            elif op[0] == 'parse_docstring':
                d['parsed'] = m_parsed([res])
            elif op[0] == 'ensure':
                d['source'] = KEY_OF[res[0]] if res else None
        d['reports'] = [[KEY_OF.get(w, w), s, m_perr(e)] for w, s, e in reps]
        ops.append(d)
    return {'ops': ops,
            'parse_errors': sorted([s, KEY_OF.get(o, o)] for s, o in pe),
            'caches': {KEY_OF[o]: [m_parsed(a), m_parsed(b)] for o, a, b in caches}}


def canon_impl(case: dict, r: Any) -> Any:
    if 'ops' not in r:
        return {'worker': r}
    t = Tables(case)

    def stan(s: Any) -> Any:
        if s and s[0] == 'other' and s[1] in t.sum_ids:
            return ['opaque', t.sum_ids[s[1]]]
        return s

    def parsed(p: Any) -> Any:
        if p is None:
            return None
        if p[0] == 'rst' and p[1] in t.sum_ids:
            return ['mark', t.sum_ids[p[1]]]
        if p[0] == 'stanonly':
            return ['stanonly', stan(p[1])]
        return p

    ops = []
    for op, o in zip(case['ops'], r['ops']):
        d: Dict[str, Any] = {'raised': o['raised'] is not None}
        if o['raised'] is None:
            if op[0] == 'format_docstring':
                d['body'] = stan(o['body'])
                d['fields'] = [stan(x) for x in o['fields']]
            elif op[0] in ('format_summary', 'format_toc'):
                d['stan'] = stan(o['stan'])
            elif op[0] == 'parse_docstring':
                d['parsed'] = parsed(o['parsed'])
            elif op[0] == 'ensure':
                d['source'] = o['source']
        reps = []
        for who, sec, tag in o['reports']:
            if tag[0] in (0, 1, 2):
                reps.append([who, 0 if sec == 'docstring' else sec, tag])
            elif tag[0] == 3:
                reps.append([who, 0 if sec == 'docstring' else sec, [0, PT_WARNING]])
            # tag 4: reports that do not come from reportErrors (unresolved links of the real type renderer, ...)
        d['reports'] = reps
        ops.append(d)
    return {'ops': ops,
            'parse_errors': sorted([0 if s == 'docstring' else s, w] for s, w in r['parse_errors']),
            'caches': {k: [parsed(a), parsed(b)] for k, (a, b) in r['caches'].items()}}


# ------------------------------------------------------------------------------------------------ the property, on one observation
def source_of(case: dict, key: str) -> Tuple[Optional[str], Optional[str]]:
    """(source key, docstring) as model.get_docstring finds them: the object itself, then what it overrides."""
    for k in [key] + case['objs'][key].get('inherits', []):
        d = case['objs'][k]['doc']
        if d:
            return k, d
        if d is not None:
            return k, None
    return None, None


def gives_up(case: dict, key: str) -> Optional[str]:
    """Does the (stub) parser pipeline give up on key's docstring?  'pe' / 'exc' / None.  Independent of the model:
    read off the stub specification."""
    o = {'doc': source_of(case, key)[1]}
    if not o['doc']:
        return None
    fmt = 'plaintext' if case['sysfmt'] == 'plaintext' else (case.get('modfmt') or case['sysfmt'])
    if fmt in ('plaintext', 'nosuchformat', '_types'):
        return None
    beh = case['parsers'].get(o['doc'])
    if beh is None:
        return None
    if beh['kind'] in ('pe_app', 'pe_noapp'):
        return 'pe'
    if beh['kind'] != 'ok':
        return 'exc'
    if case['pt'] and fmt not in ('google', 'numpy'):
        for f in beh['pdoc'].get('fields', []):
            if f['tag'] in TYPE_FIELDS and f['body']['to_node'] != 'ok':
                return 'pe' if f['body']['to_node'] == 'ParseError' else 'exc'
    return None


def oracle_inject(case: dict, r: Any) -> Optional[Tuple[str, str]]:
    """C08 stated on the canonical observation of the REAL code for one fault-injection case.
    Returns (class, message) or None.  class is used to recognise known findings."""
    if 'worker' in r:
        return ('worker', 'worker failed: %s' % json.dumps(r['worker'])[:300])
    objs = case['objs']
    def contract_broken_for(key: str) -> bool:
        # the stub raises ParseError although nothing is in the errs list: a stub that breaks the parser contract
        # ("this error should already be stored in the errs list"), not a defect of pydoctor
        beh = case['parsers'].get(source_of(case, key)[1] or '')
        if not beh or beh.get('errs'):
            return False
        if beh['kind'] == 'pe_noapp':
            return True
        return beh['kind'] == 'ok' and any(f['tag'] in TYPE_FIELDS and f['body']['to_node'] == 'ParseError'
                                           for f in beh['pdoc'].get('fields', []))
    pe = {(s, w) for s, w in r['parse_errors']}
    total_reports: Dict[str, int] = {}
    all_reports: List[Any] = []
    # docstrings handed to parse_docstring directly with ANOTHER source (their errors go elsewhere / are consumed by the once rule)
    prior_parse = {op[2]: True for op in case['ops'] if op[0] == 'parse_docstring'}
    seen_fd: Dict[str, int] = {}
    for op, o in zip(case['ops'], r['ops']):
        name, key = op[0], op[1]
        if o['raised']:
            if name == 'extract_fields' and objs[key]['doc'] is None:
                continue            # documented precondition: "Must only be called for objects that have a docstring"
            if name == 'format_toc':
                return ('toc_raises', 'format_toc(%s) raised instead of returning' % key)
            return ('raises', '%s(%s) raised instead of returning' % (name, key))
        for who, sec, tag in o['reports']:
            total_reports[who] = total_reports.get(who, 0) + 1
            all_reports.append((who, sec, tag))
        if name == 'format_docstring':
            seen_fd[key] = seen_fd.get(key, 0) + 1
            if seen_fd[key] >= 2 and o['reports'] and key not in case.get('reparsed', []):
                return ('once', 'second format_docstring(%s) reported again: %s' % (key, o['reports']))
            src, own_doc = source_of(case, key)
            src = src or key
            g = gives_up(case, key)
            fresh = key not in case.get('preset', {}) and not any(
                q[0] == 'extract_fields' and objs[q[1]].get('var_target') == key for q in case['ops'])
            if own_doc and g and fresh:
                if o['body'] != ['pre', own_doc]:
                    return ('fallback', 'parser gave up on %s but the body is %s, not the whole docstring as plain text'
                            % (key, o['body']))
                contract_broken = contract_broken_for(key)
                if not (g == 'pe' and contract_broken) and (0, src) not in pe:
                    return ('unreported', 'parser gave up on the docstring shown for %s but its owner %s is not in parse_errors[docstring]' % (key, src))
                if not (g == 'pe' and contract_broken) and not total_reports.get(src):
                    return ('unreported', 'parser gave up on the docstring shown for %s but nothing was reported against its owner %s' % (key, src))
            if own_doc and g == 'exc' and fresh and seen_fd[key] == 1:
                # the MESSAGES: a crash that is not a ParseError is itself among the reports made for the owner, even when
                # the parser had recorded recoverable warnings before crashing
                mine = [t for w, s_, t in all_reports if w == src]
                if mine and [1] not in mine and not prior_parse.get(own_doc):
                    return ('crash_unreported', 'the parser crashed on the docstring shown for %s after recording %d warning(s): '
                            'the crash itself is not among the messages reported against %s: %s' % (key, len(mine), src, mine))
            if o.get('body') == ['broken'] and own_doc:
                return ('textlost', 'format_docstring(%s) shows "Broken description" although there is a docstring (owner: %s)' % (key, src))
            # a renderer failure of the main body: plaintext of the source's docstring
            beh = case['parsers'].get(own_doc or '')
            if own_doc and fresh and not g and beh and beh['kind'] == 'ok' and beh['pdoc']['to_stan'] != 'ok' \
                    and effective_fmt(case) not in ('plaintext', 'nosuchformat', '_types'):
                if o['body'] != ['pre', own_doc]:
                    return ('fallback', 'to_stan failed for %s but the body is %s' % (key, o['body']))
                if (0, src) not in pe or not total_reports.get(src):
                    return ('unreported', 'to_stan failed for the docstring shown for %s but nothing was reported against its owner %s' % (key, src))
            if own_doc and fresh and not g and beh and beh['kind'] == 'ok' and beh.get('errs') \
                    and effective_fmt(case) not in ('plaintext', 'nosuchformat', '_types'):
                if (0, src) not in pe or not total_reports.get(src):
                    return ('unreported', 'recovered markup errors of %s were not reported against %s' % (key, src))
                if o['body'][0] == 'pre' and beh['pdoc']['to_stan'] == 'ok':
                    return ('fallback', 'recovered markup errors of %s: parsed form dropped for plain text' % key)
    # an object that only inherits its documentation is never reported itself: the problem belongs to the owner
    for key, ob in objs.items():
        if ob.get('inherits') and ob['doc'] is None and any(w == key for s_, w in pe):
            return ('context', '%s only inherits its docstring but is in parse_errors: errors must go to the owner of the text' % key)
    # isolation, split fields: the parent P is healthy (its parser, renderer and summary work) whatever happens to
    # the attribute A that one of its @ivar fields documents
    if case.get('kind') == 'split':
        bp = case['parsers'][objs['P']['doc']]
        healthy = bp['kind'] == 'ok' and bp['pdoc']['to_stan'] == 'ok' and bp['pdoc']['to_node'] == 'ok' \
            and not bp['pdoc'].get('boom_sum') and effective_fmt(case) not in ('plaintext', 'nosuchformat', '_types')
        for op, o in zip(case['ops'], r['ops']):
            if healthy and op[1] == 'P' and not o['raised']:
                if op[0] == 'format_summary' and o['stan'] != ['opaque', bp['pdoc']['id'] + 100]:
                    return ('isolation_split', 'summary of the healthy parent P is %s after its attribute A failed' % o['stan'])
                if op[0] == 'format_docstring' and o['body'] != ['opaque', bp['pdoc']['id']]:
                    return ('isolation_split', 'body of the healthy parent P is %s after its attribute A failed' % o['body'])
    # isolation: B is healthy whatever happened to A
    if 'B' in objs and objs['B']['doc'] == DOC_B and DOC_B not in case['parsers'] and not case.get('b_touched'):
        plain = effective_fmt(case) in ('plaintext', 'nosuchformat', '_types')
        for op, o in zip(case['ops'], r['ops']):
            if op[1] != 'B' or o['raised']:
                continue
            if o['reports']:
                return ('isolation', 'healthy object B got reports %s' % o['reports'])
            if op[0] == 'format_docstring':
                want = ['pre', DOC_B] if plain else ['opaque', 99]
                if o['body'] != want or o['fields']:
                    return ('isolation', 'healthy object B renders as %s, expected %s' % (o['body'], want))
            if op[0] == 'format_summary':
                if plain:
                    if o['stan'][0] != 'opaque' or o['stan'][1] < 300:
                        return ('isolation', 'healthy object B summary is %s' % o['stan'])
                elif o['stan'] != ['opaque', 199]:
                    return ('isolation', 'healthy object B summary is %s, expected the summary of its docstring' % o['stan'])
        if any(w == 'B' for s, w in pe):
            return ('isolation', 'healthy object B is in parse_errors')
    return None


def failing_field_renderers(case: dict) -> int:
    """how many stub field bodies have a raising to_stan (read off the stub specification)"""
    n = 0
    for b in list(case['parsers'].values()) + [{'pdoc': p} for p in case.get('preset', {}).values()]:
        for f in b['pdoc'].get('fields', []):
            if f['tag'] in ('note',) + TYPE_FIELDS and f['body']['to_stan'] != 'ok':
                n += 1
    return n


def fieldlost_inject(case: dict, r: Any) -> Optional[str]:
    """A rendered field shows "Broken description": its text is not shown anywhere."""
    if 'worker' in r:
        return None
    for op, o in zip(case['ops'], r['ops']):
        if op[0] == 'format_docstring' and not o['raised'] and ['broken'] in o.get('fields', []):
            return ('format_docstring(%s) renders %d field(s) as "Broken description" (stub field renderers that raise: %d)'
                    % (op[1], o['fields'].count(['broken']), failing_field_renderers(case)))
    return None


def effective_fmt(case: dict) -> str:
    return 'plaintext' if case['sysfmt'] == 'plaintext' else (case.get('modfmt') or case['sysfmt'])


# ------------------------------------------------------------------------------------------------ the property, real parsers
def oracle_real_all(case: dict, r: Any) -> List[Tuple[str, str]]:
    """C08 on one observation of the real parsers: EVERY failed clause (so that an instance of a known finding can
    never hide another violation on the same input)."""
    out: List[Tuple[str, str]] = []
    if r.get('hang'):
        return [('hang', 'no result within %ss (wall clock): building and rendering a %s whose %s docstring is %r does not terminate'
                 % (r.get('limit_s'), case['kind'], case['fmt'], case['text'][:120]))]
    if r.get('crashed'):
        return [('crash', 'interpreter died (rc=%s)' % r.get('rc'))]
    if r.get('worker_error'):
        return [('worker', r['worker_error'])]
    if r.get('raised'):
        return [('raises:' + r.get('stage', '?'), '%s raised %s at %s' % (r.get('stage'), r['raised'], r.get('where')))]
    doc = r.get('docstring')
    if r.get('flatten_error'):
        # (lone surrogates in a docstring are escaped at extraction time since /repo e099606: flatten never sees them)
        out.append(('flatten', 'the result cannot be flattened: %s' % r['flatten_error']))
    if r.get('src_qn') and r['src_qn'] != r.get('qn') and r.get('qn') in r.get('parse_errors', []):
        out.append(('context', 'the object only inherits its docstring but was added to parse_errors (owner: %s)' % r['src_qn']))
    if r.get('fallback_ctx') and r.get('src_qn') and any(x != r['src_qn'] for x in r['fallback_ctx']):
        out.append(('context', 'format_docstring_fallback was given %s as context, the docstring belongs to %s'
                    % (r['fallback_ctx'], r['src_qn'])))
    if r.get('to_node_failed') and doc:
        # an internal failure of the renderer happened while this object was rendered
        if not r['in_parse_errors'] or r['reports_obj'] < 1:
            out.append(('internal_unreported', 'renderer failure (%s) but nothing is reported against the object; body shown: %r'
                        % (r['to_node_failed'], r.get('body_html', '')[:120])))
        elif r['body_kind'] != 'pre' or r.get('pre_text') != doc:
            out.append(('internal_textlost', 'renderer failure (%s) but the body is not the whole docstring as plain text: %r'
                        % (r['to_node_failed'], r.get('body_html', '')[:120])))
    gave_up = r.get('parser_raised')
    if gave_up:
        if not r['in_parse_errors'] or r['reports_obj'] < 1:
            out.append(('unreported', 'the parser gave up (%s) but the object is not reported' % gave_up))
        if doc and (r['body_kind'] != 'pre' or r.get('pre_text') != doc):
            out.append(('fallback', 'the parser gave up (%s) but the body is not the whole docstring as plain text: %r'
                        % (gave_up, r.get('body_html', '')[:160])))
    if gave_up and gave_up != 'ParseError':
        # the MESSAGES: an internal failure (not a ParseError the parser recorded itself) must be among what is reported,
        # whatever recoverable warnings the parser had recorded before it crashed
        if not any(t.startswith('bad docstring: %s:' % gave_up) for t in r.get('report_texts', [])):
            out.append(('crash_unreported', 'the parser crashed with %s (after recording %d other message(s)) and the docstring is '
                        'degraded to plain text, but the crash itself is not among the reported messages: %s'
                        % (gave_up, len(r.get('report_texts', [])), r.get('report_texts', [])[:3])))
    if case['fmt'] == 'epytext' and r.get('fatal_left') and not gave_up:
        out.append(('fatal_not_raised', 'the epytext parser recorded %d FATAL error(s) and still returned a parsed docstring: '
                    'the docstring is rendered as markup, not as plain text' % r['fatal_left']))
    if r.get('fallback_called') and doc:
        if r['body_kind'] != 'pre' or r.get('pre_text') != doc:
            out.append(('fallback', 'the renderer failed but the body is not the whole docstring as plain text'))
        if not r['in_parse_errors']:
            out.append(('unreported', 'the renderer failed but the object is not in parse_errors'))
    if r.get('body_kind') == 'broken' and doc:
        out.append(('textlost', 'body is "Broken description" for a documented object'))
    if r.get('broken_fields'):
        out.append(('fieldlost', '%d field(s) rendered as "Broken description": their text is not shown (to_stan of %d field '
                    'bodies raised: %s; object reported: %s)' % (r['broken_fields'], r.get('field_to_stan_failed', 0),
                                                                 r.get('field_to_stan_errors'), bool(r['in_parse_errors'] and r['reports_obj']))))
    if r.get('field_to_stan_failed') and (not r['in_parse_errors'] or r['reports_obj'] < 1):
        out.append(('unreported', 'the renderer of a field failed but nothing is reported against the object'))
    if r.get('recovered_errs') and not r['in_parse_errors']:
        out.append(('unreported', 'the parser recorded %d error(s) but the object is not in parse_errors' % r['recovered_errs']))
    if r['in_parse_errors'] and r['reports_obj'] < 1:
        out.append(('unreported', 'object in parse_errors but no report names it'))
    if r.get('second_call_reports'):
        out.append(('once', 'errors reported again on the second format_docstring call'))
    if r['body_kind'] == 'pre' and doc and r.get('pre_text') != doc:
        out.append(('fallback', 'plain text body differs from the docstring'))
    if r['other'] != r['other_ref']:
        out.append(('isolation', 'output of the unrelated object changed: %r vs %r' % (r['other'], r['other_ref'])))
    if [n for n in r['parse_errors'] if n not in (r.get('qn'), r.get('src_qn'))]:
        out.append(('isolation', 'another object was added to parse_errors: %s' % r['parse_errors']))
    seen = set()
    return [x for x in out if not (x in seen or seen.add(x))]


def oracle_real(case: dict, r: Any) -> Optional[Tuple[str, str]]:
    """First violation that is not the known 'fieldlost' class, else that one, else None (used by replay)."""
    vs = oracle_real_all(case, r)
    for v in vs:
        if v[0] != 'fieldlost':
            return v
    return vs[0] if vs else None


# ------------------------------------------------------------------------------------------------ generators
EPY = ['L{foo}', 'L{unclosed', 'C{code}', 'B{bold', 'I{it}', '@param x: desc', '@type x: C{int}', '@return: r',
       '@rtype: L{x}', '@ivar y: z', '@unknownfield: a', '  - list item', '  1. numbered', 'Heading\n=======',
       'Heading\n-------', 'Sub\n~~~', 'literal::\n    block', '>>> doctest\n... more', '}', '{', 'U{http://x|y}',
       'U{a<b>}', 'E{lb}', 'E{bogus}', 'S{alpha}', 'S{nosuch}', 'M{math}', 'X{index}', 'G{graph}', '@param: noname',
       '@', '@:', 'L{a|b|c}', 'L{<b>}', 'L{text<target>}', 'C{B{I{nested}}}', '@type: List[int', '@rtype: {a, b',
       '@raise E: when', '@note: n', '@see: s', '@author: me', '@since: 1', '@var v: w', '@cvar c: d',
       '@keyword k: v', '@yield: y', '@param *args: a', 'text::', '    indented first', '@param x: first\n@param x: again',
       'p1\n\n\n\np2', '- item\n  - nested\n - dedent', '1. one\n 2. two', 'L{}', 'L{ }', 'C{}', '@param x:', 'x{y}',
       'L{a.b.c}', 'para E{rb} end', 'Heading\n===\ntoo short', '@newfield a: b', '@group g: a, b', '@sort: a']
RST = ['`interp`', '``lit``', '`unclosed', '*emph*', '**strong', ':param x: d', ':type x: int', ':returns: r',
       ':rtype: List[int', '.. note:: hi', '.. unknown:: x', '.. code-block:: python\n\n   x=1', 'Title\n=====',
       'Title\n==', '- item\n - bad indent', '1. a\n3. c', '| line block', '.. _target:', 'target_', '`a <b>`_',
       '.. image:: x.png', '.. include:: /nonexistent/file', '.. raw:: html\n\n   <b>', '.. |sub| replace:: x', '|sub|',
       '[1]_', '.. [1] foot', '::\n\n  lit', '+---+\n| a |\n+---+', '=== ===\n a   b\n=== ===', ':field:',
       ':Parameters: x', '.. python:: code', '.. math:: x^2', '.. contents::', '.. sectnum::',
       '.. csv-table::\n   :file: /nonexistent', '.. role:: x', ':x:`y`', '.. default-role:: foo', '.. class:: cls',
       '.. meta::\n   :k: v', '.. table::', '.. list-table::', '.. versionadded:: 1', '.. deprecated::',
       ':py:class:`X`', ':obj:`y`', ':ivar a: b', ':raises E: m', ':type: int', ':rtype: {a, b', ':param x', '.. ',
       '..', 'x\n---\ny\n===\nz\n---', '====\nOver\n====', '`', '``', '\\', '* a\n* b\n\n  c', 'a_', 'a__', '|x',
       ':returns:', '.. figure:: f.png\n\n   cap', '.. container:: c\n\n   t', '.. topic:: T\n\n   b',
       '.. admonition:: A\n\n   b', '.. rubric:: R', '.. epigraph::\n\n   q', '.. date::', '.. unicode:: U+2014',
       '.. |d| date::', '.. header:: h', '.. target-notes::', '.. title:: t', '.. replace:: x', ':1:', ':\\:', '`a`b`',
       '.. code::\n\n  >>> x', '>>> doctest', 'term\n  definition', ':Author: me', '.. attention::', '.. parsed-literal::\n\n  *x*',
       '.. py:function:: f', ':param int x: typed', ':keyword k: v', ':var v: w', ':cvar c: d', ':yields: y']
GOOGLE = ['Args:\n    x (int): desc', 'Returns:\n    int: r', 'Raises:\n    ValueError: if', 'Attributes:\n    a: b',
          'Args:\n  x: (unbalanced', 'Example:\n    >>> x', 'Note:\n    hi', 'Yields:\n  str', 'Args:\nnoindent',
          'Todo:\n    * a', 'Keyword Args:\n    k: v', 'Warns:\n  W: w', 'See Also:\n    foo: bar',
          'Args:\n    *args: a\n    **kw: b', 'Returns:\n', 'Args:\n    x (List[int): d', 'Args:\n    x ({a, b): d',
          'Args:\n\tx: tab', 'Returns:\n    :class:`X`: r', 'Args:', 'Args:\n    x (int, optional): d',
          'Methods:\n    f(x): d', 'References:\n    r', 'Warning:\n    w', 'Usage:\n    u', 'Args:\n    x (`unclosed): d',
          'Attributes:\n    a (int): b\n      c', 'Raises:\n    :exc:`E`', 'Yield:\n    y', 'Return:\n    r',
          'Args:\n    x: d\n\n    y: e', 'str: a type line', 'Args :\n    x', 'Parameters:\n    p (str): q']
NUMPY = ['Parameters\n----------\nx : int\n    desc', 'Returns\n-------\nint\n    r',
         'See Also\n--------\nfoo, bar : desc', 'Parameters\n---\nx', 'Raises\n------\nE\n  m',
         'Attributes\n----------\na : b', 'Parameters\n----------\nx : {1, 2', 'Yields\n------\n', 'Notes\n-----\ntext',
         'Examples\n--------\n>>> a', 'Other Parameters\n----------------\ny : z', 'Methods\n-------\nf(x)\n  d',
         'Parameters\n----------\nx, y : int', 'Parameters\n----------\n*args\n**kwargs', 'Returns\n-------\n',
         'Parameters\n----------', 'See Also\n--------\n:func:`a`, b\n    d', 'See Also\n--------\n!!bad!!',
         'Warns\n-----\nW', 'References\n----------\n.. [1] r', 'Parameters\n==========\nx', 'Returns\n-------\nx : List[int',
         'Parameters\n----------\nx : int, optional\n    d\n\n    more', 'Receives\n--------\nr', 'Warnings\n--------\nw',
         '.. deprecated:: 1\n   d', 'Parameters\n----------\nx : `unclosed', 'See also\n--------\nf : d', 'index\n-----\n']
SEPS = ['\n', '\n\n', ' ', '\n    ', '\n  ', '\n\n    ', '']
CTRL = [0, 1, 7, 8, 9, 11, 12, 13, 27, 28, 29, 30, 31, 127, 0x85, 0xa0, 0xad, 0x200b, 0x2028, 0x2029, 0xfeff, 0xfffe,
        0xffff, 0xd800, 0xdbff, 0xdc00, 0xdfff, 0x10ffff, 0x1f600, 0x0301, 0x202e]


class Gen:
    def __init__(self, rng: Any):
        self.rng = rng
        self.harvest: List[str] = []

    def load_harvest(self, limit_files: int) -> None:
        roots = [lib.REPO / 'pydoctor', Path('/venv/lib/python3.12/site-packages')]
        files: List[Path] = []
        for root in roots:
            fs = sorted(root.rglob('*.py'))
            if root.name == 'site-packages':
                self.rng.shuffle(fs)
                fs = fs[:limit_files]
            files.extend(fs)
        docs: List[str] = []
        for f in files:
            try:
                tree = ast.parse(f.read_text(errors='replace'))
            except Exception:  # noqa
                continue
            for node in ast.walk(tree):
                if isinstance(node, (ast.Module, ast.ClassDef, ast.FunctionDef, ast.AsyncFunctionDef)):
                    try:
                        d = ast.get_docstring(node, clean=False)
                    except Exception:  # noqa
                        d = None
                    if d and 10 < len(d) < 3000:
                        docs.append(d)
        self.rng.shuffle(docs)
        self.harvest = docs[:4000]

    def fragments(self) -> str:
        pool = self.rng.choice([EPY, RST, GOOGLE, NUMPY, EPY + RST + GOOGLE + NUMPY])
        n = self.rng.randint(1, 6)
        parts = []
        for _ in range(n):
            parts.append(self.rng.choice(pool))
            parts.append(self.rng.choice(SEPS))
        s = 'Summary line.' + self.rng.choice(SEPS) if self.rng.random() < 0.5 else ''
        return s + ''.join(parts)

    def mutate(self, s: str) -> str:
        r = self.rng
        for _ in range(r.randint(1, 4)):
            if not s:
                break
            k = r.randint(0, 8)
            i = r.randrange(len(s))
            if k == 0:
                s = s[:i] + s[i + 1:]
            elif k == 1:
                s = s[:i] + r.choice('{}`*:@|_\\<>[]()=-~.\n\t ') + s[i:]
            elif k == 2:
                j = min(len(s), i + r.randint(1, 20))
                s = s[:i] + s[i:j] * 2 + s[j:]
            elif k == 3:
                lines = s.split('\n')
                li = r.randrange(len(lines))
                lines[li] = ' ' * r.randint(0, 6) + lines[li].lstrip()
                s = '\n'.join(lines)
            elif k == 4:
                s = s[:i] + chr(r.choice(CTRL)) + s[i:]
            elif k == 5:
                lines = s.split('\n')
                r.shuffle(lines)
                s = '\n'.join(lines)
            elif k == 6:
                s = s[:i]
            elif k == 7:
                s = s[:i] + r.choice(EPY + RST) + s[i:]
            else:
                s = s.replace(r.choice(['\n', ':', '`', '{', ' ']), r.choice(['\n\n', '', '::', '``', '}{']), 1)
        return s

    def unicode_soup(self) -> str:
        r = self.rng
        n = r.randint(1, 40)
        out = []
        for _ in range(n):
            k = r.random()
            if k < 0.3:
                out.append(chr(r.choice(CTRL)))
            elif k < 0.5:
                out.append(chr(r.randint(0x20, 0x7e)))
            elif k < 0.7:
                out.append(chr(r.randint(0xa0, 0x2fff)))
            elif k < 0.8:
                out.append(chr(r.randint(0xd800, 0xdfff)))
            elif k < 0.9:
                out.append(chr(r.randint(0x10000, 0x10ffff)))
            else:
                out.append(r.choice(['\n', '\n\n', ' ', '@param x:', ':param x:', 'L{', '`', 'Args:\n  ']))
        return ''.join(out)

    def text(self) -> Tuple[str, str]:
        r = self.rng.random()
        if r < 0.40:
            s = self.fragments()
            if self.rng.random() < 0.5:
                s = self.mutate(s)
            return 'fragments', s
        if r < 0.75 and self.harvest:
            s = self.rng.choice(self.harvest)
            if self.rng.random() < 0.8:
                s = self.mutate(s)
            return 'harvest', s
        return 'unicode', self.unicode_soup()


# complete cases (docformat, --process-types and kind fixed) run first
CORPUS_FORCED = [
    # a recoverable warning, THEN an internal crash of the parser: both must be reported
    {'text': '`unbalanced backquote\n\n.. include:: defaults\x00.rst', 'fmt': 'restructuredtext', 'pt': 0, 'kind': 'function', 'order': 'sdt'},
    {'text': 'Args:\n    x: `unbalanced\n\n.. include:: defaults\x00.rst', 'fmt': 'google', 'pt': 0, 'kind': 'method', 'order': 'dst'},
    {'text': 'Parameters\n----------\nx : `unbalanced\n\n.. include:: defaults\x00.rst', 'fmt': 'numpy', 'pt': 1, 'kind': 'class', 'order': 'sdt'},
    # ... and a crash of the --process-types step after an epytext warning
    {'text': 'Text.\n\n@param x bad item\n@rtype: {C{int}, C{str}}', 'fmt': 'epytext', 'pt': 1, 'kind': 'function', 'order': 'sdt'},
    {'text': 'Text.\n\n:rtype: {`int`, `str`}', 'fmt': 'restructuredtext', 'pt': 1, 'kind': 'inherited', 'order': 'tds'},
]

CORPUS_REAL = [
    # long INVALID link targets: rejecting them must take no time (an ambiguous nested quantifier in the target check
    # makes it exponential: the call never returns -> reported as a hang with this docstring)
    'See L{pydoctor.epydoc.markup.epytext.ParsedEpytextDocstring[int]} for details.',
    'L{a_rather_long_identifier_name_of_more_than_forty_characters!}\n\n@param x: L{twisted.internet.interfaces.IReactorTime.callLater-}',
    'L{short[1]} and L{pydoctor.epydoc.markup.epytext.ParsedEpytextDocstring} are fine',
    # a field body the HTML renderer rejects (non-XML character / form feed): known finding C08-field-renderer-failure-loses-text
    'Body text.\n\n@note: a form\x0cfeed in a field', 'Body text.\n\n:note: a \uffff in a field', '@see: state \ufffe is.',
    # the same characters in the BODY: whole text as plain text, reported
    'Body \uffff text.\n\n@note: fine', 'form\x0cfeed in the body',
    # a fatal error found by the epytext TOKENIZER (doctest block whose continuation is dedented)
    'Return the L{answer}, see C{g}.\n\n    >>> f()\n  42', '    >>> f()\n  42\n\n@return: r',
    # an exception inside docutils (include path with a NUL character): internal parser failure
    'Some text.\n\n.. include:: notes\x00.rst', 'Args:\n    x: d\n\n.. include:: notes\x00.rst',
    'Summary\n\n  @param x: foo\n@return: bar', 'S\n @v: a\n@d: b', 'Summary.\n\n    @param a: indented\n@return: r\n@rtype: int',
    'L{unclosed', 'hello }', '@param x: y\n\ntext after field', 'Heading\n====\nshort underline', '`unclosed',
    'Title\n==\n\ntext', ':param x: y\n  bad\n indent', 'Args:\n    x (List[int): d', 'Parameters\n----------\nx : {1, 2',
    '\x00', '\ud800', 'a\x0cb', 'a\rb\r\nc', '\ufeffbom', 'x' * 2500, '@type x: List[int', ':type x: List[int',
    '@rtype: {a, b', '.. include:: /nonexistent', '.. raw:: html\n\n   <script>', '.. csv-table::\n   :file: /nonexistent',
    '@return: only a return field', '@return:', '@ivar x: L{broken', '@ivar x: fine\n@cvar y: C{z}',
    'E{bogus}', 'S{nosuch}', 'U{}', 'L{a|}', 'L{|a}', 'C{', '{' * 50, '}' * 50, 'B{' * 200 + '}' * 200,
    '- a\n' * 50, ' ' * 100 + 'x', '\n\n\n', '\t\tx', 'Section\n=======\n\nSub\n---\n\n@param a: b',
    '>>> 1 +\n... 2\n3', 'text::\n\n    literal\n  dedent', '.. unknowndirective:: x\n   :opt:', ':unknownrole:`x`',
    '`a`_ and `a`_\n\n.. _a: http://x\n.. _a: http://y', '|undefined|', '[#]_', '.. [#] auto foot', 'x\n-', '=\nx\n=',
    '@param x: E{', ':param x: `', 'Args:\n    x: :unknown:`y`', 'Raises:\n    Exception', 'Returns\n-------\n:\n',
    '@param self: s\n@type self: T', 'L{<}', 'L{>}', 'L{a<b<c>>}', '@group: nocolon', '@param x y: two words',
]


# ------------------------------------------------------------------------------------------------ the check
class Check(PropertyCheck):
    id = 'C08'
    props_module = 'Props.C08'
    models = {'docflow': 'XDocFlow.v'}
    needs_gen = True
    gen_modules = ['gen_skeleton', 'gen_c08_code']
    rule = ('(i) fault injection, exhaustive: {epytext, restructuredtext, google, numpy, plaintext, an unknown name} as system '
            'docformat + 4 module-__docformat__ overrides x processtypes on/off x {module, class, function, method, '
            'attribute, property} x docstring {present, absent} x parser {returns, returns with recovered errors, raises '
            'ParseError having appended it, raises ParseError without appending, raises ValueError/KeyError/RecursionError/a '
            'custom Exception} x to_stan {ok, raises} x to_node {ok, raises}, each followed by a fixed sequence of '
            'format_summary/format_docstring/format_toc calls on the object and on an unrelated healthy object, plus a corpus '
            '(split fields, field renderers, processtypes failures, summary/toc renderer failures, empty docstrings) and a random '
            'stream of stub behaviours and operation orders; non-trivial = a docstring is present and at least one stub misbehaves; '
            '(ii) real parsers: markup fragments, mutated harvested docstrings, Unicode soup x 5 docformats x processtypes x kinds, '
            'every call under a wall-clock limit in a watched child process; (iii) epytext.parse tail: all error lists of '
            'length <= 7 over {fatal, non-fatal}')
    trusted_base = [
        'Coq 8.16.1 kernel (coqc; vm_compute for the _refuted witnesses, Examples and skeletons_checked; no native_compute)',
        'no axioms (Print Assumptions: Closed under the global context for every theorem)',
        'translator harness/gen/gen_skeleton.py (fail-closed) + the oracle contract `allowed_table` of Gen/Skeleton.v',
        'translator harness/gen/gen_c08_code.py (fail-closed; bodies of epydoc2stan.reportErrors / parse_docstring / '
        'ensure_parsed_docstring / safe_to_stan -> Gen/DocFlowCode.v in the statement language of Model/DocFlowIR.v, whose '
        'interpreter is the stated meaning of the Python constructs; primitives = the library calls listed at the top of '
        'Model/DocFlowIR.v: get_parser_by_name, the parser call, plaintext.parse_docstring, processtypes, _get_docformat, '
        'model.get_docstring, to_stan, the fallback callbacks, obj.report, obj.system.msg dropped)',
        'extraction: ExtrOcamlBasic only; OCaml 4.13.1; coq/ocaml/driver.ml',
        'correspondence harness harness/c08.py + harness/impl/c08_docflow.py (stub parsers / ParsedDocstring subclasses '
        'substituted from outside; the derivation of the oracle tables from the stub specifications in class Tables)',
        'oracle determinism: parser / to_stan / to_node / summary / toc behave the same on every call for the same input',
        'System.parse_errors is keyed by fullName: the model assumes distinct objects have distinct full names',
        'modelled not verified (residual): termination and exception-freedom INSIDE the epytext tokenizer, docutils, napoleon, '
        'the type tokenizer, SummaryExtractor and node2stan for arbitrary strings (oracles in the model; sampled by stream ii); '
        'FieldHandler (which fields are rendered, in which order) is the oracle fields_of; docstring inheritance '
        '(get_docstring over docsources) is reduced to the own docstring',
    ]
    assumptions = [
        'a parser that raises ParseError has appended an error to the list first (holds for epytext by C08_epytext_fatal_raises; '
        'C08_reported_parse_error_refuted shows it is needed)',
        'the object renders its own docstring (not a split @ivar field of its parent, not an inherited docstring) for '
        'C08_isolation_partial (C08_isolation_split_field_refuted); inherited docstrings: C08_inherited_*',
        'oracles are deterministic (for ParsedEpytextDocstring.to_node: C08_epytext_to_node_deterministic, since /repo ef2e650)',
    ]
    manifest = {
        'text': ('The bodies of epydoc2stan.reportErrors / parse_docstring / ensure_parsed_docstring / safe_to_stan are re-translated from '
                 '/repo on every run and C08_code_*_is_model prove that interpreting them IS the model below, for all inputs and oracle '
                 'behaviours (C08_code_parse_docstring_falls_back restates the fallback on the translated code). '
                 'Theorems over Model/DocFlow.v (control flow of parse_docstring, reportErrors, ensure_parsed_docstring, safe_to_stan, '
                 'format_docstring/_summary/_toc and their fallbacks, processtypes wrapper, get_summary/get_toc, tail of epytext.parse) '
                 'for EVERY behaviour of the parser/renderer oracles: a parser or type post-processor that raises (ParseError or any '
                 'Exception) yields exactly plaintext(docstring) as body (C08_fallback_is_whole_text), the object lands in '
                 'parse_errors[docstring] with at least one report, once (C08_reported_against_object), results and new reports for any '
                 'other object are unchanged (C08_isolation_partial, C08_isolation_frame_partial, C08_isolation_other_object_partial: objects that render their own docstring), recovered errors are reported and the parsed form kept '
                 '(C08_rst_recovered_errors_reported), renderer failures fall back to the plain text / BROKEN '
                 '(C08_to_stan_failure_fallback, C08_to_stan_failure_any_order, C08_inherited_*, C08_summary_fallback), format_toc never raises (C08_toc_total), the first fatal epytext error is raised '
                 '(C08_epytext_fatal_raises); exception skeletons regenerated from /repo show no exception within the oracle '
                 'contract escapes the barrier functions (C08_barrier_total). Tie: exhaustive fault injection into the real functions '
                 'with stub parsers, model/implementation diff per call, plus fuzzing of the real parsers under a wall-clock limit.'),
        'note': ('Partial: termination / exception-freedom inside the real parsers and docutils is only sampled. Known on the unchanged '
                 'tree (KNOWN-FINDING line, _refuted theorem): a split-field attribute whose summary fails to render overwrites its '
                 'parent\'s cached summary. Fixed in /repo ef2e650 (kept as _old_refuted witnesses): epytext to_node caching an empty '
                 'document before a failing conversion; get_toc letting to_node exceptions escape. Trusted: Coq kernel, '
                 'gen_skeleton.py + allowed_table, extraction, harness.'),
        'technique': 'Coq proof (source translated into a deep-embedded statement language and proved equal to the model by symbolic execution; state-machine model over oracles, non-interference by two-run simulation) + regenerated exception skeletons + exhaustive fault injection + fuzzing',
    }

    # ------------------------------------------------------------------ inject cases
    def base_case(self, kind: str, sysfmt: str, modfmt: Optional[str], pt: int, doc: Optional[str],
                  parsers: dict, ops: Optional[List[list]] = None) -> dict:
        c = {'k': 'inject', 'sysfmt': sysfmt, 'modfmt': modfmt, 'pt': pt, 'tocdepth': 6,
             'objs': {'A': {'name': KIND_OBJ[kind], 'doc': doc}, 'B': {'name': 'm.Other', 'doc': DOC_B}},
             'parsers': parsers, 'kind': kind}
        if ops is None:
            ops = []
            if kind in ('module', 'class') and doc is not None:
                ops.append(['extract_fields', 'A'])
            ops += [['format_summary', 'A'], ['format_docstring', 'A'], ['format_toc', 'A'], ['format_docstring', 'A'],
                    ['format_summary', 'A'], ['format_docstring', 'B'], ['format_summary', 'B'], ['format_toc', 'B']]
        c['ops'] = ops
        return c

    def exhaustive_cases(self) -> List[dict]:
        out = []
        fmtcfgs = [(f, None) for f in FMT_NAMES[:6]] + [('epytext', '_types'), ('epytext', 'restructuredtext'), ('plaintext', 'epytext'),
                                                     ('epytext', 'nosuchformat'), ('restructuredtext', 'plaintext')]
        pbeh = [('ok', 0), ('ok', 2), ('pe_app', 1), ('pe_noapp', 0), ('ValueError', 0), ('KeyError', 1),
                ('RecursionError', 0), ('Custom', 0)]
        for (sysfmt, modfmt), pt, kind in itertools.product(fmtcfgs, (0, 1), KIND_OBJ):
            out.append(self.base_case(kind, sysfmt, modfmt, pt, None, {}))
            for (pk, ne), ts, tn in itertools.product(pbeh, ('ok', 'ValueError'), ('ok', 'KeyError')):
                pd = P(1, to_stan=ts, to_node=tn, title=1)
                out.append(self.base_case(kind, sysfmt, modfmt, pt, DOC_A, {DOC_A: {'kind': pk, 'errs': ne, 'pdoc': pd}}))
        return out

    def corpus_cases(self) -> List[dict]:
        out = []
        bc = self.base_case
        for sysfmt, pt in itertools.product(('epytext', 'restructuredtext', 'google', 'plaintext', 'nosuchformat'), (0, 1)):
            # field renderers: a failing note, a failing rtype, both
            for f1, f2 in itertools.product(('ok', 'TypeError'), repeat=2):
                pd = P(1, fields=[{'tag': 'note', 'body': P(8, to_stan=f1)}, {'tag': 'rtype', 'body': P(7, to_stan=f2, typetext='ZQ7ZQ')}])
                out.append(bc('function', sysfmt, None, pt, DOC_A, {DOC_A: {'kind': 'ok', 'errs': 0, 'pdoc': pd}}))
            # processtypes: type body whose to_node raises / has unbalanced brackets
            for tn, tt in (('KeyError', 'ZQ7ZQ'), ('ParseError', 'ZQ7ZQ'), ('NotImplementedError', 'ZQ7ZQ'), ('ok', 'List[ZQ7ZQ'), ('ok', 'ZQ7ZQ')):
                pd = P(1, fields=[{'tag': 'rtype', 'body': P(7, to_node=tn, typetext=tt)}, {'tag': 'note', 'body': P(8)}])
                for kind in ('function', 'method', 'class'):
                    out.append(bc(kind, sysfmt, None, pt, DOC_A, {DOC_A: {'kind': 'ok', 'errs': 1, 'pdoc': pd}}))
            # summary / toc renderer failures, no paragraph, to_node not implemented
            for kw in ({'boom_sum': True}, {'title': 2}, {'boom_sum': True, 'title': 2, 'to_stan': 'IndexError'}, {'para': False},
                       {'to_node': 'NotImplementedError'}, {'to_node': 'NotImplementedError', 'to_stan': 'AttributeError'},
                       {'to_node': 'AssertionError'}, {'title': 1, 'to_stan': 'UnicodeError'}):
                out.append(bc('class', sysfmt, None, pt, DOC_A, {DOC_A: {'kind': 'ok', 'errs': 0, 'pdoc': P(1, **kw)}}))
                c = bc('function', sysfmt, None, pt, DOC_A, {DOC_A: {'kind': 'ok', 'errs': 0, 'pdoc': P(1, **kw)}},
                       ops=[['format_toc', 'A'], ['format_summary', 'A'], ['format_summary', 'A'], ['format_docstring', 'A'],
                            ['format_toc', 'A'], ['format_summary', 'B'], ['format_docstring', 'B']])
                out.append(c)
            # toc switched off
            c = bc('module', sysfmt, None, pt, DOC_A, {DOC_A: {'kind': 'ok', 'errs': 0, 'pdoc': P(1, title=1, to_node='KeyError')}})
            c['tocdepth'] = 0
            out.append(c)
            # empty docstring, docstring whose plain summary cannot be rendered
            out.append(bc('function', sysfmt, None, pt, '', {}))
            out.append(bc('class', sysfmt, None, pt, '', {}))
            boom = 'docA BOOM text'
            for pk in ('ok', 'Custom', 'pe_app'):
                out.append(bc('method', sysfmt, None, pt, boom, {boom: {'kind': pk, 'errs': 0, 'pdoc': P(1)}}))
            # parse_docstring / ensure called directly, with a source different from obj
            c = bc('function', sysfmt, None, pt, DOC_A, {DOC_A: {'kind': 'ValueError', 'errs': 1, 'pdoc': P(1)},
                                                         'other text': {'kind': 'pe_app', 'errs': 0, 'pdoc': P(2)}},
                   ops=[['parse_docstring', 'A', 'other text', 'B'], ['ensure', 'A'], ['parse_docstring', 'B', DOC_A, 'A'],
                        ['format_docstring', 'B'], ['format_docstring', 'A'], ['ensure', 'B'], ['format_summary', 'A']])
            c['b_touched'] = True
            out.append(c)
            # split fields: A = m.C.x documented by @ivar in P = m.C
            for ts, tn, bs in itertools.product(('ok', 'KeyError'), ('ok', 'ValueError'), (False, True)):
                body = P(5, to_stan=ts, to_node=tn, boom_sum=bs)
                pdP = P(1, fields=[{'tag': 'ivar', 'arg': 'x', 'arg_obj': 'A', 'body': body}, {'tag': 'note', 'body': P(8)}])
                for ops in ([['extract_fields', 'P'], ['format_summary', 'P'], ['format_summary', 'A'], ['format_docstring', 'A'],
                             ['format_toc', 'A'], ['format_summary', 'P'], ['format_docstring', 'P'], ['format_docstring', 'A'],
                             ['format_docstring', 'B'], ['format_summary', 'B']],
                            [['extract_fields', 'P'], ['format_docstring', 'A'], ['format_summary', 'A'], ['format_summary', 'P'],
                             ['format_docstring', 'P'], ['format_summary', 'B']]):
                    c = {'k': 'inject', 'sysfmt': sysfmt, 'modfmt': None, 'pt': pt, 'tocdepth': 6, 'kind': 'split',
                         'objs': {'A': {'name': 'm.C.x', 'doc': None, 'parent': 'P'},
                                  'P': {'name': 'm.C', 'doc': DOC_P, 'var_target': 'A'},
                                  'B': {'name': 'm.Other', 'doc': DOC_B}},
                         'parsers': {DOC_P: {'kind': 'ok', 'errs': 0, 'pdoc': pdP}}, 'ops': ops}
                    out.append(c)
            # inherited docstrings: I = m.D.<name> has no docstring and overrides A = m.C.<name>
            for kind, (pk, ne), ts, tn in itertools.product(INHERITOR, (('ok', 0), ('ok', 2), ('pe_app', 0), ('Custom', 1)),
                                                            ('ok', 'KeyError'), ('ok', 'ValueError')):
                pd = P(1, to_stan=ts, to_node=tn, title=1, fields=[{'tag': 'note', 'body': P(8, to_stan=ts)}])
                for idoc in (None, ''):
                    for ops in ([['format_summary', 'I'], ['format_docstring', 'I'], ['format_toc', 'I'], ['format_docstring', 'I'],
                                 ['format_docstring', 'A'], ['format_summary', 'A'], ['format_docstring', 'B']],
                                [['format_docstring', 'A'], ['format_docstring', 'I'], ['format_summary', 'I'], ['format_summary', 'B']]):
                        out.append({'k': 'inject', 'sysfmt': sysfmt, 'modfmt': None, 'pt': pt, 'tocdepth': 6, 'kind': 'inherited',
                                    'objs': {'A': {'name': KIND_OBJ[kind], 'doc': DOC_A},
                                             'I': {'name': INHERITOR[kind], 'doc': idoc, 'inherits': ['A']},
                                             'B': {'name': 'm.Other', 'doc': DOC_B}},
                                    'parsers': {DOC_A: {'kind': pk, 'errs': ne, 'pdoc': pd}}, 'ops': ops})
        return out

    def random_cases(self, n: int) -> List[dict]:
        r = self.rng
        out = []
        excs = ['ValueError', 'KeyError', 'RecursionError', 'Custom', 'TypeError', 'AttributeError', 'IndexError',
                'AssertionError', 'UnicodeError', 'StopIteration']

        def rb(p: float = 0.3) -> str:
            return r.choice(excs) if r.random() < p else 'ok'

        for _ in range(n):
            nid = [0]

            def rp(depth: int = 0) -> dict:
                nid[0] += 1
                i = nid[0]
                fields = []
                if depth == 0:
                    if r.random() < 0.4:
                        fields.append({'tag': 'note', 'body': rp(1)})
                    if r.random() < 0.4:
                        b = rp(1)
                        b['typetext'] = r.choice(['ZQ%dZQ' % b['id'], 'List[ZQ%dZQ' % b['id'], 'ZQ%dZQ or None' % b['id']])
                        if r.random() < 0.15:
                            b['to_node'] = r.choice(excs + ['ParseError', 'NotImplementedError'])
                        fields.insert(r.randint(0, len(fields)), {'tag': 'rtype', 'body': b})
                return P(i, to_stan=rb(), to_node=r.choice(['ok', 'ok', 'ok', 'NotImplementedError'] + excs[:4]),
                         para=r.random() < 0.85, boom_sum=r.random() < 0.2, title=r.choice([0, 0, 1, 2]), fields=fields)

            kind = r.choice(list(KIND_OBJ))
            sysfmt = r.choice(FMT_NAMES)
            modfmt = r.choice([None, None, None] + FMT_NAMES)
            docA = r.choice([DOC_A, DOC_A, DOC_A, None, '', 'docA BOOM'])
            parsers = {}
            if docA:
                parsers[docA] = {'kind': r.choice(PARSER_KINDS + ['ok'] * 5), 'errs': r.choice([0, 0, 1, 3]), 'pdoc': rp()}
            if r.random() < 0.3:
                nid[0] = 40
                parsers[DOC_B] = {'kind': r.choice(PARSER_KINDS + ['ok'] * 3), 'errs': r.choice([0, 1]), 'pdoc': rp()}
            ops = []
            for _ in range(r.randint(3, 10)):
                name = r.choice(['format_docstring', 'format_summary', 'format_toc', 'format_docstring', 'format_summary', 'ensure'])
                ops.append([name, r.choice(['A', 'A', 'B'])])
            if docA is not None and r.random() < 0.3:
                ops.insert(r.randint(0, len(ops)), ['extract_fields', 'A'])
            c = self.base_case(kind, sysfmt, modfmt, r.randint(0, 1), docA, parsers, ops=ops)
            if kind in INHERITOR and r.random() < 0.5:
                c['objs']['I'] = {'name': INHERITOR[kind], 'doc': r.choice([None, None, None, '', 'docI own']), 'inherits': ['A']}
                for _ in range(r.randint(1, 4)):
                    ops.insert(r.randint(0, len(ops)), [r.choice(['format_docstring', 'format_summary', 'format_toc', 'ensure']), 'I'])
            c['tocdepth'] = r.choice([6, 6, 6, 1, 0])
            # extract_fields after a first parse re-parses and may report again: not a once-per-object violation
            seen = set()
            rep = []
            for op in ops:
                if op[0] == 'extract_fields' and op[1] in seen:
                    rep.append(op[1])
                seen.add(op[1])
            c['reparsed'] = rep
            out.append(c)
        return out

    # ------------------------------------------------------------------ real cases
    def real_cases(self, nstrings: int) -> List[dict]:
        g = Gen(self.rng)
        g.load_harvest(150 if self.tier == 'quick' else 1500)
        self.stats['harvested_docstrings'] = len(g.harvest)
        kinds = list(KIND_OBJ) + ['inherited', 'inherited_attr']
        fmts = FMT_NAMES[:5]
        out = []
        k = 0
        texts: List[Tuple[str, str]] = [('corpus', t) for t in CORPUS_REAL]
        while len(texts) < nstrings:
            texts.append(g.text())
        for i, (stream, t) in enumerate(texts):
            for j, f in enumerate(fmts):
                k = i * len(fmts) + j
                out.append({'k': 'real', 'text': t, 'fmt': f, 'pt': (i + j) % 2, 'kind': kinds[(i + 3 * j) % len(kinds)],
                            'stream': stream, 'order': ('sdt', 'dst', 'tds')[(i + j // 2) % 3]})
        out = [dict(c, k='real', stream='corpus') for c in CORPUS_FORCED] + out
        return out

    # ------------------------------------------------------------------ check
    def keep(self, out: List[Violation], v: Violation, cls: str) -> None:
        """Record an oracle violation; instances of known findings and new violations are capped separately so that a
        known finding can never crowd out a new violation of the same class."""
        if not hasattr(self, '_known'):
            self._known = lib.load_known_findings(self.id)[0]
            self._kept: Dict[Tuple[str, bool], int] = {}
        isknown = self.classify_known(v, self._known) is not None
        cls = '%s/%s' % (cls, (v.case or {}).get('k') if isinstance(v.case, dict) else '')
        n = self._kept.get((cls, isknown), 0)
        cap = int(os.environ.get('C08_MAXV', '2' if isknown else '4'))
        if n < cap:
            self._kept[(cls, isknown)] = n + 1
            out.append(v)

    def run_inject(self, cases: List[dict], out: List[Violation], label: str) -> None:
        impl = lib.run_impl_worker(WORKER, cases, jobs=16, timeout=3000)
        mod = self.model('docflow', [to_model(c) for c in cases])
        for c, r, m in zip(cases, impl, mod):
            ci = canon_impl(c, r)
            cm = canon_model(c, dec(m))
            self.count('inject_%s' % label)
            g = any(gives_up(c, k) for k in c['objs'])
            stubbad = g or any(b['pdoc']['to_stan'] != 'ok' or b['pdoc']['to_node'] != 'ok' or b.get('errs')
                               for b in c['parsers'].values())
            if stubbad and any(o['doc'] for o in c['objs'].values()):
                self.nontrivial.add(json.dumps(c, sort_keys=True))
            if g:
                self.count('inject_parser_gives_up')
            if ci != cm and len([v for v in out if v.kind == 'correspondence']) < 12:
                out.append(Violation('correspondence', 'Model.DocFlow and pydoctor.epydoc2stan disagree (%s)' % first_diff(cm, ci),
                                     case=c, expected=cm, observed=ci))
            o = oracle_inject(c, ci)
            if o:
                self.count('oracle_inject_' + o[0])
                self.keep(out, Violation('oracle', '[%s] %s' % o, case=c, observed=ci), o[0])
            fl = fieldlost_inject(c, ci)
            if fl:
                self.count('oracle_inject_fieldlost')
                self.keep(out, Violation('oracle', '[fieldlost] %s' % fl, case=c, observed=ci), 'fieldlost')
        self.evaluations += len(cases)

    def run_real(self, cases: List[dict], out: List[Violation]) -> None:
        impl = lib.run_impl_worker(WORKER, cases, jobs=16, timeout=3400)
        # a call that did not finish within the limit is confirmed alone, with a three times longer limit, before it is
        # called a hang (the machine is shared)
        hung = [i for i, r in enumerate(impl) if r.get('hang')][:3]
        if hung:
            old = os.environ.get('C08_CALL_LIMIT')
            os.environ['C08_CALL_LIMIT'] = '60'
            try:
                for i in hung:
                    r2 = lib.run_impl_worker(WORKER, [cases[i]], timeout=400)[0]
                    self.count('real_slow_call_confirmed_hang' if r2.get('hang') else 'real_slow_call_finished_alone')
                    impl[i] = r2
            finally:
                if old is None:
                    del os.environ['C08_CALL_LIMIT']
                else:
                    os.environ['C08_CALL_LIMIT'] = old
        for c, r in zip(cases, impl):
            self.count('real_%s' % c.get('stream'))
            self.count('real_fmt_%s' % c['fmt'])
            if r.get('parser_raised'):
                self.count('real_parser_gave_up')
            if r.get('in_parse_errors'):
                self.count('real_in_parse_errors')
            if r.get('fallback_called'):
                self.count('real_renderer_fallback')
            if r.get('to_node_failed'):
                self.count('real_to_node_failed')
            if r.get('recovered_errs'):
                self.count('real_recovered_errors')
            if r.get('body_kind'):
                self.count('real_body_%s' % r['body_kind'])
            for o in oracle_real_all(c, r):
                self.count('oracle_real_' + o[0].split(':')[0])
                self.keep(out, Violation('oracle', '[%s] %s' % o, case=c, observed={k: r.get(k) for k in
                          ('raised', 'where', 'stage', 'body_kind', 'in_parse_errors', 'reports_obj', 'to_node_failed',
                           'parser_raised', 'hang', 'body_html', 'other', 'other_ref', 'parse_errors', 'qn', 'src_qn',
                           'fallback_ctx', 'broken_fields', 'field_to_stan_failed', 'field_to_stan_errors', 'fatal_left', 'report_texts')}), o[0])
        self.evaluations += len(cases)
        self.stats['real_max_wall_s'] = max([r.get('wall_s', 0) for r in impl] or [0])

    def run_epytail(self, out: List[Violation]) -> None:
        maxlen = 7 if self.tier == 'quick' else 10
        cases = []
        for n in range(0, maxlen + 1):
            for flags in itertools.product((0, 1), repeat=n):
                cases.append({'k': 'epytail', 'errors': list(flags[n // 2:]), 'pre': list(flags[:n // 2])})
        impl = lib.run_impl_worker(WORKER, cases, jobs=4)
        mod = self.model('docflow', [enc([1, c['pre'] + c['errors']]) for c in cases])
        for c, r, m in zip(cases, impl, mod):
            mm = dec(m)
            want = ['raised', mm[1], True] if mm[0] == 0 else ['returned', 'Element']
            allf = c['pre'] + c['errors']
            if r.get('parse') != want:
                out.append(Violation('correspondence', 'epytext.parse tail differs from Model.DocFlow.epytext_tail',
                                     case=c, expected=want, observed=r.get('parse')))
            # the property, directly: any fatal error -> the first fatal one is raised and it is in the list
            direct = ['raised', allf.index(1), True] if 1 in allf else ['returned', 'Element']
            if r.get('parse') != direct:
                out.append(Violation('oracle', '[epytail] epytext.parse with errors %s: %s, expected %s' % (allf, r.get('parse'), direct),
                                     case=c, observed=r))
        self.evaluations += len(cases)
        self.stats['epytail_lists'] = len(cases)

    def run_epynode(self, out: List[Violation]) -> None:
        texts = ['hello', '', 'Summary\n\n  @param x: foo\n@return: bar', 'S\n @v: a\n@d: b', 'L{x}\n\n@param a: b',
                 'Title\n=====\ntext', ' @a:\n-', 'a\n\n  - item\n\n@note: n', '@return: r', '  @ivar x: y\n@ivar z: w']
        g = Gen(self.rng)
        for _ in range(60 if self.tier == 'quick' else 2000):
            texts.append(g.mutate(self.rng.choice(EPY) + self.rng.choice(SEPS) + self.rng.choice(EPY)))
        cases = [{'k': 'epynode', 'text': t, 'ncalls': 3} for t in texts]
        impl = lib.run_impl_worker(WORKER, cases, jobs=1)
        minputs, mcases = [], []
        for c, r in zip(cases, impl):
            if 'calls' not in r:
                continue            # the parser itself gave up: no ParsedEpytextDocstring to look at
            first = r['calls'][0]
            conv = [] if first[0] == 'raised' else [1]
            minputs.append(enc([2, 1 if r['has_tree'] else 0, conv, len(r['calls'])]))
            mcases.append((c, r))
        mod = self.model('docflow', minputs)
        for (c, r), m in zip(mcases, mod):
            want = [['raised'] if x[0] == 1 else ['returned', 'empty' if x[1] == 0 else 'doc'] for x in dec(m)]
            got = [['raised'] if x[0] == 'raised' else ['returned', 'empty' if x[2] == 0 else 'doc'] for x in r['calls']]
            if not r['has_tree']:
                got = [['returned', 'empty'] if g_ == ['returned', 'doc'] else g_ for g_ in got]
            self.count('epynode_first_' + r['calls'][0][0])
            if want != got:
                out.append(Violation('correspondence', 'ParsedEpytextDocstring.to_node differs from Model.DocFlow.epytext_to_node',
                                     case=c, expected=want, observed=got))
            # the property, directly: a renderer that fails must keep failing (or the failure is hidden from the caller
            # that would have fallen back to plain text and reported it)
            if r['calls'][0][0] == 'raised' and any(x[0] != 'raised' for x in r['calls'][1:]):
                out.append(Violation('oracle', '[to_node_poison] ParsedEpytextDocstring.to_node raised %s on the first call and '
                                     'returned a document with %d children on the second' % (r['calls'][0][1], r['calls'][1][2]),
                                     case=c, observed=r['calls']))
        self.evaluations += len(cases)
        self.stats['epynode_texts'] = len(cases)

    def correspondence(self) -> List[Violation]:
        out: List[Violation] = []
        ex = self.exhaustive_cases()
        self.stats['inject_exhaustive_cases'] = len(ex)
        self.run_inject(ex, out, 'exhaustive')
        self.exhaustive = True
        co = self.corpus_cases()
        self.run_inject(co, out, 'corpus')
        rn = self.random_cases(1500 if self.tier == 'quick' else 40000)
        self.run_inject(rn, out, 'random')
        self.run_epytail(out)
        self.run_epynode(out)
        real = self.real_cases(1500 if self.tier == 'quick' else 20000)
        self.stats['real_calls'] = len(real)
        self.run_real(real, out)
        for c in (ex[37], co[5], rn[3], real[400]):
            self.sample({k: v for k, v in c.items() if k != 'ops'} if c['k'] == 'inject' else c)
        return out

    def search(self, broken: List[Violation]) -> List[Violation]:
        out: List[Violation] = []
        # the oracle already ran on every enumerated case; widen the real-parser and random streams
        known = lib.load_known_findings(self.id)[0]
        self.rng.seed(self.seed + 1)
        self.run_inject(self.random_cases(6000), out, 'search')
        fresh = [v for v in out if v.kind == 'oracle' and self.classify_known(v, known) is None]
        if not fresh:
            self.run_real(self.real_cases(3000), out)
            fresh = [v for v in out if v.kind == 'oracle' and self.classify_known(v, known) is None]
        return fresh[:3]

    def classify_known(self, v: Violation, known: List[dict]) -> Optional[dict]:
        if v.kind != 'oracle':
            return None
        c = v.case if isinstance(v.case, dict) else {}
        obs = v.observed if isinstance(v.observed, dict) else {}
        for k in known:
            m = k.get('match', {})
            classes = m.get('oracle_classes') or [m.get('oracle_class')]
            if not any(v.what.startswith('[%s]' % cl) for cl in classes):
                continue
            if m.get('stream') != c.get('k'):
                continue
            if m['stream'] == 'inject':
                if m.get('oracle_class') == 'isolation_split' and c.get('kind') == 'split':
                    return k
                if m.get('oracle_class') == 'fieldlost' and failing_field_renderers(c) > 0 and isinstance(obs, dict) \
                        and all(o_['fields'].count(['broken']) <= failing_field_renderers(c) for o_ in obs.get('ops', [])
                                if 'fields' in o_):
                    return k
            elif m['stream'] == 'epynode':
                return k
            elif m['stream'] == 'real' and m.get('oracle_class') == 'fieldlost':
                # exactly: every BROKEN field is explained by the to_stan of a field body having raised, and it was reported
                if obs.get('broken_fields') and obs.get('broken_fields') <= (obs.get('field_to_stan_failed') or 0) \
                        and obs.get('in_parse_errors') and obs.get('reports_obj') and obs.get('body_kind') != 'broken':
                    return k
        return None

    def replay(self, data: Any) -> int:
        case = data['input']
        if not isinstance(case, dict) or 'k' not in case:
            print('nothing to replay: this file records a broken proof obligation / build step:')
            print(data.get('what', '')[:1500])
            return 1
        r = lib.run_impl_worker(WORKER, [case])[0]
        if case['k'] == 'inject':
            ci = canon_impl(case, r)
            o = oracle_inject(case, ci)
            print('case    :', json.dumps(case)[:3000])
            print('observed:', json.dumps(ci)[:4000])
            cm = ci
            try:
                b, _ = lib.build_model('C08_docflow', 'XDocFlow.v')
                cm = canon_model(case, dec(lib.run_model(b, [to_model(case)])[0]))
                print('model   :', 'agrees' if cm == ci else 'differs: ' + first_diff(cm, ci))
            except Exception as e:  # noqa
                print('model   : not run (%s)' % e)
            print('property:', ('VIOLATED [%s] %s' % o) if o else 'holds on this input')
            return 1 if o else (1 if data.get('kind') == 'correspondence' and cm != ci else 0)
        if case['k'] == 'real':
            o = oracle_real(case, r)
            print('docformat=%s processtypes=%s kind=%s' % (case['fmt'], case['pt'], case['kind']))
            print('docstring:', repr(case['text'])[:2000])
            print('observed :', json.dumps({k: r.get(k) for k in ('raised', 'where', 'stage', 'hang', 'body_kind', 'body_html',
                                                                  'in_parse_errors', 'reports_obj', 'parser_raised',
                                                                  'other', 'other_ref')})[:3000])
            print('property :', ('VIOLATED [%s] %s' % o) if o else 'holds on this input')
            return 1 if o else 0
        if case['k'] == 'epynode':
            print('docstring:', repr(case['text']))
            print('to_node() calls:', r.get('calls'))
            bad = 'calls' in r and r['calls'][0][0] == 'raised' and any(x[0] != 'raised' for x in r['calls'][1:])
            print('property :', 'VIOLATED: the first call raised, a later call returned an (empty) document' if bad else 'holds on this input')
            return 1 if bad else 0
        if case['k'] == 'epytail':
            allf = case.get('pre', []) + case['errors']
            direct = ['raised', allf.index(1), True] if 1 in allf else ['returned', 'Element']
            print('errors (1 = fatal):', allf, 'observed:', r.get('parse'), 'required:', direct)
            return 0 if r.get('parse') == direct else 1
        return 2


def toc_raise_explained(case: dict) -> bool:
    """format_toc raised AND some stub to_node raises something else than NotImplementedError (the known leak)."""
    def bad(spec: dict) -> bool:
        return spec['to_node'] not in ('ok', 'NotImplementedError') or any(bad(f['body']) for f in spec.get('fields', []))
    return any(bad(b['pdoc']) for b in case['parsers'].values()) or any(bad(s) for s in case.get('preset', {}).values())


def first_diff(a: Any, b: Any, path: str = '') -> str:
    if type(a) != type(b):
        return '%s: model %r / impl %r' % (path or '.', a, b)
    if isinstance(a, dict):
        for k in a:
            if k not in b:
                return '%s.%s missing in impl' % (path, k)
            if a[k] != b[k]:
                return first_diff(a[k], b[k], path + '.' + str(k))
        for k in b:
            if k not in a:
                return '%s.%s missing in model' % (path, k)
    if isinstance(a, list):
        if len(a) != len(b):
            return '%s: model %r / impl %r' % (path or '.', a, b)
        for i, (x, y) in enumerate(zip(a, b)):
            if x != y:
                return first_diff(x, y, path + '[%d]' % i)
    return '%s: model %r / impl %r' % (path or '.', a, b)
