"""Shared machinery of the C11 and C12 checks (one model: Model/Site.v, one worker: impl/c11_crawl.py).

  * gen_project(rng, k)     seeded generator of small Python projects + pydoctor configurations
  * corpus()                boundary projects (hidden base of a visible class, L{} to hidden objects, duplicates, ...)
  * to_model(reg)           registry observed from the real System -> wire input of the extracted model
  * model_view / crawl_view canonical SETS compared by the correspondence check
  * oracle_c11 / oracle_c12 the properties stated directly on (registry, crawl of the written files)
Never imports pydoctor."""
from __future__ import annotations
import random, re
from typing import Any, Dict, List, Optional, Set, Tuple
from urllib.parse import unquote
from lib import enc, txt

KIND = {'P': 0, 'M': 1, 'C': 2, 'F': 3, 'A': 4}
PRIV = {'PUBLIC': 0, 'PRIVATE': 1, 'HIDDEN': 2}
SUMMARY_PAGES = ('index.html', 'moduleIndex.html', 'classIndex.html', 'nameIndex.html', 'undoccedSummary.html',
                 'all-documents.html')
RESERVED_ROOTS = {'index', 'moduleIndex', 'classIndex', 'nameIndex', 'undoccedSummary', 'all-documents'}   # C02's finding

P = {'heading': 1, 'sidebar_title': 2, 'sidebar_item': 3, 'main': 4, 'pkginit': 5, 'base': 6, 'base_name': 7,
     'childlist': 8, 'known_subclasses': 9, 'class_signature': 10, 'overrides': 11, 'overridden_in': 12,
     'hierarchy': 13, 'module_index': 20, 'class_index': 21, 'name_index': 22, 'undocced': 23, 'index_roots': 24,
     'alldocs': 25, 'corpus': 26, 'inventory': 27, 'xref': 30, 'xref_summary': 31}
PNAME = {v: k for k, v in P.items()}


# =============================================================================== generator
CLASS_NAMES = ['Base', 'Widget', 'Gadget', 'Mixin', 'Node', 'Leaf', 'Tree', 'Handler', 'Impl', 'Facade', 'Thing', 'Other']
FUNC_NAMES = ['run', 'make', 'load', 'dump', 'helper', 'visit', 'build', 'reset']
METH_NAMES = ['meth', 'start', 'stop', 'render', 'close', 'update', '__repr__', '_internal', 'value']
VAR_NAMES = ['CONST', 'LIMIT', 'default', 'registry', '_cache', 'VERSION']
MOD_NAMES = ['core', 'util', 'hid', '_impl', 'api', 'extra', 'plugins', 'compat', 'html']


class Proj:
    def __init__(self) -> None:
        self.files: Dict[str, str] = {}
        self.roots: List[str] = []
        self.names: List[str] = []        # fullNames of everything defined (for xrefs and privacy rules)
        self.classes: List[Tuple[str, str, List[str]]] = []   # (module fullName, class name, method names)
        self.features: Set[str] = set()
        self.dups = False
        self.hot: List[str] = []          # bases of other classes, modules imported from, overridden methods, xref targets


def _doc(rng: random.Random, proj: Proj, indent: str, allow_none: bool = True, siblings: Optional[List[str]] = None) -> str:
    r = rng.random()
    if allow_none and r < 0.3:
        return indent + 'pass\n'
    text = rng.choice(['Does things.', 'A summary line.', 'Summary.\n\n%sMore text here.' % indent, 'Short.'])
    if siblings and rng.random() < 0.35:
        text += ' Uses L{%s}.' % rng.choice(siblings)
        proj.features.add('xref_sibling_member')
    if proj.names and rng.random() < 0.5:
        tgt = rng.choice(proj.names)
        if rng.random() < 0.3:
            tgt = tgt.split('.')[-1]
        text += ' See L{%s}.' % tgt
        proj.features.add('xref')
        proj.hot.append(tgt if '.' in tgt else rng.choice(proj.names))
    return '%s"""%s"""\n' % (indent, text)


def gen_module(rng: random.Random, proj: Proj, modfull: str, is_init: bool, others: List[str]) -> str:
    lines: List[str] = []
    lines.append('"""Module %s.%s"""\n' % (modfull, (' See L{%s}.' % rng.choice(proj.names)) if proj.names and rng.random() < 0.4 else ''))
    imported: List[Tuple[str, str]] = []
    # import classes from earlier modules (inheritance across modules, hidden modules imported from)
    avail = [c for c in proj.classes if c[0] != modfull]
    rng.shuffle(avail)
    for (m, c, _) in avail[:rng.randint(0, 3)]:
        if '.' in c:
            continue
        lines.append('from %s import %s\n' % (m, c))
        imported.append((m, c))
        proj.hot.append(m)
        proj.features.add('cross_module_import')
    local_classes: List[Tuple[str, List[str]]] = []
    ndefs = rng.randint(1, 5)
    used: Set[str] = set(c for _, c in imported)
    # module-level type variables / aliases (documented on the MODULE's page) used as generic arguments of bases
    # and in annotations: the links must be relative to the page they are rendered on
    tvars: List[str] = []
    if rng.random() < 0.45:
        lines.append('from typing import Dict, Generic, List, Mapping, Tuple, TypeVar\n')
        for tv in rng.sample(['T', 'KT', 'Alias', 'Row'], rng.randint(1, 3)):
            if tv in ('T', 'KT'):
                lines.append('%s = TypeVar(%r)\n"""Type variable %s."""\n' % (tv, tv, tv))
            else:
                lines.append('%s = Tuple[int, str]\n"""Alias %s."""\n' % (tv, tv))
            tvars.append(tv)
            used.add(tv)
            proj.names.append('%s.%s' % (modfull, tv))
        proj.features.add('typing_names')
    for _ in range(ndefs):
        kind = rng.choice(['class', 'class', 'func', 'var', 'class', 'func'])
        if proj.dups and rng.random() < 0.25:
            kind = rng.choice(['dupfunc', 'dupclass'])
        if kind in ('class', 'dupclass'):
            cname = rng.choice(CLASS_NAMES)
            if rng.random() < 0.2:
                cname = '_' + cname
            if cname in used and kind == 'class':
                continue
            used.add(cname)
            reps = 2 if kind == 'dupclass' else 1
            for rep in range(reps):
                bases: List[str] = []
                cands = [c for _, c in imported] + [c for c, _ in local_classes if c != cname]
                rng.shuffle(cands)
                for b in cands[:rng.choice([0, 1, 1, 2])]:
                    bases.append(b)
                if bases:
                    proj.features.add('inheritance')
                    for b in bases:
                        for (mm, cc, _ms) in proj.classes:
                            if cc == b:
                                proj.hot.append('%s.%s' % (mm, cc))
                hdr = list(bases)
                if tvars and rng.random() < 0.6:
                    a = rng.choice(tvars)
                    b2 = rng.choice(tvars)
                    hdr.append(rng.choice(['Generic[%s]' % a, 'Dict[str, %s]' % a, 'Mapping[%s, %s]' % (a, b2),
                                           'List[%s]' % a] + (['%s[%s, int]' % (bases[0], a)] if bases else [])))
                    if hdr[-1].startswith(bases[0] + '[') if bases else False:
                        hdr.pop(0)
                    proj.features.add('subscripted_base')
                lines.append('class %s%s:\n' % (cname, '(%s)' % ', '.join(hdr) if hdr else ''))
                lines.append(_doc(rng, proj, '    '))
                meths: List[str] = []
                # override some base methods, sometimes without docstring (inherited docstrings)
                basemeths = [m for (mm, cc, ms) in proj.classes if cc in bases for m in ms] + \
                            [m for (cc, ms) in local_classes if cc in bases for m in ms]
                pool = METH_NAMES + basemeths * 2
                for _ in range(rng.randint(0, 4)):
                    mn = rng.choice(pool)
                    if mn in meths:
                        continue
                    meths.append(mn)
                    if mn in basemeths:
                        proj.features.add('override')
                        for (mm, cc, ms) in proj.classes:
                            if cc in bases and mn in ms:
                                proj.hot.append('%s.%s.%s' % (mm, cc, mn))
                    r = rng.random()
                    if r < 0.15:
                        lines.append('    @property\n')
                        proj.features.add('property')
                    elif r < 0.25:
                        lines.append('    @classmethod\n')
                    elif r < 0.3:
                        lines.append('    @staticmethod\n')
                    lines.append('    def %s(%s):\n' % (mn, 'self' if not (0.25 <= r < 0.3) else ''))
                    lines.append(_doc(rng, proj, '        ', siblings=[x for x in meths if x != mn]))
                if rng.random() < 0.4:
                    vn = rng.choice(VAR_NAMES)
                    if tvars and rng.random() < 0.5:
                        lines.append('    %s: %s = %d\n' % (vn, rng.choice(['List[%s]', '%s', 'Dict[str, %s]']) % rng.choice(tvars), rng.randint(0, 9)))
                        proj.features.add('annotation_same_module_name')
                    else:
                        lines.append('    %s = %d\n' % (vn, rng.randint(0, 9)))
                    if rng.random() < 0.5:
                        lines.append('    """Doc of %s."""\n' % vn)
                    meths.append(vn)
                if rng.random() < 0.25:
                    nn = rng.choice(['Inner', 'Meta', '_Hidden'])
                    if tvars and rng.random() < 0.5:
                        lines.append('    NK = TypeVar("NK")\n    """Key type of the nested class."""\n')
                        lines.append('    class %s(Generic[NK], Dict[str, %s]):\n' % (nn, rng.choice(tvars)))
                        meths.append('NK')
                        proj.features.add('nested_generic_outer_var')
                    else:
                        lines.append('    class %s:\n' % nn)
                    lines.append(_doc(rng, proj, '        '))
                    if rng.random() < 0.6:
                        lines.append('        def inner_meth(self):\n')
                        lines.append(_doc(rng, proj, '            '))
                        proj.names.append('%s.%s.%s.inner_meth' % (modfull, cname, nn))
                    proj.names.append('%s.%s.%s' % (modfull, cname, nn))
                    proj.features.add('nested_class')
                if rng.random() < 0.3 and '__init__' not in meths and 'ivar' not in meths:
                    lines.append('    def __init__(self):\n        self.ivar = 1\n        """An instance variable."""\n')
                    meths.append('__init__')
                    meths.append('ivar')
                lines.append('\n')
                if rep == 0:
                    local_classes.append((cname, meths))
                    proj.classes.append((modfull, cname, meths))
                    proj.names.append('%s.%s' % (modfull, cname))
                    for m in meths:
                        proj.names.append('%s.%s.%s' % (modfull, cname, m))
                else:
                    proj.features.add('duplicate')
        elif kind in ('func', 'dupfunc'):
            fn = rng.choice(FUNC_NAMES)
            if rng.random() < 0.2:
                fn = '_' + fn
            if fn in used and kind == 'func':
                continue
            used.add(fn)
            for rep in range(2 if kind == 'dupfunc' else 1):
                if tvars and rng.random() < 0.5:
                    tv = rng.choice(tvars)
                    lines.append('def %s(a: %s, b: "List[%s]" = None) -> %s:\n' % (fn, tv, tv, tv))
                    proj.features.add('annotation_same_module_name')
                else:
                    lines.append('def %s(a, b=None):\n' % fn)
                lines.append(_doc(rng, proj, '    '))
                if rep:
                    proj.features.add('duplicate')
            proj.names.append('%s.%s' % (modfull, fn))
        else:
            vn = rng.choice(VAR_NAMES)
            if vn in used:
                continue
            used.add(vn)
            lines.append('%s = %r\n' % (vn, rng.choice([1, 'x', (1, 2), None])))
            if rng.random() < 0.6:
                lines.append('"""Doc of %s."""\n' % vn)
            proj.names.append('%s.%s' % (modfull, vn))
            proj.features.add('constant')
    if is_init and others and rng.random() < 0.5:
        # re-export through __all__
        cands = [(m, c) for (m, c, _) in proj.classes if m in others and '.' not in c]
        if cands:
            m, c = rng.choice(cands)
            if c not in used:
                lines.append('from %s import %s\n__all__ = [%r]\n' % (m, c, c))
                proj.features.add('reexport')
    return ''.join(lines)


def gen_project(rng: random.Random, idx: int) -> Dict[str, Any]:
    proj = Proj()
    proj.dups = rng.random() < 0.2
    nroots = rng.choice([1, 1, 1, 2, 2, 3])
    rootnames = rng.sample(['pkg', 'lib', 'tool', 'single', 'alpha'], nroots)
    for rn in rootnames:
        if rng.random() < 0.7 or nroots == 1:
            mods = rng.sample(MOD_NAMES, rng.randint(1, 4))
            if rng.random() < 0.15:
                mods.append('__main__')
            if rng.random() < 0.15:
                mods.append(rn)                      # pkg/pkg.py
                proj.features.add('root_name_repeated')
            sub = None
            if rng.random() < 0.3:
                sub = rng.choice(['sub', '_private', 'hiddenpkg'])
            modfulls = ['%s.%s' % (rn, m) for m in mods]
            for m in mods:
                proj.names.append('%s.%s' % (rn, m))
                proj.files['%s/%s.py' % (rn, m)] = gen_module(rng, proj, '%s.%s' % (rn, m), False, [])
            if sub:
                proj.names.append('%s.%s' % (rn, sub))
                proj.files['%s/%s/__init__.py' % (rn, sub)] = gen_module(rng, proj, '%s.%s' % (rn, sub), True, modfulls)
                sm = rng.choice(['deep', 'leaf'])
                proj.names.append('%s.%s.%s' % (rn, sub, sm))
                proj.files['%s/%s/%s.py' % (rn, sub, sm)] = gen_module(rng, proj, '%s.%s.%s' % (rn, sub, sm), False, [])
                proj.features.add('subpackage')
            proj.files['%s/__init__.py' % rn] = gen_module(rng, proj, rn, True, modfulls)
            proj.names.append(rn)
            proj.roots.append(rn)
        else:
            proj.files['%s.py' % rn] = gen_module(rng, proj, rn, False, [])
            proj.names.append(rn)
            proj.roots.append('%s.py' % rn)
    # privacy rules from the project's own names
    rules: List[str] = []
    rootset = set(rootnames)
    for _ in range(rng.choice([0, 1, 2, 2, 3, 4, 5, 6])):
        level = rng.choice(['HIDDEN', 'HIDDEN', 'PRIVATE', 'PUBLIC'])
        r = rng.random()
        cands = [n for n in proj.names if not (level == 'HIDDEN' and n in rootset and len(rootset) == 1)]
        if not cands:
            continue
        n = rng.choice(cands)
        hot = [h for h in proj.hot if h in cands]
        if level == 'HIDDEN' and hot and rng.random() < 0.6:
            n = rng.choice(hot)
            proj.features.add('rule_hides_base_or_import_or_override_or_xref')
        if r < 0.55:
            pat = n
            proj.features.add('rule_exact_' + level)
        elif r < 0.7:
            pat = '**.' + n.split('.')[-1]
        elif r < 0.85:
            parts = n.split('.')
            parts[-1] = parts[-1][:2] + '*'
            pat = '.'.join(parts)
        else:
            parts = n.split('.')
            pat = parts[0] + '.**' if len(parts) > 1 else n + '*'
            if level == 'HIDDEN':
                level = 'PRIVATE'
        if r >= 0.55:
            proj.features.add('rule_pattern_' + level)
        rules.append('%s:%s' % (level, pat))
    # never hide every root (an empty search corpus makes lunr divide by zero: a C01 matter, see the C11 report)
    import fnmatch
    def hides_root(rule: str, root: str) -> bool:
        lvl, pat = rule.split(':', 1)
        return lvl == 'HIDDEN' and '.' not in pat.replace('**', '') and fnmatch.fnmatchcase(root, pat.replace('**', '*'))
    if all(any(hides_root(ru, rt) for ru in rules) for rt in rootnames):
        rules = [ru for ru in rules if not any(hides_root(ru, rt) for rt in rootnames)]
    args = ['--privacy=%s' % r for r in rules]
    theme = rng.choice(['classic', 'readthedocs', 'base'])
    args.append('--theme=%s' % theme)
    if rng.random() < 0.7:
        args.append('--sidebar-expand-depth=%d' % rng.choice([1, 1, 2, 3, 5]))
    if rng.random() < 0.3:
        args.append('--sidebar-toc-depth=%d' % rng.choice([0, 1, 3]))
    if rng.random() < 0.1:
        args.append('--no-sidebar')
    if rng.random() < 0.2:
        args.append('--cls-member-order=source')
    return {'id': 'gen-%d' % idx, 'files': proj.files, 'roots': proj.roots, 'args': args,
            'features': sorted(proj.features)}


def corpus() -> List[Dict[str, Any]]:
    hid_files = {
        'pkg/__init__.py': '"""Package doc. See L{pkg.hid.hidfunc} and L{pkg.mod.Vis} and L{pkg.hid.HidBase.meth}."""\n'
                           'from .mod import Vis\nCONST = 1\n"""const doc"""\n',
        'pkg/hid.py': '"""hidden module"""\nclass HidBase:\n    """hid base"""\n    def meth(self):\n        """meth doc"""\n'
                      '    def only_base(self):\n        """ob"""\ndef hidfunc():\n    """hf"""\n',
        'pkg/mod.py': '"""mod doc"""\nfrom pkg.hid import HidBase, hidfunc\nclass Vis(HidBase):\n    """vis doc L{hidfunc}"""\n'
                      '    def meth(self):\n        pass\n    def _priv(self):\n        "x"\n    class Nested:\n        """nested"""\n'
                      '        x = 1\n    @property\n    def prop(self):\n        """p"""\nclass Sub(Vis):\n    def meth(self):\n'
                      '        """sub meth"""\n    def hidden_member(self):\n        """to be hidden L{Vis.prop}"""\n'
                      'def _pf(): pass\nclass _PrivC(Vis):\n    """private subclass"""\n    def meth(self): "m"\n',
    }
    dup_files = {
        'pkg/__init__.py': '"""doc"""\n',
        'pkg/_impl.py': '"""impl"""\ndef dup():\n    "first"\ndef dup():\n    pass\nclass DupC:\n    pass\nclass DupC:\n    "second"\n'
                        '    def m(self): pass\nclass User(DupC):\n    "user"\n',
    }
    generic_files = {
        'pkg/__init__.py': '"""Package."""\n',
        'pkg/containers.py': (
            '"""Generic containers."""\nfrom typing import Dict, Generic, Tuple, TypeVar\nT = TypeVar("T")\n"""Item type."""\n'
            'Row = Tuple[int, str]\n"""A row."""\ndef conv(x: T, rows: "Dict[str, Row]" = None) -> Row:\n    """Convert."""\n'
            'class Box(Generic[T]):\n    """A box of T."""\n    item: T = None\n    """The item."""\n'
            '    def get(self, default: Row = None) -> T:\n        """Return the item."""\n'
            'class Table(Dict[str, Row]):\n    """Rows by name."""\nclass Sub(Box[T], Table):\n    """Both."""\n'
            'class Outer:\n    """Outer."""\n    K = TypeVar("K")\n    """Key type."""\n'
            '    class Inner(Generic[K], Dict[str, Row]):\n        """Inner, generic in Outer.K."""\n'
            '        val: K = None\n        """v"""\n'),
    }
    html_files = {      # a page object literally named `html` below a package that is not the single root (twisted.web.html)
        'webkit/__init__.py': '"""webkit"""\n',
        'webkit/web/__init__.py': '"""web: see L{webkit.web.html.Tag} and L{webkit.web.html}"""\nfrom webkit.web.html import Tag\n',
        'webkit/web/html.py': '"""html helpers"""\nclass Tag:\n    """a tag"""\n    def render(self):\n        """r"""\n'
                              'class html:\n    """a class named html"""\ndef escape(s):\n    """e"""\n',
        'webkit/other.py': '"""other L{webkit.web.html.escape}"""\nfrom webkit.web import html\nclass Page(html.Tag):\n    """p"""\n',
    }
    subject_files = {
        'pkg/__init__.py': '"""p"""\n',
        'pkg/_internal/__init__.py': '"""internal"""\n',
        'pkg/_internal/impl.py': '"""impl"""\nclass Impl:\n    """i"""\n    def run(self):\n        """r"""\n',
        'pkg/api.py': '"""api"""\nfrom pkg._internal.impl import Impl\nclass Api(Impl):\n    """a"""\n',
    }
    out = [
        {'id': 'corpus-page-named-html', 'files': html_files, 'roots': ['webkit'], 'args': ['--sidebar-expand-depth=2']},
        # --html-subject: only the pages of the subjects (and objects.inv from them) are written: a PARTIAL site,
        # checked by the C12 oracle only (no model comparison, no link liveness)
        {'id': 'corpus-html-subject-below-hidden', 'files': subject_files, 'roots': ['pkg'], 'partial': True,
         'args': ['--privacy=HIDDEN:pkg._internal', '--html-subject=pkg._internal.impl.Impl', '--html-subject=pkg.api.Api']},
        {'id': 'corpus-html-subject-hidden-member', 'files': subject_files, 'roots': ['pkg'], 'partial': True,
         'args': ['--privacy=HIDDEN:pkg._internal.impl.Impl', '--html-subject=pkg._internal.impl.Impl.run', '--html-subject=pkg._internal']},
        # a function whose linker is created while the source is parsed (default value) and which is then re-exported
        {'id': 'corpus-stale-linker-reexport',
         'files': {'pkg/__init__.py': '"""pkg"""\nfrom ._impl import f\n__all__ = [\'f\']\n',
                   'pkg/_impl.py': '"""impl"""\ndef g():\n    "g doc"\ndef f(a=g):\n    """See L{g}."""\n'},
         'roots': ['pkg'], 'args': []},
        {'id': 'corpus-generic-bases', 'files': generic_files, 'roots': ['pkg'], 'args': []},
        {'id': 'corpus-generic-bases-hidden-var', 'files': generic_files, 'roots': ['pkg'],
         'args': ['--privacy=HIDDEN:pkg.containers.T', '--privacy=PRIVATE:pkg.containers.Row', '--theme=readthedocs']},
        {'id': 'corpus-hidden-base', 'files': hid_files, 'roots': ['pkg'],
         'args': ['--privacy=HIDDEN:pkg.hid', '--privacy=HIDDEN:pkg.mod.Sub.hidden_member']},
        {'id': 'corpus-hidden-base-rtd', 'files': hid_files, 'roots': ['pkg'],
         'args': ['--privacy=HIDDEN:pkg.hid', '--privacy=PRIVATE:pkg.mod.Sub', '--theme=readthedocs', '--sidebar-expand-depth=3']},
        {'id': 'corpus-hidden-class', 'files': hid_files, 'roots': ['pkg'],
         'args': ['--privacy=HIDDEN:pkg.hid.HidBase', '--privacy=HIDDEN:**.Nested', '--privacy=PUBLIC:**._priv', '--theme=base']},
        {'id': 'corpus-all-private', 'files': hid_files, 'roots': ['pkg'],
         'args': ['--privacy=PRIVATE:pkg.**', '--privacy=PUBLIC:pkg.mod.Vis', '--sidebar-expand-depth=2']},
        {'id': 'corpus-duplicates', 'files': dup_files, 'roots': ['pkg'], 'args': []},
        {'id': 'corpus-two-roots-one-hidden',
         'files': {'a.py': '"""a doc"""\nimport b\nclass A(b.B):\n    """A doc L{b.B.f}"""\n    def f(self): pass\n',
                   'b.py': '"""b secret summary"""\nclass B:\n    """B doc"""\n    def f(self): "f"\n'},
         'roots': ['a.py', 'b.py'], 'args': ['--privacy=HIDDEN:b']},
        {'id': 'corpus-two-roots', 'files': {'a.py': '"""a doc"""\nimport b\nclass A(b.B):\n    """A doc L{b.B.f}"""\n',
                                             'b.py': '"""b"""\nclass B:\n    """B doc"""\n    def f(self): "f"\n'},
         'roots': ['a.py', 'b.py'], 'args': ['--privacy=PRIVATE:b.B.f']},
        {'id': 'corpus-main-module',
         'files': {'pkg/__init__.py': '"""p"""\n', 'pkg/__main__.py': '"""main"""\ndef run(): "r"\n'},
         'roots': ['pkg'], 'args': ['--privacy=PUBLIC:pkg.__main__']},
        {'id': 'corpus-main-module-hidden-rule',
         'files': {'pkg/__init__.py': '"""p L{pkg.__main__.run}"""\n', 'pkg/__main__.py': '"""main"""\ndef run(): "r"\n',
                   'pkg/other.py': '"""o"""\nfrom pkg.__main__ import run\n'},
         'roots': ['pkg'], 'args': ['--privacy=HIDDEN:pkg.__main__']},
        {'id': 'corpus-inherited-docstring-xref',
         'files': {'m.py': '"""m"""\nclass Base:\n    """b"""\n    def target(self):\n        """t"""\n'
                           '    def meth(self):\n        """See L{target} and L{Base.target}."""\n'
                           'class Sub(Base):\n    """s"""\n    def meth(self):\n        pass\n'},
         'roots': ['m.py'], 'args': []},
        {'id': 'corpus-root-name-repeated',      # like tqdm/tqdm.py: a submodule and a class named as the single root
         'files': {'foo/__init__.py': '"""root L{foo.foo.helper}"""\ndef top():\n    """t"""\nTOPVAR = 1\n"""v"""\n',
                   'foo/foo.py': '"""inner module L{foo.top}"""\ndef helper():\n    """h"""\n'
                                 'class foo:\n    """inner class"""\n    def m(self):\n        """m"""\n'},
         'roots': ['foo'], 'args': []},
        {'id': 'corpus-compact-module-index',     # > 50 submodules without sub-submodules: the compact module index
         'files': dict([('big/__init__.py', '"""big"""\n')] +
                       [('big/m%02d.py' % i, '"""module %d L{big.m00.f}"""\ndef f():\n    """f"""\n' % i) for i in range(51)] +
                       [('big/_p.py', '"""private one"""\n'), ('big/hid.py', '"""hidden one"""\nclass H:\n    """h"""\n')]),
         'roots': ['big'], 'args': ['--privacy=HIDDEN:big.hid', '--privacy=PRIVATE:big.m07']},
        {'id': 'corpus-inherited-docstring-xref-hidden-namesake',
         'files': {'m.py': '"""m"""\nclass Base:\n    """b"""\n    def target(self):\n        """t"""\n'
                           '    def meth(self):\n        """See L{target}."""\n'
                           'class Sub(Base):\n    """s"""\n    def target(self):\n        """hidden namesake"""\n'
                           '    def meth(self):\n        pass\n'},
         'roots': ['m.py'], 'args': ['--privacy=HIDDEN:m.Sub.target']},
        {'id': 'corpus-non-ascii',
         'files': {'m.py': '"""m doc L{Cl\u00e9}"""\nclass Cl\u00e9:\n    """c"""\n    def m\u00e9(self): "x"\ndef f\u00e9(): "y"\n'},
         'roots': ['m.py'], 'args': []},
    ]
    return out


# =============================================================================== model side
def to_model(reg: Dict[str, Any]) -> str:
    objs = []
    for o in reg['objs']:
        objs.append([o['name'], [] if o['parent'] is None else [o['parent']], o['contents'], KIND.get(o['cls'], 4),
                     PRIV[o.get('rawpriv', o['priv'])], 1 if o['doc'] else 0, o.get('mro', []), o.get('subclasses', []),
                     [([] if b[1] is None else [b[1]]) for b in o.get('bases', [])],
                     [] if o.get('module') is None else [o['module']],
                     [] if o.get('docsource') is None else [o['docsource']], o.get('xrefs', []), o.get('sumxrefs', []),
                     [] if o.get('linker_page') is None else [o['linker_page']]])
    return enc([[objs, reg['roots'], [v for _, v in reg['all']], reg['root_names']],
                reg['sidebar_depth'], 1 if reg['nosidebar'] else 0])


def model_view(out: Any) -> Dict[str, Any]:
    files = sorted(set(txt(f) for f in out[0]))
    anchors = sorted(set((txt(a[0]), txt(a[1])) for a in out[1]))
    entries = set()
    for e in out[2]:
        page, prod, oid, href, priv = txt(e[0]), e[1], e[2], (txt(e[3][0]) if e[3] else None), bool(e[4])
        if prod == 14:
            prod = P['sidebar_item']        # inherited members are listed in the same sidebar lists
        if prod in (P['xref'], P['xref_summary']) and href is None:
            continue        # a cross reference to a hidden object renders as plain text
        if prod == P['class_signature'] and href is None:
            continue        # a base rendered as plain text is not distinguishable from the rest of the signature
        entries.add((page, prod, oid if prod == P['corpus'] else -1, href, priv))
    return {'files': files, 'anchors': anchors, 'entries': entries}


def is_internal(href: Optional[str]) -> bool:
    return href is not None and not re.match(r'^[a-zA-Z][a-zA-Z0-9+.-]*:', href) and not href.startswith('//')


def crawl_view(reg: Dict[str, Any], cr: Dict[str, Any]) -> Dict[str, Any]:
    files = sorted(f for f in cr['files'] if f.endswith('.html') and '/' not in f)
    anchors: Set[Tuple[str, str]] = set()
    entries: Set[Tuple[str, int, int, Optional[str], bool]] = set()
    fullidx = {}
    for i, o in enumerate(reg['objs']):
        fullidx.setdefault(o['full'], i)

    def priv(cls: str) -> bool:
        return 'private' in cls.split()

    def add(page: str, prod: str, href: Optional[str], p: bool = False, oid: int = -1) -> None:
        entries.add((page, P[prod], oid, href, p))
    for page, info in cr['pages'].items():
        if page in SUMMARY_PAGES and 'tables' not in info:
            continue
        for ref in info.get('refs', []):
            if 'internal-link' in ref[3].split():
                if ref[2] in ('docstring', 'member_doc'):
                    add(page, 'xref', ref[1])
                elif ref[2] == 'table_summary':
                    add(page, 'xref_summary', ref[1])
        for m in info.get('members', []):
            for a in m['anchors']:
                anchors.add((page, a))
            add(page, 'childlist', m['headerlink'], priv(m['class']))
            for ii in m['interfaceinfo']:
                if ii['text'].startswith('overrides '):
                    for l in ii['links']:
                        add(page, 'overrides', l[1])
                elif ii['text'].startswith('overridden in '):
                    for l in ii['links']:
                        add(page, 'overridden_in', l[1])
        if 'heading' in info:
            for part in info['heading']['parts']:
                add(page, 'heading', part[1])
        for sec in info.get('sidebar', []):
            if sec['title'] is not None:
                add(page, 'sidebar_title', sec['title'][1])
            for it in sec['items']:
                add(page, 'sidebar_item', it['name'][1], priv(it['class']))
        for t in info.get('tables', []):
            prod = {'main': 'main', 'pkginit': 'pkginit', 'base': 'base'}[t['kind']]
            for row in t['rows']:
                add(page, prod, row['name'][1], priv(row['class']))
            if t['kind'] == 'base' and t['base']:
                for b in t['base']:
                    add(page, 'base_name', b[1])
        for ex in info.get('extras', []):
            if ex['label'] == 'Known subclasses':
                for l in ex['links']:
                    add(page, 'known_subclasses', l[1])
        if info.get('class_signature') is not None:
            for text_, href in info['class_signature']:
                if is_internal(href):
                    add(page, 'class_signature', href)
        if info.get('hierarchy'):
            add(page, 'hierarchy', info['hierarchy'])
    mi = cr['pages'].get('moduleIndex.html')
    if mi and 'tree' in mi:
        for e in mi['tree']:
            add('moduleIndex.html', 'module_index', e['name'][1], priv(e['class']))
            for h in e.get('summary_links', []):
                add('moduleIndex.html', 'xref_summary', h)
    ci = cr['pages'].get('classIndex.html')
    if ci and 'tree' in ci:
        for e in ci['tree']:
            if e['anchor'] is not None:
                anchors.add(('classIndex.html', e['anchor']))
            if e['anchor'] is not None or is_internal(e['name'][1]):
                add('classIndex.html', 'class_index', e['name'][1])
                for h in e.get('summary_links', []):
                    add('classIndex.html', 'xref_summary', h)
    ni = cr['pages'].get('nameIndex.html')
    if ni and 'flat' in ni:
        for e in ni['flat']:
            add('nameIndex.html', 'name_index', e['name'][1], priv(e['class']))
    us = cr['pages'].get('undoccedSummary.html')
    if us and 'flat' in us:
        for e in us['flat']:
            add('undoccedSummary.html', 'undocced', e['name'][1])
    ix = cr['pages'].get('index.html')
    if ix and 'roots' in ix:
        for e in ix['roots']:
            add('index.html', 'index_roots', e[1])
    for d in cr['alldocs'] or []:
        add('all-documents.html', 'alldocs', d[1], d[2] == 'PRIVATE')
    for q in (cr['search'].get('searchindex.json') or []):
        add('', 'corpus', None, False, fullidx.get(q, -2))
    for name, typ, url in cr['inventory'] or []:
        add('', 'inventory', url)
    # types taken from annotations are resolved while the docstring is formatted but rendered (in the field table) only
    # for documented parameters: (page, href) pairs that MAY appear among the docstring links
    ann_allowed = set()
    for o in reg['objs']:
        pg = o['url'].split('#')[0]
        for t in o.get('annxrefs', []):
            u = reg['objs'][t]['url']
            ann_allowed.add((pg, u))
            if u.startswith(pg + '#'):
                ann_allowed.add((pg, u[len(pg):]))
    # a type given by an @type field is resolved while the docstring is formatted (the stan is cached) but rendered in
    # the attribute's HEADER: docstring links that may legitimately show up in the member header instead
    header_links = set()
    for page, info in cr['pages'].items():
        for ref in info.get('refs', []):
            if ref[2] == 'member_header' and 'internal-link' in ref[3].split():
                header_links.add((page, ref[1]))
    return {'files': files, 'anchors': sorted(anchors), 'entries': entries, 'ann_allowed': ann_allowed,
            'header_links': header_links}


def diff_views(mv: Dict[str, Any], cv: Dict[str, Any]) -> Optional[Dict[str, Any]]:
    d: Dict[str, Any] = {}
    if mv['files'] != cv['files']:
        d['files'] = {'model_only': sorted(set(mv['files']) - set(cv['files'])), 'impl_only': sorted(set(cv['files']) - set(mv['files']))}
    if mv['anchors'] != cv['anchors']:
        d['anchors'] = {'model_only': sorted(set(mv['anchors']) - set(cv['anchors']))[:10],
                        'impl_only': sorted(set(cv['anchors']) - set(mv['anchors']))[:10]}
    # class signature: the model lists links to the base OBJECTS, but the real links go through the annotation
    # linker (link_to(expandName(base.fullName()))): generic arguments (`Base[T]`) add links, and for a re-exported class
    # or a package that contains a module of its own name the name no longer expands to the base and the link is
    # dropped (C04/C07 territory).  Not comparable set-for-set: these hrefs are checked by the crawler oracle only.
    sig = P['class_signature']
    mv = dict(mv)
    cv = dict(cv)
    ann = cv.get('ann_allowed', set())
    hdr = cv.get('header_links', set())
    mv['entries'] = {e for e in mv['entries'] if e[1] != sig and not (e[1] == P['xref'] and (e[0], e[3]) in ann)
                     and not (e[1] == P['xref'] and e not in cv['entries'] and (e[0], e[3]) in hdr)}
    cv['entries'] = {e for e in cv['entries'] if e[1] != sig and not (e[1] == P['xref'] and (e[0], e[3]) in ann)}
    if mv['entries'] != cv['entries']:
        def show(s: Set[Any]) -> List[Any]:
            return sorted([[e[0], PNAME.get(e[1], e[1]), e[2], e[3], e[4]] for e in s], key=str)[:12]
        d['entries'] = {'model_only': show(mv['entries'] - cv['entries']), 'impl_only': show(cv['entries'] - mv['entries'])}
    return d or None


# =============================================================================== oracles (model independent)
def hidden_closure(reg: Dict[str, Any]) -> List[bool]:
    """object is HIDDEN or inside a HIDDEN object (by the parent chain)"""
    objs = reg['objs']
    res: List[Optional[bool]] = [None] * len(objs)
    for i in range(len(objs)):
        chain = []
        j: Optional[int] = i
        val = False
        while j is not None:
            if res[j] is not None:
                val = bool(res[j])
                break
            chain.append(j)
            if objs[j]['priv'] == 'HIDDEN':
                val = True
                break
            j = objs[j]['parent']
            if len(chain) > len(objs):
                break
        for k in chain:
            res[k] = val
    return [bool(x) for x in res]


def reachable_set(reg: Dict[str, Any]) -> Set[int]:
    seen: Set[int] = set()
    stack = list(reg['roots'])
    while stack:
        i = stack.pop()
        if i in seen:
            continue
        seen.add(i)
        stack.extend(reg['objs'][i]['contents'])
    return seen


def split_ref(page: str, href: str) -> Tuple[str, Optional[str]]:
    if '#' in href:
        f, fr = href.split('#', 1)
    else:
        f, fr = href, None
    f = f.split('?', 1)[0]
    return (unquote(f) if f else page), (unquote(fr) if fr is not None else None)


def all_refs(cr: Dict[str, Any]) -> List[Tuple[str, str, str, str]]:
    """(page, zone, kind, href) for every relative reference of the output, url fields of all-documents included"""
    out = []
    for page, info in cr['pages'].items():
        for ref in info.get('refs', []):
            attr, val, zone = ref[0], ref[1], ref[2]
            if is_internal(val):
                out.append((page, zone, attr, val))
    for d in cr['alldocs'] or []:
        if d[1] is not None:
            out.append(('all-documents.html', 'alldocs_url', 'url', d[1]))
    return out


def page_ids(cr: Dict[str, Any], f: str) -> Optional[Set[str]]:
    f = cr['symlinks'].get(f, f)
    if f == 'all-documents.html':
        return set(d[0] for d in cr['alldocs'] or [])
    info = cr['pages'].get(f)
    if info is None:
        return None
    return set(info['ids'])


def oracle_c11(reg: Dict[str, Any], cr: Dict[str, Any]) -> List[Dict[str, Any]]:
    """Every relative link leads to a written file and an existing anchor; every visible module/package/class has
    its page at the address links use for it; every visible function/variable has an anchor on its parent's page."""
    bad: List[Dict[str, Any]] = []
    files = set(cr['files'])
    for page, zone, attr, href in all_refs(cr):
        f, fr = split_ref(page, href)
        if f not in files:
            bad.append({'what': 'dead link: %s on %s (%s) targets file %r which was not written' % (href, page, zone, f),
                        'page': page, 'zone': zone, 'href': href, 'kind': 'dead-file'})
            continue
        if fr is not None and fr != '':
            ids = page_ids(cr, f)
            if ids is not None and fr not in ids:
                bad.append({'what': 'dead anchor: %s on %s (%s): no id/name %r in %s' % (href, page, zone, fr, f),
                            'page': page, 'zone': zone, 'href': href, 'kind': 'dead-anchor'})
    hid = hidden_closure(reg)
    for i, o in enumerate(reg['objs']):
        if hid[i] or o['kindnone']:
            continue
        f, fr = split_ref('', o['url'])
        if o['own']:
            if f not in files:
                bad.append({'what': 'visible %s %s has no page: %r (the address links use for it) was not written'
                                    % (o['cls'], o['full'], f), 'obj': o['full'], 'href': o['url'], 'kind': 'missing-page'})
        else:
            ids = page_ids(cr, f) if f in files else None
            if ids is None or o['name'] not in ids:
                bad.append({'what': 'visible member %s has no anchor %r on its parent\'s page %r' % (o['full'], o['name'], f),
                            'obj': o['full'], 'href': o['url'], 'kind': 'missing-anchor'})
    return bad


LISTING_ZONES = {'table_name', 'sidebar_item', 'summary_tree'}


def oracle_c12(reg: Dict[str, Any], cr: Dict[str, Any]) -> List[Dict[str, Any]]:
    """A HIDDEN object and everything inside it: no page, no anchor, no row/entry, no search document, no inventory line,
    no link target.  Every listing entry of a PRIVATE object carries the private marker."""
    bad: List[Dict[str, Any]] = []
    objs = reg['objs']
    hid = hidden_closure(reg)
    files = set(cr['files'])
    target_of: Dict[Tuple[str, Optional[str]], List[int]] = {}
    for i, o in enumerate(objs):
        target_of.setdefault(split_ref('', o['url']), []).append(i)
    vis_targets = {k for k, v in target_of.items() if any(not hid[i] for i in v)}
    hidden_full = {o['full']: i for i, o in enumerate(objs) if hid[i]}
    visible_full = {o['full'] for i, o in enumerate(objs) if not hid[i]}
    # --- hidden: page / anchor
    for i, o in enumerate(objs):
        if not hid[i]:
            continue
        key = split_ref('', o['url'])
        if key in vis_targets:
            continue            # a visible object legitimately lives at the same address (e.g. index.html)
        f, fr = key
        if o['own'] and (f in files):
            bad.append({'what': 'hidden %s has a page %r' % (o['full'], f), 'obj': o['full'], 'kind': 'hidden-page'})
        if not o['own'] and f in files:
            ids = page_ids(cr, f) or set()
            if o['name'] in ids or o['full'] in ids:
                bad.append({'what': 'hidden %s has an anchor on %r' % (o['full'], f), 'obj': o['full'], 'kind': 'hidden-anchor'})
    for page, info in cr['pages'].items():
        for a in info.get('ids', []):
            if a in hidden_full and a not in visible_full:
                bad.append({'what': 'hidden %s has an anchor %r on %s' % (a, a, page), 'obj': a, 'kind': 'hidden-anchor'})
    # --- hidden: link targets
    for page, zone, attr, href in all_refs(cr):
        key = split_ref(page, href)
        if key in target_of and key not in vis_targets:
            tgt = objs[target_of[key][0]]['full']
            bad.append({'what': 'link %s on %s (%s) targets the hidden object %s' % (href, page, zone, tgt),
                        'obj': tgt, 'page': page, 'zone': zone, 'href': href, 'kind': 'hidden-link'})
    # --- hidden: rows / entries without a link (taglink renders only the label of a hidden target)
    def named(label: str, prefix: Optional[str]) -> Optional[str]:
        lab = label.replace('\u200b', '')
        for cand in ([prefix + '.' + lab] if prefix else []) + [lab]:
            if cand in hidden_full and cand not in visible_full:
                return cand
        return None
    page_obj_full = {}
    for i, o in enumerate(objs):
        if o['own'] and not hid[i]:
            page_obj_full.setdefault(split_ref('', o['url'])[0], o['full'])
    for page, info in cr['pages'].items():
        owner = page_obj_full.get(page)
        for t in info.get('tables', []):
            for row in t['rows']:
                lab, href, _ = row['name']
                if href is None:
                    prefixes = [owner]
                    if t['kind'] == 'base' and t['base']:
                        prefixes = [o['full'] for o in objs if o['cls'] == 'C' and o['name'] == t['base'][0][0]]
                    for pf in prefixes:
                        n = named(lab, pf)
                        if n:
                            bad.append({'what': 'hidden %s has a row in a %s table on %s' % (n, t['kind'], page), 'obj': n,
                                        'page': page, 'kind': 'hidden-row', 'producer': 'table_' + t['kind']})
        for sec in info.get('sidebar', []):
            for it in sec['items']:
                lab, href, _ = it['name']
                if href is None:
                    cands = [f for f in hidden_full if f.split('.')[-1] == lab.replace('\u200b', '') and f not in visible_full]
                    if cands:
                        bad.append({'what': 'hidden %s has a sidebar item on %s' % (cands[0], page), 'obj': cands[0],
                                    'page': page, 'kind': 'hidden-row', 'producer': 'sidebar'})
        for m in info.get('members', []):
            for a in m['anchors']:
                if a in hidden_full and a not in visible_full:
                    bad.append({'what': 'hidden %s has a member detail block on %s' % (a, page), 'obj': a, 'page': page,
                                'kind': 'hidden-row', 'producer': 'childlist'})
    mi = cr['pages'].get('moduleIndex.html')
    if mi and 'tree' in mi:
        for e in mi['tree']:
            full = '.'.join(x.replace('\u200b', '') for x in e['path'])
            if full in hidden_full and full not in visible_full:
                bad.append({'what': 'hidden module %s has an entry in moduleIndex.html' % full, 'obj': full,
                            'page': 'moduleIndex.html', 'kind': 'hidden-row', 'producer': 'module_index',
                            'root': objs[hidden_full[full]]['parent'] is None})
    ix = cr['pages'].get('index.html')
    if ix and 'roots' in ix:
        for e in ix['roots']:
            n = named(e[0], None)
            if n:
                bad.append({'what': 'hidden root %s is listed on index.html' % n, 'obj': n, 'page': 'index.html',
                            'kind': 'hidden-row', 'producer': 'index_roots', 'root': objs[hidden_full[n]]['parent'] is None})
    for pg, key in (('nameIndex.html', 'flat'), ('undoccedSummary.html', 'flat')):
        info = cr['pages'].get(pg)
        if info and key in info:
            for e in info[key]:
                n = named(e['name'][0], None)
                if n and e['name'][1] is None:
                    bad.append({'what': 'hidden %s is listed on %s' % (n, pg), 'obj': n, 'page': pg, 'kind': 'hidden-row',
                                'producer': pg})
    ci = cr['pages'].get('classIndex.html')
    if ci and 'tree' in ci:
        for e in ci['tree']:
            if e['anchor'] is not None and e['anchor'] in hidden_full and e['anchor'] not in visible_full:
                bad.append({'what': 'hidden class %s is listed in classIndex.html' % e['anchor'], 'obj': e['anchor'],
                            'page': 'classIndex.html', 'kind': 'hidden-row', 'producer': 'class_index'})
    # --- hidden: search / inventory
    for d in cr['alldocs'] or []:
        if d[0] in hidden_full and d[0] not in visible_full:
            bad.append({'what': 'hidden %s has a search document in all-documents.html' % d[0], 'obj': d[0], 'kind': 'hidden-search'})
    for fn, refs in cr['search'].items():
        for q in refs:
            if q in hidden_full and q not in visible_full:
                bad.append({'what': 'hidden %s is in %s' % (q, fn), 'obj': q, 'kind': 'hidden-search'})
    for name, typ, url in cr['inventory'] or []:
        if name in hidden_full and name not in visible_full:
            bad.append({'what': 'hidden %s has an inventory line' % name, 'obj': name, 'kind': 'hidden-inventory'})
    # --- private marker
    private_targets: Dict[Tuple[str, Optional[str]], str] = {}
    for i, o in enumerate(objs):
        if o['priv'] == 'PRIVATE' and not hid[i]:
            k = split_ref('', o['url'])
            others = [j for j in target_of[k] if j != i and not hid[j] and objs[j]['priv'] != 'PRIVATE']
            if not others:
                private_targets[k] = o['full']
    private_full = {o['full'] for i, o in enumerate(objs) if o['priv'] == 'PRIVATE' and not hid[i]}

    def need(page: str, href: Optional[str], cls: str, where: str) -> None:
        if href is None or not is_internal(href):
            return
        k = split_ref(page, href)
        if k in private_targets and 'private' not in cls.split():
            bad.append({'what': 'PRIVATE %s is listed in %s on %s without the private marker (class=%r)'
                                % (private_targets[k], where, page, cls), 'obj': private_targets[k], 'page': page,
                        'kind': 'unmarked-private', 'producer': where})
    for page, info in cr['pages'].items():
        for t in info.get('tables', []):
            for row in t['rows']:
                need(page, row['name'][1], row['class'], 'table_' + t['kind'])
        for sec in info.get('sidebar', []):
            for it in sec['items']:
                need(page, it['name'][1], it['class'], 'sidebar')
        for m in info.get('members', []):
            for a in m['anchors']:
                if a in private_full and 'private' not in m['class'].split():
                    bad.append({'what': 'PRIVATE %s has a member detail block on %s without the private marker (class=%r)'
                                        % (a, page, m['class']), 'obj': a, 'page': page, 'kind': 'unmarked-private',
                                'producer': 'childlist'})
    if mi and 'tree' in mi:
        for e in mi['tree']:
            need('moduleIndex.html', e['name'][1], e['class'], 'module_index')
    for d in cr['alldocs'] or []:
        if d[0] in private_full and d[2] != 'PRIVATE':
            bad.append({'what': 'PRIVATE %s has a search document whose privacy field is %r' % (d[0], d[2]), 'obj': d[0],
                        'kind': 'unmarked-private', 'producer': 'alldocs'})
    return bad


def describe(reg: Dict[str, Any]) -> Dict[str, Any]:
    hid = hidden_closure(reg)
    return {'objects': len(reg['objs']), 'hidden': sum(hid), 'private': sum(1 for o in reg['objs'] if o['priv'] == 'PRIVATE'),
            'classes': sum(1 for o in reg['objs'] if o['cls'] == 'C'),
            'superseded': sum(1 for o in reg['objs'] if re.search(r' \d+$', o['name'])),
            'roots': len(reg['roots'])}
