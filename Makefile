# /verif/Makefile -- `make setup` builds the framework offline from files on disk:
# regenerated Gen/ tables, the Coq cone (full .vo) and the extracted models of every claimed check.
SHELL := /bin/bash
PY := /venv/bin/python

.PHONY: setup all-coq clean

setup:
	$(PY) harness/setup_build.py

# everything under coq/theories, including work in progress
all-coq:
	cd coq && ./mk_coqproject.sh && coq_makefile -f _CoqProject -o Makefile
	cd coq && timeout 5400 $(MAKE) -j16 -k

clean:
	-cd coq && [ -f Makefile ] && $(MAKE) clean
	rm -rf coq/build coq/Makefile coq/Makefile.conf coq/.Makefile.d
