# /verif/Makefile -- `make setup` builds the whole framework offline from files on disk.
SHELL := /bin/bash
PY := /venv/bin/python

.PHONY: setup coq models gen clean

setup: gen coq models

gen:
	@if [ -f harness/gen_tables.py ]; then PYTHONPATH=/repo PYTHONHASHSEED=0 $(PY) harness/gen_tables.py; fi

coq:
	cd coq && ./mk_coqproject.sh && coq_makefile -f _CoqProject -o Makefile
	cd coq && timeout 5400 $(MAKE) -j16 -k

models:
	$(PY) harness/build_models.py

clean:
	-cd coq && [ -f Makefile ] && $(MAKE) clean
	rm -rf coq/build coq/Makefile coq/Makefile.conf coq/.Makefile.d
