(* Props/C06.v -- C06: the result does not depend on the order in which modules are analysed.

   Model: Model/Project.v (the module work-list machine with registry, alias maps, on-demand processing of imports,
   visit-time base resolution, __all__ re-exports, second base-resolution pass).  A schedule sigma is the order of
   System.unprocessed_modules; `run_state p sigma` is the final state, `module_ids p` the module indices.
   Static reading of a project (which objects it defines, their qualified names): Spec/ProjectStatic.v.

   PROVED for every project and every pair of schedules (no bound):
     C06_registry_static, C06_registry_order_free   -- hypotheses: modules added parents first, distinct qualified
        names ("each name is bound once per scope", for definitions), no import that re-exports (an imported name is
        never listed in the importer's __all__; a module with a star import exports nothing).  Import cycles, late
        imports, aliases, plain imports, star imports that do not re-export are all allowed.  The theorem also says
        that the machine terminates within its fuel and never trips an assert of processModule/getProcessedModule.
     C06_cycles_hierarchy, C06_bases_order_free      -- the base OBJECTS that compute_mro finally keeps for every class
        (resolved at visit time, or by the second pass in the final state) are the same for all schedules, WITH import
        cycles (C06_bases_order_free is the acyclic special case; acyclicity is not needed).  Extra hypotheses: no star
        import and no `name = dotted.name` statement (plain_imports), the names a module imports are pairwise distinct
        and distinct from what it defines and from its sub-modules (bind_once), no module re-binds the name of a
        top-level module (no_shadow_roots).  Proof: name expansion only gains information along a run
        (Proofs/ProjectBases.v: resolve_mono), so a base resolved at visit time is the one the final state gives.
     C06_alias_maps_syntactic                        -- under the same hypotheses the final alias map of every module is
        `static_alias`, a function of that module's text (and of its position in the package tree, for relative imports).
     C06_schedules_reachable, C06_registry_tool_orders -- the orders the real tool can realise (`tool_order`,
        Spec/ProjectSchedules.v: depth-first preorders of the module forest, a package before its sub-modules, siblings
        and roots in any order) are permutations of the modules, hence among the schedules all theorems quantify over;
        at least one exists; C06_schedules_example pins the definition on a four-module project (the harness enumerates
        the same four).  The theorems cover MORE orders than the tool realises; that the tool realises exactly the
        `tool_order`s is observed (the worker reports the order in which System processed the modules), not proved.
     C06_code_exports_is_model, C06_code_handle_reexport_is_model, C06_code_is_model_in_machine_states -- THE TIE TO THE
        SOURCE: the current bodies of ModuleVistor._getCurrentModuleExports and _handleReExport, translated statement by
        statement (harness/gen/gen_c06_code.py -> Gen/ReexportCode.v, deep-embedded language Model/ReexportIR.v), interpret
        to the model's exports_of / handle_reexport for every state and all arguments (hypotheses: the current object and
        the origin are modules; `contents` / the registry mention existing objects and parents are modules or classes -- proved to hold
        in every machine state).  Primitive, i.e. assumed: see the header of Model/ReexportIR.v.
     (C07_moved_once in Props/C07.v is the order-independence of the location of ONE re-exported object:
        C06_single_reexporter of DESIGN.md for a single designated re-export.)
   REFUTED on the faithful model (pydoctor really depends on the order; known findings in known_findings/C06.json):
     C06_dup_in_cycle_refuted, C06_stale_name_refuted, C06_moved_class_rescoped_refuted,
     C06_reexport_in_cycle_refuted, C06_star_in_cycle_refuted, C06_alias_assignment_refuted (the guard plain_imports of
     the bases theorems is exact in this respect: `x = m.B` is expanded at visit time),
     C06_rebound_import_in_cycle_refuted (the guard bind_once is needed: a name imported twice in a module on an import
     cycle; all other hypotheses of C06_cycles_hierarchy hold for the witness).
   NOT PROVED (sampled by the correspondence check and the two-schedule oracle only): the linearisation itself (a
   function of the resolved bases, C05), several re-exports in one project, star imports outside cycles.
   Residual of the model: nested classes, imports inside class bodies, Class.find, duplicate module names,
   unparsable modules. *)
From Coq Require Import ZArith NArith List Bool Permutation.
From PydoctorVerif Require Import Base.Sexp Model.Project Spec.ProjectStatic Spec.ProjectSchedules
     Proofs.ProjectBase Proofs.ProjectRegistry Proofs.ProjectStaticCheck Proofs.ProjectBases Proofs.ProjectSchedProofs.
From PydoctorVerif Require Model.ReexportIR Gen.ReexportCode Proofs.ReexportIRProofs Proofs.ReexportReach.
Import ListNotations.
Local Open Scope N_scope.

(* The final registry is the one the source text defines: a qualified name k is registered with (class, kind,
   docstring) e exactly when some definition of the project has that qualified name and that description --
   whatever the order of the module list. In particular the machine neither runs out of fuel nor trips an assert. *)
Theorem C06_registry_static :
  forall (p : project) (sigma : list N),
    parents_first p -> keys_distinct p -> no_move p -> Permutation sigma (module_ids p) ->
    exists s, run_state p sigma = Ok s /\
              forall k e, reg_entry s k = Some e <->
                          exists o si, sobj p o = Some si /\ skey p o = k /\ e = (s_tag si, s_kind si, s_doc si).
Proof. intros p sigma Hwf Hinj Hnm Hperm. exact (registry_static p Hwf Hinj Hnm sigma Hperm). Qed.

(* ... hence the key set and (class, kind, docstring) of every object are the same for all schedules. *)
Theorem C06_registry_order_free :
  forall (p : project) (sigma1 sigma2 : list N),
    parents_first p -> keys_distinct p -> no_move p ->
    Permutation sigma1 (module_ids p) -> Permutation sigma2 (module_ids p) ->
    exists s1 s2, run_state p sigma1 = Ok s1 /\ run_state p sigma2 = Ok s2 /\
                  forall k, reg_entry s1 k = reg_entry s2 k.
Proof. intros p s1 s2 Hwf Hinj Hnm H1 H2. exact (registry_order_free p Hwf Hinj Hnm s1 s2 H1 H2). Qed.

(* With import cycles, one binding per name per scope, no re-export: the base objects finally kept for every class
   (None for an unresolved base) are the same for all schedules -- the second pass of compute_mro. *)
Theorem C06_cycles_hierarchy :
  forall (p : project) (sigma1 sigma2 : list N),
    parents_first p -> keys_distinct p -> no_move p -> plain_imports p -> bind_once p -> no_shadow_roots p ->
    Permutation sigma1 (module_ids p) -> Permutation sigma2 (module_ids p) ->
    exists s1 s2, run_state p sigma1 = Ok s1 /\ run_state p sigma2 = Ok s2 /\
                  forall k, baseobjs_view s1 k = baseobjs_view s2 k.
Proof. intros p s1 s2 Hwf Hinj Hnm Hpl Hbo Hns H1 H2. exact (bases_order_free p Hwf Hinj Hnm Hpl Hbo Hns s1 s2 H1 H2). Qed.

(* The orders the real tool can realise -- `tool_order` (Spec/ProjectSchedules.v): a depth-first preorder of the module
   forest, a package before its own sub-modules, siblings in any order, roots in any order -- are permutations of the
   modules of the project: they are among the schedules every theorem of this file (and of Props/C07.v) quantifies
   over, and there is at least one.  (The converse inclusion is false and not needed: the theorems also cover orders
   the tool cannot realise.  That the tool realises exactly the `tool_order`s is the correspondence check's business:
   harness/c06_lib.all_reachable_orders enumerates them.) *)
Theorem C06_schedules_reachable :
  forall p : project, parents_first p ->
    (forall sigma, tool_order p sigma -> Permutation sigma (module_ids p)) /\ (exists sigma, tool_order p sigma).
Proof. intros p Hwf. split; [exact (tool_order_permutation p Hwf)|exact (tool_order_exists p Hwf)]. Qed.

(* ... so, for instance, the registry is the same under any two orders the tool can realise *)
Theorem C06_registry_tool_orders :
  forall (p : project) (sigma1 sigma2 : list N),
    parents_first p -> keys_distinct p -> no_move p -> tool_order p sigma1 -> tool_order p sigma2 ->
    exists s1 s2, run_state p sigma1 = Ok s1 /\ run_state p sigma2 = Ok s2 /\
                  forall k, reg_entry s1 k = reg_entry s2 k.
Proof.
  intros p s1 s2 Hwf Hinj Hnm H1 H2.
  exact (registry_order_free p Hwf Hinj Hnm s1 s2 (tool_order_permutation p Hwf s1 H1) (tool_order_permutation p Hwf s2 H2)).
Qed.

(* pkg/__init__.py, pkg/a.py, pkg/b.py, top.py: the tool orders are exactly the four preorders *)
Definition sched_project : project :=
  [ {| m_name := 1; m_parent := None; m_pkg := true; m_doc := 0; m_stmts := [] |};
    {| m_name := 2; m_parent := Some 0; m_pkg := false; m_doc := 0; m_stmts := [] |};
    {| m_name := 3; m_parent := Some 0; m_pkg := false; m_doc := 0; m_stmts := [] |};
    {| m_name := 4; m_parent := None; m_pkg := false; m_doc := 0; m_stmts := [] |} ].

Ltac inv_sched :=
  repeat match goal with
         | H : tool_forest _ (_ :: _) _ |- _ => inversion H; clear H; subst
         | H : tool_forest _ [] _ |- _ => inversion H; clear H; subst
         | H : tool_tree _ _ _ |- _ => inversion H; clear H; subst
         | H : Permutation _ (children_of _ _) |- _ =>
           vm_compute in H; apply Permutation_sym in H;
           first [ (apply Permutation_nil in H) | (apply Permutation_length_1_inv in H) | (apply Permutation_length_2_inv in H; destruct H) ];
           subst
         end.

Example C06_schedules_example :
  forall sigma, tool_order sched_project sigma <-> In sigma [[0; 1; 2; 3]; [0; 2; 1; 3]; [3; 0; 1; 2]; [3; 0; 2; 1]].
Proof.
  intros sigma. split.
  - intros (rs & Hp & Hf). vm_compute in Hp. apply Permutation_sym, Permutation_length_2_inv in Hp.
    destruct Hp; subst rs; inv_sched; cbn [app In]; tauto.
  - assert (L : forall m, m = 1 \/ m = 2 \/ m = 3 -> tool_tree sched_project m [m]).
    { intros m Hm. apply (tt_node sched_project m [] []); [|constructor].
      destruct Hm as [Hm|[Hm|Hm]]; subst m; vm_compute; constructor. }
    assert (P12 : tool_tree sched_project 0 [0; 1; 2]).
    { apply (tt_node sched_project 0 [1; 2] [1; 2]); [vm_compute; apply Permutation_refl|].
      apply (tf_cons sched_project 1 [2] [1] [2]); [apply L; tauto|].
      apply (tf_cons sched_project 2 [] [2] []); [apply L; tauto|constructor]. }
    assert (P21 : tool_tree sched_project 0 [0; 2; 1]).
    { apply (tt_node sched_project 0 [2; 1] [2; 1]); [vm_compute; apply perm_swap|].
      apply (tf_cons sched_project 2 [1] [2] [1]); [apply L; tauto|].
      apply (tf_cons sched_project 1 [] [1] []); [apply L; tauto|constructor]. }
    intros [<-|[<-|[<-|[<-|[]]]]].
    + exists [0; 3]. split; [vm_compute; apply Permutation_refl|].
      apply (tf_cons sched_project 0 [3] [0; 1; 2] [3]); [exact P12|].
      apply (tf_cons sched_project 3 [] [3] []); [apply L; tauto|constructor].
    + exists [0; 3]. split; [vm_compute; apply Permutation_refl|].
      apply (tf_cons sched_project 0 [3] [0; 2; 1] [3]); [exact P21|].
      apply (tf_cons sched_project 3 [] [3] []); [apply L; tauto|constructor].
    + exists [3; 0]. split; [vm_compute; apply perm_swap|].
      apply (tf_cons sched_project 3 [0] [3] [0; 1; 2]); [apply L; tauto|].
      apply (tf_cons sched_project 0 [] [0; 1; 2] []); [exact P12|constructor].
    + exists [3; 0]. split; [vm_compute; apply perm_swap|].
      apply (tf_cons sched_project 3 [0] [3] [0; 2; 1]); [apply L; tauto|].
      apply (tf_cons sched_project 0 [] [0; 2; 1] []); [exact P21|constructor].
Qed.

(* the import graph read off the text: m -> the modules its from-imports name *)
Definition imports_module (p : project) (m t : N) : Prop :=
  exists mi lvl mn names k, modinfo_of p m = Some mi /\ In (SImportFrom lvl mn names) (m_stmts mi) /\
                            static_modname p m lvl mn = Some k /\ (skey p (t, 0, 0) = k \/ exists o a, In (o, a) names /\ skey p (t, 0, 0) = k ++ [o]).
Definition acyclic_imports (p : project) : Prop :=
  exists rank : N -> N, forall m t, imports_module p m t -> rank t < rank m.

(* the acyclic case of DESIGN.md (the hypothesis is not needed by the proof) *)
Theorem C06_bases_order_free :
  forall (p : project) (sigma1 sigma2 : list N),
    parents_first p -> keys_distinct p -> no_move p -> plain_imports p -> bind_once p -> no_shadow_roots p ->
    acyclic_imports p ->
    Permutation sigma1 (module_ids p) -> Permutation sigma2 (module_ids p) ->
    exists s1 s2, run_state p sigma1 = Ok s1 /\ run_state p sigma2 = Ok s2 /\
                  forall k, baseobjs_view s1 k = baseobjs_view s2 k.
Proof. intros p s1 s2 Hwf Hinj Hnm Hpl Hbo Hns _ H1 H2. exact (bases_order_free p Hwf Hinj Hnm Hpl Hbo Hns s1 s2 H1 H2). Qed.

(* the final alias map of every module is the one its import statements write *)
Theorem C06_alias_maps_syntactic :
  forall (p : project) (sigma : list N),
    parents_first p -> keys_distinct p -> no_move p -> plain_imports p -> bind_once p -> no_shadow_roots p ->
    Permutation sigma (module_ids p) ->
    exists s, run_state p sigma = Ok s /\
              forall m mi, modinfo_of p m = Some mi -> forall a, alias_view s (skey p (m, 0, 0)) a = nget a (static_alias p m).
Proof. intros p sigma Hwf Hinj Hnm Hpl Hbo Hns H. exact (alias_maps_syntactic p Hwf Hinj Hnm Hpl Hbo Hns sigma H). Qed.

(* ---- witnesses ---- *)
(* a.py:  class B ("first") / from b import C / class B ("second")      b.py:  from a import B / class C(B) *)
Definition dup_cycle : project :=
  [ {| m_name := 1; m_parent := None; m_pkg := false; m_doc := 0;
       m_stmts := [SClass 10 1 [] []; SImportFrom 0 [2] [(11, 11)]; SClass 10 2 [] []] |};
    {| m_name := 2; m_parent := None; m_pkg := false; m_doc := 0;
       m_stmts := [SImportFrom 0 [1] [(10, 10)]; SClass 11 0 [[10]] []] |} ].

(* import cycle + the same class name defined twice in a module of the cycle: the base of b.C is the FIRST
   definition (renamed "a.B 0") under the order a, b and the second one under the order b, a *)
Theorem C06_dup_in_cycle_refuted :
  exists (p : project) (s1 s2 : list N) (k : path),
    Permutation s1 (module_ids p) /\ Permutation s2 (module_ids p) /\
    run_view p s1 (fun s => bases_view s k) = Some (Some [([1; dup_name 10 0], Some [1; dup_name 10 0])]) /\
    run_view p s2 (fun s => bases_view s k) = Some (Some [([1; 10], Some [1; 10])]).
Proof.
  exists dup_cycle, [0; 1], [1; 0], [2; 11].
  split; [apply Permutation_refl|]. split; [apply perm_swap|]. split; vm_compute; reflexivity.
Qed.

(* The guard bind_once of C06_cycles_hierarchy is needed even when all qualified names are distinct: an import cycle
   + a name IMPORTED twice in a module of the cycle.
     a.py: from c import Z / class X          b.py: class X
     c.py: from a import X / class K(X) / from b import X / class Z
   If a is analysed first, c is analysed while a.X does not exist yet: K's base is unresolved at visit time and the
   second pass finds X -> b.X; otherwise it is a.X.  Every other hypothesis of C06_cycles_hierarchy holds.
   (Same family as C06-dup-in-cycle: a name bound twice in a module on an import cycle; confirmed on the real tool.) *)
Definition rebound_cycle : project :=
  [ {| m_name := 1; m_parent := None; m_pkg := false; m_doc := 0;
       m_stmts := [SImportFrom 0 [3] [(12, 12)]; SClass 10 1 [] []] |};
    {| m_name := 2; m_parent := None; m_pkg := false; m_doc := 0; m_stmts := [SClass 10 2 [] []] |};
    {| m_name := 3; m_parent := None; m_pkg := false; m_doc := 0;
       m_stmts := [SImportFrom 0 [1] [(10, 10)]; SClass 11 0 [[10]] []; SImportFrom 0 [2] [(10, 10)]; SClass 12 0 [] []] |} ].

Theorem C06_rebound_import_in_cycle_refuted :
  let p := rebound_cycle in
  parents_first p /\ keys_distinct p /\ no_move p /\ plain_imports p /\ no_shadow_roots p /\
  (forall sigma, In sigma [[0; 1; 2]; [0; 2; 1]; [1; 0; 2]] ->
     run_view p sigma (fun s => baseobjs_view s [3; 11]) = Some (Some [Some [2; 10]])) /\
  (forall sigma, In sigma [[1; 2; 0]; [2; 0; 1]; [2; 1; 0]] ->
     run_view p sigma (fun s => baseobjs_view s [3; 11]) = Some (Some [Some [1; 10]])).
Proof.
  cbv zeta. split; [apply parents_firstb_sound; vm_compute; reflexivity|].
  split; [apply keys_distinctb_sound; vm_compute; reflexivity|].
  split; [apply no_moveb_sound; vm_compute; reflexivity|].
  split; [apply plain_importsb_sound; vm_compute; reflexivity|].
  split; [apply no_shadow_rootsb_sound; vm_compute; reflexivity|].
  split; intros sigma H; repeat (destruct H as [<-|H]; [vm_compute; reflexivity|]); destruct H.
Qed.

(* the hypotheses of the positive theorems are satisfiable, with an import cycle and bases that need the second pass:
   a.py: from b import B / class A(B)     b.py: from a import A / class B / class B2(A) *)
Definition two_cycle : project :=
  [ {| m_name := 1; m_parent := None; m_pkg := false; m_doc := 5;
       m_stmts := [SImportFrom 0 [2] [(11, 11)]; SClass 10 1 [[11]] [(0, 20, 3); (1, 21, 0)]] |};
    {| m_name := 2; m_parent := None; m_pkg := false; m_doc := 0;
       m_stmts := [SImportFrom 0 [1] [(10, 10)]; SClass 11 2 [] []; SClass 12 0 [[10]] []; SVar 13 4; SFunc 14 0] |} ].

Example C06_hypotheses_satisfiable :
  parents_first two_cycle /\ keys_distinct two_cycle /\ no_move two_cycle /\
  plain_imports two_cycle /\ bind_once two_cycle /\ no_shadow_roots two_cycle /\
  Permutation [1; 0] (module_ids two_cycle) /\
  run_view two_cycle [1; 0] (fun s => (reg_entry s [1; 10; 20], bases_view s [2; 12], bases_view s [1; 10])) =
  Some (Some (T_FUNCTION, K_METHOD, 3), Some [([1; 10], Some [1; 10])], Some [([2; 11], Some [2; 11])]).
Proof.
  split; [apply parents_firstb_sound; vm_compute; reflexivity|].
  split; [apply keys_distinctb_sound; vm_compute; reflexivity|].
  split; [apply no_moveb_sound; vm_compute; reflexivity|].
  split; [apply plain_importsb_sound; vm_compute; reflexivity|].
  split; [apply bind_onceb_sound; vm_compute; reflexivity|].
  split; [apply no_shadow_rootsb_sound; vm_compute; reflexivity|].
  split; [apply perm_swap|vm_compute; reflexivity].
Qed.

(* _impl.py: class Foo      api.py: from _impl import Foo ; __all__ = ['Foo']      cons.py: from _impl import Foo ; class K(Foo)
   names: Foo 1, _impl 2 (+ the underscore bit), api 3, K 4, cons 5.  No import cycle. *)
Definition stale_sibling : project :=
  [ {| m_name := 524290; m_parent := None; m_pkg := false; m_doc := 0; m_stmts := [SClass 1 0 [] []] |};
    {| m_name := 3; m_parent := None; m_pkg := false; m_doc := 0;
       m_stmts := [SImportFrom 0 [524290] [(1, 1)]; SAll [1]] |};
    {| m_name := 5; m_parent := None; m_pkg := false; m_doc := 0;
       m_stmts := [SImportFrom 0 [524290] [(1, 1)]; SClass 4 0 [[1]] []] |} ].

(* the consumer that imports the re-exported class from its defining module: analysed before the re-exporter its base
   is resolved (and follows the move to api.Foo), analysed after it the stale name _impl.Foo is unknown *)
Theorem C06_stale_name_refuted :
  exists (p : project) (s1 s2 : list N) (k : path),
    Permutation s1 (module_ids p) /\ Permutation s2 (module_ids p) /\
    run_view p s1 (fun s => bases_view s k) = Some (Some [([524290; 1], None)]) /\
    run_view p s2 (fun s => bases_view s k) = Some (Some [([3; 1], Some [3; 1])]).
Proof.
  exists stale_sibling, [0; 1; 2], [0; 2; 1], [5; 4].
  split; [apply Permutation_refl|]. split; [apply perm_skip; apply perm_swap|]. split; vm_compute; reflexivity.
Qed.

(* m3.py: class K9      m4.py: import m3 as a ; class K10(a.K9)      m1.py: from m4 import K10 ; __all__ = ['K10']
   names: K9 1, m3 2, a 3, K10 4, m4 5, m1 6.  No import cycle. *)
Definition rescoped : project :=
  [ {| m_name := 2; m_parent := None; m_pkg := false; m_doc := 0; m_stmts := [SClass 1 0 [] []] |};
    {| m_name := 5; m_parent := None; m_pkg := false; m_doc := 0;
       m_stmts := [SImport [2] 3; SClass 4 0 [[3; 1]] []] |};
    {| m_name := 6; m_parent := None; m_pkg := false; m_doc := 0;
       m_stmts := [SImportFrom 0 [5] [(4, 4)]; SAll [4]] |} ].

(* a class that is moved by a re-export and whose base is not yet resolvable when it is visited (m3 not analysed yet:
   a plain import does not trigger it): the second pass resolves `a.K9` in the scope of the NEW parent m1 *)
Theorem C06_moved_class_rescoped_refuted :
  exists (p : project) (s1 s2 : list N) (k : path),
    Permutation s1 (module_ids p) /\ Permutation s2 (module_ids p) /\
    run_view p s1 (fun s => bases_view s k) = Some (Some [([2; 1], Some [2; 1])]) /\
    run_view p s2 (fun s => bases_view s k) = Some (Some [([2; 1], None)]).
Proof.
  exists rescoped, [0; 1; 2], [1; 0; 2], [6; 4].
  split; [apply Permutation_refl|]. split; [apply perm_swap|]. split; vm_compute; reflexivity.
Qed.

(* m2.py: from m3 import K5 ; class K3 ; __all__ = ['K5']      m3.py: from m2 import K3 as K3a ; class K5(K3a)
   names: m3 1, K5 2, K3 3, m2 4, K3a 5.  A re-export inside an import cycle. *)
Definition reexport_cycle : project :=
  [ {| m_name := 4; m_parent := None; m_pkg := false; m_doc := 0;
       m_stmts := [SImportFrom 0 [1] [(2, 2)]; SClass 3 0 [] []; SAll [2]] |};
    {| m_name := 1; m_parent := None; m_pkg := false; m_doc := 0;
       m_stmts := [SImportFrom 0 [4] [(3, 5)]; SClass 2 0 [[5]] []] |} ].

(* order m2, m3: K5 is moved to m2 and its base stays unresolved; order m3, m2: K5 is not moved and its base resolves *)
Theorem C06_reexport_in_cycle_refuted :
  exists (p : project) (s1 s2 : list N),
    Permutation s1 (module_ids p) /\ Permutation s2 (module_ids p) /\
    run_view p s1 (fun s => (bases_view s [4; 2], bases_view s [1; 2])) = Some (Some [([4; 3], None)], None) /\
    run_view p s2 (fun s => (bases_view s [4; 2], bases_view s [1; 2])) = Some (None, Some [([4; 3], Some [4; 3])]).
Proof.
  exists reexport_cycle, [0; 1], [1; 0].
  split; [apply Permutation_refl|]. split; [apply perm_swap|]. split; vm_compute; reflexivity.
Qed.

(* a.py: class A0 ; from b import * ; class A1(B0)      b.py: from a import * ; class B0
   names: A0 1, b 2, A1 3, B0 4, a 5.  A star import inside an import cycle. *)
Definition star_cycle : project :=
  [ {| m_name := 5; m_parent := None; m_pkg := false; m_doc := 0;
       m_stmts := [SClass 1 0 [] []; SImportStar 0 [2]; SClass 3 0 [[4]] []] |};
    {| m_name := 2; m_parent := None; m_pkg := false; m_doc := 0;
       m_stmts := [SImportStar 0 [5]; SClass 4 0 [] []] |} ].

Theorem C06_star_in_cycle_refuted :
  exists (p : project) (s1 s2 : list N) (k : path),
    Permutation s1 (module_ids p) /\ Permutation s2 (module_ids p) /\
    run_view p s1 (fun s => bases_view s k) = Some (Some [([2; 4], Some [2; 4])]) /\
    run_view p s2 (fun s => bases_view s k) = Some (Some [([4], None)]).
Proof.
  exists star_cycle, [0; 1], [1; 0], [5; 3].
  split; [apply Permutation_refl|]. split; [apply perm_swap|]. split; vm_compute; reflexivity.
Qed.

(* a.py: import m ; x = m.B ; class K(x)      m.py: from c import B      c.py: class B
   names: m 1, x 2, B 3, K 4, a 5, c 6.  No cycle, no re-export, every name bound once: the assignment alias is expanded
   when it is visited, and a plain import does not make m known before. *)
Definition alias_assignment : project :=
  [ {| m_name := 5; m_parent := None; m_pkg := false; m_doc := 0;
       m_stmts := [SImport [1] 0; SAlias 2 [1; 3]; SClass 4 0 [[2]] []] |};
    {| m_name := 1; m_parent := None; m_pkg := false; m_doc := 0; m_stmts := [SImportFrom 0 [6] [(3, 3)]] |};
    {| m_name := 6; m_parent := None; m_pkg := false; m_doc := 0; m_stmts := [SClass 3 0 [] []] |} ].

Theorem C06_alias_assignment_refuted :
  exists (p : project) (s1 s2 : list N) (k : path),
    parents_first p /\ keys_distinct p /\ no_move p /\ bind_once p /\ no_shadow_roots p /\
    Permutation s1 (module_ids p) /\ Permutation s2 (module_ids p) /\
    run_view p s1 (fun s => baseobjs_view s k) = Some (Some [None]) /\
    run_view p s2 (fun s => baseobjs_view s k) = Some (Some [Some [6; 3]]).
Proof.
  exists alias_assignment, [0; 1; 2], [1; 0; 2], [5; 4].
  split; [apply parents_firstb_sound; vm_compute; reflexivity|].
  split; [apply keys_distinctb_sound; vm_compute; reflexivity|].
  split; [apply no_moveb_sound; vm_compute; reflexivity|].
  split; [apply bind_onceb_sound; vm_compute; reflexivity|].
  split; [apply no_shadow_rootsb_sound; vm_compute; reflexivity|].
  split; [apply Permutation_refl|]. split; [apply perm_swap|]. split; vm_compute; reflexivity.
Qed.

(* ---------------------------------------------------------------------------------------------------------------
   The tie to the source.  Gen/ReexportCode.v is the CURRENT text of ModuleVistor._getCurrentModuleExports and
   ModuleVistor._handleReExport (pydoctor/astbuilder.py), translated statement by statement by
   harness/gen/gen_c06_code.py into the language of Model/ReexportIR.v.  Interpreting that code IS the model's
   exports_of / handle_reexport, for every state and all arguments (the move itself: C07_code_reparent_is_model). *)
Theorem C06_code_exports_is_model :
  forall (s : state) (cur : oid),
    (forall ob, objs s cur = Some ob -> is_module_tag (o_tag ob) = true \/ o_all ob = None) ->
    ReexportIR.exports_ir ReexportCode.reexport_code s cur = Some (exports_of s cur).
Proof. exact ReexportIRProofs.exports_ir_eq. Qed.

Theorem C06_code_handle_reexport_is_model :
  forall (s : state) (cur : oid) (exports : list N) (orgname asname : N) (origin : oid),
    ReexportIR.is_inst s cur ReexportIR.CModule = true -> ReexportIR.is_inst s origin ReexportIR.CModule = true ->
    ReexportIRProofs.wf_objs s ->
    ReexportIR.handle_ir ReexportCode.reexport_code s cur exports orgname asname origin =
    Some (handle_reexport s cur exports orgname asname origin).
Proof. exact ReexportIRProofs.handle_ir_eq. Qed.

(* The hypotheses of the two theorems above hold in every state the machine goes through before a re-export (the
   invariant behind C06_registry_static), for the module m being walked: at each of its module-level imports, what the
   translated Python does is what the model does. *)
Theorem C06_code_is_model_in_machine_states :
  forall (p : project) (Good : state -> Prop) (s : state) (m : N) (mi : modinfo),
    parents_first p -> Inv p (sname p) (sparent p) Good s -> modinfo_of p m = Some mi ->
    ReexportIR.exports_ir ReexportCode.reexport_code s (m, 0, 0) = Some (exports_of s (m, 0, 0)) /\
    forall exports orgname asname origin,
      ReexportIR.is_inst s origin ReexportIR.CModule = true ->
      ReexportIR.handle_ir ReexportCode.reexport_code s (m, 0, 0) exports orgname asname origin =
      Some (handle_reexport s (m, 0, 0) exports orgname asname origin).
Proof.
  intros p Good s m mi Hwf HI Hm. split.
  - exact (ReexportReach.exports_code_in_machine_states p Good s m mi HI Hm).
  - intros exports orgname asname origin Horg.
    exact (ReexportReach.handle_code_in_machine_states p Hwf Good s m mi exports orgname asname origin HI Hm Horg).
Qed.

