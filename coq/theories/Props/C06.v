(* Props/C06.v -- C06: the result does not depend on the order in which modules are analysed.

   Model: Model/Project.v (the module work-list machine with registry, alias maps, on-demand processing of imports,
   visit-time base resolution, __all__ re-exports, second base-resolution pass).  A schedule sigma is the order of
   System.unprocessed_modules; `run_state p sigma` is the final state, `module_ids p` the module indices.
   Static reading of a project (which objects it defines, their qualified names): Spec/ProjectStatic.v.

   PROVED for every project and every pair of schedules (no bound):
     C06_registry_static, C06_registry_order_free   -- hypotheses: modules added parents first, distinct qualified
        names ("each name is bound once per scope", for definitions), no import that re-exports (an imported name is
        never listed in the importer's __all__; a module with a star import exports nothing).  Import cycles, late
        imports, aliases, plain imports, star imports that do not re-export are all allowed.  The theorem also says
        that the machine terminates within its fuel and never trips an assert of processModule/getProcessedModule.
     (C07_moved_once in Props/C07.v is the order-independence of the location of ONE re-exported object:
        C06_single_reexporter of DESIGN.md for a single designated re-export.)
   REFUTED on the faithful model (pydoctor really depends on the order; known findings in known_findings/C06.json):
     C06_dup_in_cycle_refuted, C06_stale_name_refuted, C06_moved_class_rescoped_refuted,
     C06_reexport_in_cycle_refuted, C06_star_in_cycle_refuted.
   NOT PROVED (sampled by the correspondence check and the two-schedule oracle only): order independence of the
   resolved bases (C06_bases_order_free, C06_cycles_hierarchy of DESIGN.md: needs monotonicity of expandName along a
   run), C06_alias_maps_syntactic, C06_schedules_reachable (every order the real tool realises is a permutation of the
   module indices -- the theorems quantify over ALL permutations, a superset), several re-exports in one project.
   Residual of the model: nested classes, imports inside class bodies, Class.find, duplicate module names,
   unparsable modules; the C3 linearisation is a function of the resolved bases (C05). *)
From Coq Require Import ZArith NArith List Bool Permutation.
From PydoctorVerif Require Import Base.Sexp Model.Project Spec.ProjectStatic
     Proofs.ProjectBase Proofs.ProjectRegistry Proofs.ProjectStaticCheck.
Import ListNotations.
Local Open Scope N_scope.

(* The final registry is the one the source text defines: a qualified name k is registered with (class, kind,
   docstring) e exactly when some definition of the project has that qualified name and that description --
   whatever the order of the module list. In particular the machine neither runs out of fuel nor trips an assert. *)
Theorem C06_registry_static :
  forall (p : project) (sigma : list N),
    parents_first p -> keys_distinct p -> no_move p -> Permutation sigma (module_ids p) ->
    exists s, run_state p sigma = Ok s /\
              forall k e, reg_entry s k = Some e <->
                          exists o si, sobj p o = Some si /\ skey p o = k /\ e = (s_tag si, s_kind si, s_doc si).
Proof. intros p sigma Hwf Hinj Hnm Hperm. exact (registry_static p Hwf Hinj Hnm sigma Hperm). Qed.

(* ... hence the key set and (class, kind, docstring) of every object are the same for all schedules. *)
Theorem C06_registry_order_free :
  forall (p : project) (sigma1 sigma2 : list N),
    parents_first p -> keys_distinct p -> no_move p ->
    Permutation sigma1 (module_ids p) -> Permutation sigma2 (module_ids p) ->
    exists s1 s2, run_state p sigma1 = Ok s1 /\ run_state p sigma2 = Ok s2 /\
                  forall k, reg_entry s1 k = reg_entry s2 k.
Proof. intros p s1 s2 Hwf Hinj Hnm H1 H2. exact (registry_order_free p Hwf Hinj Hnm s1 s2 H1 H2). Qed.

(* ---- witnesses ---- *)
(* a.py:  class B ("first") / from b import C / class B ("second")      b.py:  from a import B / class C(B) *)
Definition dup_cycle : project :=
  [ {| m_name := 1; m_parent := None; m_pkg := false; m_doc := 0;
       m_stmts := [SClass 10 1 [] []; SImportFrom 0 [2] [(11, 11)]; SClass 10 2 [] []] |};
    {| m_name := 2; m_parent := None; m_pkg := false; m_doc := 0;
       m_stmts := [SImportFrom 0 [1] [(10, 10)]; SClass 11 0 [[10]] []] |} ].

(* import cycle + the same class name defined twice in a module of the cycle: the base of b.C is the FIRST
   definition (renamed "a.B 0") under the order a, b and the second one under the order b, a *)
Theorem C06_dup_in_cycle_refuted :
  exists (p : project) (s1 s2 : list N) (k : path),
    Permutation s1 (module_ids p) /\ Permutation s2 (module_ids p) /\
    run_view p s1 (fun s => bases_view s k) = Some (Some [([1; dup_name 10 0], Some [1; dup_name 10 0])]) /\
    run_view p s2 (fun s => bases_view s k) = Some (Some [([1; 10], Some [1; 10])]).
Proof.
  exists dup_cycle, [0; 1], [1; 0], [2; 11].
  split; [apply Permutation_refl|]. split; [apply perm_swap|]. split; vm_compute; reflexivity.
Qed.

(* the hypotheses of the positive theorems are satisfiable, with an import cycle and bases that need the second pass:
   a.py: from b import B / class A(B)     b.py: from a import A / class B / class B2(A) *)
Definition two_cycle : project :=
  [ {| m_name := 1; m_parent := None; m_pkg := false; m_doc := 5;
       m_stmts := [SImportFrom 0 [2] [(11, 11)]; SClass 10 1 [[11]] [(0, 20, 3); (1, 21, 0)]] |};
    {| m_name := 2; m_parent := None; m_pkg := false; m_doc := 0;
       m_stmts := [SImportFrom 0 [1] [(10, 10)]; SClass 11 2 [] []; SClass 12 0 [[10]] []; SVar 13 4; SFunc 14 0] |} ].

Example C06_hypotheses_satisfiable :
  parents_first two_cycle /\ keys_distinct two_cycle /\ no_move two_cycle /\
  Permutation [1; 0] (module_ids two_cycle) /\
  run_view two_cycle [1; 0] (fun s => (reg_entry s [1; 10; 20], bases_view s [2; 12], bases_view s [1; 10])) =
  Some (Some (T_FUNCTION, K_METHOD, 3), Some [([1; 10], Some [1; 10])], Some [([2; 11], Some [2; 11])]).
Proof.
  split; [apply parents_firstb_sound; vm_compute; reflexivity|].
  split; [apply keys_distinctb_sound; vm_compute; reflexivity|].
  split; [apply no_moveb_sound; vm_compute; reflexivity|].
  split; [apply perm_swap|vm_compute; reflexivity].
Qed.

(* _impl.py: class Foo      api.py: from _impl import Foo ; __all__ = ['Foo']      cons.py: from _impl import Foo ; class K(Foo)
   names: Foo 1, _impl 2 (+ the underscore bit), api 3, K 4, cons 5.  No import cycle. *)
Definition stale_sibling : project :=
  [ {| m_name := 524290; m_parent := None; m_pkg := false; m_doc := 0; m_stmts := [SClass 1 0 [] []] |};
    {| m_name := 3; m_parent := None; m_pkg := false; m_doc := 0;
       m_stmts := [SImportFrom 0 [524290] [(1, 1)]; SAll [1]] |};
    {| m_name := 5; m_parent := None; m_pkg := false; m_doc := 0;
       m_stmts := [SImportFrom 0 [524290] [(1, 1)]; SClass 4 0 [[1]] []] |} ].

(* the consumer that imports the re-exported class from its defining module: analysed before the re-exporter its base
   is resolved (and follows the move to api.Foo), analysed after it the stale name _impl.Foo is unknown *)
Theorem C06_stale_name_refuted :
  exists (p : project) (s1 s2 : list N) (k : path),
    Permutation s1 (module_ids p) /\ Permutation s2 (module_ids p) /\
    run_view p s1 (fun s => bases_view s k) = Some (Some [([524290; 1], None)]) /\
    run_view p s2 (fun s => bases_view s k) = Some (Some [([3; 1], Some [3; 1])]).
Proof.
  exists stale_sibling, [0; 1; 2], [0; 2; 1], [5; 4].
  split; [apply Permutation_refl|]. split; [apply perm_skip; apply perm_swap|]. split; vm_compute; reflexivity.
Qed.

(* m3.py: class K9      m4.py: import m3 as a ; class K10(a.K9)      m1.py: from m4 import K10 ; __all__ = ['K10']
   names: K9 1, m3 2, a 3, K10 4, m4 5, m1 6.  No import cycle. *)
Definition rescoped : project :=
  [ {| m_name := 2; m_parent := None; m_pkg := false; m_doc := 0; m_stmts := [SClass 1 0 [] []] |};
    {| m_name := 5; m_parent := None; m_pkg := false; m_doc := 0;
       m_stmts := [SImport [2] 3; SClass 4 0 [[3; 1]] []] |};
    {| m_name := 6; m_parent := None; m_pkg := false; m_doc := 0;
       m_stmts := [SImportFrom 0 [5] [(4, 4)]; SAll [4]] |} ].

(* a class that is moved by a re-export and whose base is not yet resolvable when it is visited (m3 not analysed yet:
   a plain import does not trigger it): the second pass resolves `a.K9` in the scope of the NEW parent m1 *)
Theorem C06_moved_class_rescoped_refuted :
  exists (p : project) (s1 s2 : list N) (k : path),
    Permutation s1 (module_ids p) /\ Permutation s2 (module_ids p) /\
    run_view p s1 (fun s => bases_view s k) = Some (Some [([2; 1], Some [2; 1])]) /\
    run_view p s2 (fun s => bases_view s k) = Some (Some [([2; 1], None)]).
Proof.
  exists rescoped, [0; 1; 2], [1; 0; 2], [6; 4].
  split; [apply Permutation_refl|]. split; [apply perm_swap|]. split; vm_compute; reflexivity.
Qed.

(* m2.py: from m3 import K5 ; class K3 ; __all__ = ['K5']      m3.py: from m2 import K3 as K3a ; class K5(K3a)
   names: m3 1, K5 2, K3 3, m2 4, K3a 5.  A re-export inside an import cycle. *)
Definition reexport_cycle : project :=
  [ {| m_name := 4; m_parent := None; m_pkg := false; m_doc := 0;
       m_stmts := [SImportFrom 0 [1] [(2, 2)]; SClass 3 0 [] []; SAll [2]] |};
    {| m_name := 1; m_parent := None; m_pkg := false; m_doc := 0;
       m_stmts := [SImportFrom 0 [4] [(3, 5)]; SClass 2 0 [[5]] []] |} ].

(* order m2, m3: K5 is moved to m2 and its base stays unresolved; order m3, m2: K5 is not moved and its base resolves *)
Theorem C06_reexport_in_cycle_refuted :
  exists (p : project) (s1 s2 : list N),
    Permutation s1 (module_ids p) /\ Permutation s2 (module_ids p) /\
    run_view p s1 (fun s => (bases_view s [4; 2], bases_view s [1; 2])) = Some (Some [([4; 3], None)], None) /\
    run_view p s2 (fun s => (bases_view s [4; 2], bases_view s [1; 2])) = Some (None, Some [([4; 3], Some [4; 3])]).
Proof.
  exists reexport_cycle, [0; 1], [1; 0].
  split; [apply Permutation_refl|]. split; [apply perm_swap|]. split; vm_compute; reflexivity.
Qed.

(* a.py: class A0 ; from b import * ; class A1(B0)      b.py: from a import * ; class B0
   names: A0 1, b 2, A1 3, B0 4, a 5.  A star import inside an import cycle. *)
Definition star_cycle : project :=
  [ {| m_name := 5; m_parent := None; m_pkg := false; m_doc := 0;
       m_stmts := [SClass 1 0 [] []; SImportStar 0 [2]; SClass 3 0 [[4]] []] |};
    {| m_name := 2; m_parent := None; m_pkg := false; m_doc := 0;
       m_stmts := [SImportStar 0 [5]; SClass 4 0 [] []] |} ].

Theorem C06_star_in_cycle_refuted :
  exists (p : project) (s1 s2 : list N) (k : path),
    Permutation s1 (module_ids p) /\ Permutation s2 (module_ids p) /\
    run_view p s1 (fun s => bases_view s k) = Some (Some [([2; 4], Some [2; 4])]) /\
    run_view p s2 (fun s => bases_view s k) = Some (Some [([4], None)]).
Proof.
  exists star_cycle, [0; 1], [1; 0], [5; 3].
  split; [apply Permutation_refl|]. split; [apply perm_swap|]. split; vm_compute; reflexivity.
Qed.
