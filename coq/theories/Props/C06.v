(* Props/C06.v -- C06: the result does not depend on the order in which modules are analysed.
   (work in progress: witnesses first) *)
From Coq Require Import ZArith NArith List Bool Permutation.
From PydoctorVerif Require Import Base.Sexp Model.Project.
Import ListNotations.
Local Open Scope N_scope.

(* a.py:  class B ("first") / from b import C / class B ("second")      b.py:  from a import B / class C(B) *)
Definition dup_cycle : project :=
  [ {| m_name := 1; m_parent := None; m_pkg := false; m_doc := 0;
       m_stmts := [SClass 10 1 [] []; SImportFrom 0 [2] [(11, 11)]; SClass 10 2 [] []] |};
    {| m_name := 2; m_parent := None; m_pkg := false; m_doc := 0;
       m_stmts := [SImportFrom 0 [1] [(10, 10)]; SClass 11 0 [[10]] []] |} ].

Theorem C06_dup_in_cycle_refuted :
  exists (p : project) (s1 s2 : list N) (k : path),
    Permutation s1 s2 /\
    run_view p s1 (fun s => bases_view s k) = Some (Some [([1; dup_name 10 0], Some [1; dup_name 10 0])]) /\
    run_view p s2 (fun s => bases_view s k) = Some (Some [([1; 10], Some [1; 10])]).
Proof.
  exists dup_cycle, [0; 1], [1; 0], [2; 11].
  split; [apply perm_swap|]. split; vm_compute; reflexivity.
Qed.
