(* Props/C07.v -- C07: a re-exported object is documented once, where exported, and stays reachable.
   (work in progress: witnesses first) *)
From Coq Require Import ZArith NArith List Bool Permutation.
From PydoctorVerif Require Import Base.Sexp Model.Project Model.Linker.
Import ListNotations.
Local Open Scope N_scope.

(* pkg/__init__.py: from ._impl import Foo ; __all__ = ['Foo']
   pkg/_impl.py   : class Foo: def m(self)
   pkg/cons.py    : from pkg._impl import Foo ; class X(Foo)
   names: pkg 1, _impl 2, cons 3, Foo 10, X 11, m 12 *)
Definition stale_project : project :=
  [ {| m_name := 1; m_parent := None; m_pkg := true; m_doc := 0;
       m_stmts := [SImportFrom 1 [2] [(10, 10)]; SAll [10]] |};
    {| m_name := 2; m_parent := Some 0; m_pkg := false; m_doc := 0;
       m_stmts := [SClass 10 1 [] [(0, 12, 0)]] |};
    {| m_name := 3; m_parent := Some 0; m_pkg := false; m_doc := 0;
       m_stmts := [SImportFrom 0 [1; 2] [(10, 10)]; SClass 11 0 [[10]] []] |} ].

Definition stale_observation (s : state) :=
  (reg_entry s [1; 10], reg_entry s [1; 2; 10], alias_view s [1; 2] 10,
   match pget [1; 3] (allobjs s) with
   | Some c => Some (expand_name s c [10], resolve_name s c [10], link_to s c [10])
   | None => None
   end).

(* Under EVERY order of the three modules the class is documented as pkg.Foo only, pkg._impl keeps the alias
   Foo -> pkg.Foo, and yet in pkg.cons -- which imports it from the defining module -- the name Foo and a link to Foo
   are unresolved in the final state: expandName gives the stale pkg._impl.Foo.  Under the orders the real tool can
   realise (the package's own module first) the base class of X is unresolved as well. *)
Theorem C07_reach_via_defining_module_refuted :
  exists p : project,
    (forall sigma, In sigma [[0; 1; 2]; [0; 2; 1]; [1; 0; 2]; [1; 2; 0]; [2; 0; 1]; [2; 1; 0]] ->
       run_view p sigma stale_observation =
       Some (Some (T_CLASS, K_CLASS, 1), None, Some [1; 10], Some ([1; 2; 10], None, None))) /\
    (forall sigma, In sigma [[0; 1; 2]; [0; 2; 1]] ->
       run_view p sigma (fun s => bases_view s [1; 3; 11]) = Some (Some [([1; 2; 10], None)])).
Proof.
  exists stale_project. split; intros sigma H.
  - repeat (destruct H as [<-|H]; [vm_compute; reflexivity|]). destruct H.
  - repeat (destruct H as [<-|H]; [vm_compute; reflexivity|]). destruct H.
Qed.
