(* Props/C07.v -- C07: a re-exported object is documented once, where exported, and stays reachable.

   Model: Model/Project.v + Model/Linker.v.  Static reading of the project: Spec/ProjectStatic.v
   (`moved_key p R D ix n o` = the qualified name of object o once x = (D, ix, 0) has been re-exported by R as n).

   PROVED for every project and EVERY schedule (no bound):
     C07_moved_once -- module R has a module-level `from <D> import ..., x as n, ...` (absolute or relative; n = x for a
        plain import) and lists n in its __all__; D defines x, does not list it in its own __all__ and makes no
        from-imports itself (so it cannot depend on R); n is imported once in R; no other import of the project
        re-exports; qualified names are distinct before and after the move.  Then the final registry is exactly the
        static one with x AND EVERYTHING BELOW IT registered under R.n (nothing under D.x), `contents` of D lacks x,
        `contents` of R has n, and D keeps the alias x -> R.n.
     C07_moved_once_star -- the star-import form: R has one `from <D> import *` and lists x in its __all__; D only
        defines things (no imports, no __all__), x is public and is the only name of D that R exports; nothing else
        re-exports.  Same conclusion for every schedule (Proofs/ProjectMoveStar.v: the whole star import is the
        designated operation, a fold over the public names of D of which exactly one moves).
        C07_star_hypotheses_satisfiable: a concrete project, with the expected registry under both orders.
     C07_reach_via_reexporter, C07_reach_via_module_alias -- under the hypotheses of C07_moved_once, for a third module C
        without star imports and `x = dotted.name` statements: if the import statements of C bind a name to R.n (resp. a
        name d to the module D) -- `static_alias p C`, the alias map read off C's text -- and C neither defines that name
        nor has a sub-module of that name, then in the FINAL state of EVERY schedule the name (resp. d.x), resolveName
        (what base classes use) and link_to reach the moved object.  No hypothesis about the state: the alias map of the
        consumer is proved to be the syntactic one whenever the move happens (Proofs/ProjectMove.v, Section Consumer).
        C07_reach_hypotheses_satisfiable: the hypotheses hold for a concrete project.
        C07_reach_via_reexporter_star, C07_reach_via_module_alias_star: the same for the star-import form.
     C07_find_object_old_name -- same hypotheses, D a top-level module: System.find_object with the old qualified name
        D.x returns the moved object in the final state of every schedule (the old name is not registered any more; the
        fallback through the root module and the alias the move left there finds it).
     C07_code_reparent_is_model, C07_code_registry_walks_is_model -- THE TIE TO THE SOURCE: the current bodies of
        Documentable.reparent, _handle_reparenting_pre and _handle_reparenting_post (pydoctor/model.py), translated
        statement by statement into Gen/ReexportCode.v, interpret to the model's reparent / unregister / register for
        every state and all arguments (reparent: the object has a parent that can contain imports, else Python raises).
        Model/Project.v's reparent now follows the Python statement by statement, including the second
        _handle_reparenting_post; Proofs/ProjectMove.v shows that pass re-assigns the same keys on coherent states.
   REFUTED on the faithful model (known finding C07-stale-defining-module-name):
     C07_reach_via_defining_module_refuted -- `from D import x` in a consumer: the name, a base class, link_to are
        unresolved under every schedule.
   NOT PROVED (sampled by the correspondence check + oracle only): a defining module that itself has imports (no
   cycle with R), several re-exports in one project (incl. a star import that moves several names), consumers that
   are classes' own scopes or that use star imports / assignment aliases themselves. *)
From Coq Require Import ZArith NArith List Bool Permutation.
From PydoctorVerif Require Import Base.Sexp Model.Project Model.Linker Spec.ProjectStatic
     Proofs.ProjectBase Proofs.ProjectRegistry Proofs.ProjectStaticCheck Proofs.ProjectMove Proofs.LinkerProofs
     Proofs.ProjectReach Proofs.ProjectMoveStar.
From PydoctorVerif Require Model.ReexportIR Gen.ReexportCode Proofs.ReexportIRProofs.
Import ListNotations.
Local Open Scope N_scope.

Theorem C07_moved_once :
  forall (p : project) (R D ix xname n : N) (miR miD : modinfo) (spre spost : list stmt) (lvl : N) (mn : path)
         (npre npost : list (N * N)),
    (* the project *)
    parents_first p -> keys_distinct p ->
    (forall o o', sobj p o <> None -> sobj p o' <> None -> moved_key p R D ix n o = moved_key p R D ix n o' -> o = o') ->
    (* x is defined by statement ix of module D under the name xname *)
    R <> D -> ix <> 0 -> sobj p (D, ix, 0) <> None -> sname p (D, ix, 0) = xname ->
    (* R imports it from D as n, once, and lists n in its __all__ *)
    modinfo_of p R = Some miR ->
    m_stmts miR = spre ++ SImportFrom lvl mn (npre ++ (xname, n) :: npost) :: spost ->
    (forall oa, In oa (npre ++ npost) -> snd oa <> n) ->
    (forall lv m' nms oa, In (SImportFrom lv m' nms) (spre ++ spost) -> In oa nms -> snd oa <> n) ->
    In n (exports_of_mod miR) ->
    static_modname p R lvl mn = Some (skey p (D, 0, 0)) ->
    (* D makes no from-imports and does not export x itself *)
    modinfo_of p D = Some miD ->
    (forall st, In st (m_stmts miD) -> local_stmt st = true) ->
    (forall a, last_all (m_stmts miD) None = Some a -> ~ In xname a) ->
    (* no other import of the project re-exports *)
    (forall m mi st, modinfo_of p m = Some mi -> In st (m_stmts mi) ->
       match st with
       | SImportFrom _ _ nms => forall oa, In oa nms -> In (snd oa) (exports_of_mod mi) -> m = R /\ snd oa = n
       | SImportStar _ _ => exports_of_mod mi = []
       | _ => True
       end) ->
    forall sigma, Permutation sigma (module_ids p) ->
    exists s, run_state p sigma = Ok s /\
      (forall k e, reg_entry s k = Some e <->
                   exists o si, sobj p o = Some si /\ moved_key p R D ix n o = k /\ e = (s_tag si, s_kind si, s_doc si)) /\
      (exists names, contents_view s (skey p (D, 0, 0)) = Some names /\ ~ In xname names) /\
      (exists names, contents_view s (skey p (R, 0, 0)) = Some names /\ In n names) /\
      alias_view s (skey p (D, 0, 0)) xname = Some (moved_key p R D ix n (D, ix, 0)).
Proof.
  intros p R D ix xname n miR miD spre spost lvl mn npre npost Hwf H0 H1 HRD Hix Hxd Hxn HRm HRs Ho1 Ho2 Hexp Hres HDm HDl HDa Honly
         sigma Hperm.
  exact (moved_static p R D ix xname n Hwf H0 H1 HRD Hix Hxd Hxn miR miD spre spost lvl mn npre npost HRm HRs Ho1 Ho2 Hexp Hres
                      HDm HDl HDa Honly sigma Hperm).
Qed.

(* The star-import form: R has `from <D> import *` (one star import) and lists x in its __all__; D only defines
   things (classes, functions, variables: no imports, no __all__, hence no alias of its own), x is public, and x is the
   only name of D (definition or sub-module) that R exports.  Same conclusion, for every schedule. *)
Theorem C07_moved_once_star :
  forall (p : project) (R D ix xname : N) (miR miD : modinfo) (spre spost : list stmt) (lvl : N) (mn : path),
    parents_first p -> keys_distinct p ->
    (forall o o', sobj p o <> None -> sobj p o' <> None ->
                  moved_key p R D ix xname o = moved_key p R D ix xname o' -> o = o') ->
    R <> D -> ix <> 0 -> sobj p (D, ix, 0) <> None -> sname p (D, ix, 0) = xname ->
    modinfo_of p R = Some miR ->
    m_stmts miR = spre ++ SImportStar lvl mn :: spost ->
    (forall lv m', ~ In (SImportStar lv m') (spre ++ spost)) ->
    In xname (exports_of_mod miR) ->
    (forall a, In a (exports_of_mod miR) -> In a (def_names miD) \/ In a (submodule_names p D) -> a = xname) ->
    static_modname p R lvl mn = Some (skey p (D, 0, 0)) ->
    modinfo_of p D = Some miD ->
    (forall st, In st (m_stmts miD) -> match st with SClass _ _ _ _ | SFunc _ _ | SVar _ _ => True | _ => False end) ->
    is_private_name xname = false ->
    (* no other import of the project re-exports *)
    (forall m mi st, modinfo_of p m = Some mi -> In st (m_stmts mi) ->
       match st with
       | SImportFrom _ _ nms => forall oa, In oa nms -> ~ In (snd oa) (exports_of_mod mi)
       | SImportStar _ _ => exports_of_mod mi = [] \/ m = R
       | _ => True
       end) ->
    forall sigma, Permutation sigma (module_ids p) ->
    exists s, run_state p sigma = Ok s /\
      (forall k e, reg_entry s k = Some e <->
                   exists o si, sobj p o = Some si /\ moved_key p R D ix xname o = k /\ e = (s_tag si, s_kind si, s_doc si)) /\
      (exists names, contents_view s (skey p (D, 0, 0)) = Some names /\ ~ In xname names) /\
      (exists names, contents_view s (skey p (R, 0, 0)) = Some names /\ In xname names) /\
      alias_view s (skey p (D, 0, 0)) xname = Some (moved_key p R D ix xname (D, ix, 0)).
Proof.
  intros p R D ix xname miR miD spre spost lvl mn Hwf H0 H1 HRD Hix Hxd Hxn HRm HRs Ho Hexp Honlyx Hres HDm HDd Hpub Honly sigma Hperm.
  assert (HDd' : forall st, In st (m_stmts miD) -> def_stmt st = true).
  { intros st Hin. pose proof (HDd st Hin) as Hs. destruct st; try contradiction; reflexivity. }
  exact (moved_static_star p R D ix xname Hwf H0 H1 HRD Hix Hxd Hxn miR miD spre spost lvl mn HRm HRs Ho Hexp Honlyx Hres HDm HDd' Hpub
                           Honly sigma Hperm).
Qed.

(* pkg/__init__.py: from ._impl import * ; __all__ = ['Foo']
   pkg/_impl.py   : class Foo: def m(self) ; class Bar
   names: pkg 1, _impl 2, Foo 10, Bar 11, m 12 *)
Definition star_project : project :=
  [ {| m_name := 1; m_parent := None; m_pkg := true; m_doc := 0;
       m_stmts := [SImportStar 1 [2]; SAll [10]] |};
    {| m_name := 2; m_parent := Some 0; m_pkg := false; m_doc := 0;
       m_stmts := [SClass 10 1 [] [(0, 12, 0)]; SClass 11 0 [] []] |} ].

(* the hypotheses of C07_moved_once_star hold for this project (R = pkg, D = pkg._impl, x = Foo); under both orders
   Foo and Foo.m are documented under pkg only, Bar stays in pkg._impl *)
Example C07_star_hypotheses_satisfiable :
  let p := star_project in
  parents_first p /\ keys_distinct p /\
  (forall o o', sobj p o <> None -> sobj p o' <> None -> moved_key p 0 1 1 10 o = moved_key p 0 1 1 10 o' -> o = o') /\
  sobj p (1, 1, 0) <> None /\ sname p (1, 1, 0) = 10 /\
  static_modname p 0 1 [2] = Some (skey p (1, 0, 0)) /\ is_private_name 10 = false /\
  (forall m mi st, modinfo_of p m = Some mi -> In st (m_stmts mi) ->
     match st with
     | SImportFrom _ _ nms => forall oa, In oa nms -> ~ In (snd oa) (exports_of_mod mi)
     | SImportStar _ _ => exports_of_mod mi = [] \/ m = 0
     | _ => True
     end) /\
  (forall sigma, In sigma [[0; 1]; [1; 0]] ->
     run_view p sigma (fun s => (reg_entry s [1; 10], reg_entry s [1; 10; 12], reg_entry s [1; 2; 10], reg_entry s [1; 2; 11])) =
     Some (Some (T_CLASS, K_CLASS, 1), Some (T_FUNCTION, K_METHOD, 0), None, Some (T_CLASS, K_CLASS, 0))).
Proof.
  cbv zeta. split; [apply parents_firstb_sound; vm_compute; reflexivity|].
  split; [apply keys_distinctb_sound; vm_compute; reflexivity|].
  split; [apply keysb_sound; vm_compute; reflexivity|].
  split; [vm_compute; discriminate|].
  split; [vm_compute; reflexivity|].
  split; [vm_compute; reflexivity|].
  split; [vm_compute; reflexivity|].
  split; [apply only_starb_sound; vm_compute; reflexivity|].
  intros sigma H. repeat (destruct H as [<-|H]; [vm_compute; reflexivity|]). destruct H.
Qed.

(* A consumer module C whose import statements bind the name a to R.n (`from R import n`, `from R import n as a`,
   relative or absolute: `static_alias p C` is the alias map read off the text of C, Spec/ProjectStatic.v), and that
   neither defines a nor has a sub-module a.  In the final state of EVERY schedule the name a, a base class written
   a (resolve_name is what Class bases use) and a link to a reach the moved object. *)
Theorem C07_reach_via_reexporter :
  forall (p : project) (R D ix xname n : N) (miR miD : modinfo) (spre spost : list stmt) (lvl : N) (mn : path)
         (npre npost : list (N * N)) (C : N) (miC : modinfo) (a : N),
    (* the hypotheses of C07_moved_once *)
    parents_first p -> keys_distinct p ->
    (forall o o', sobj p o <> None -> sobj p o' <> None -> moved_key p R D ix n o = moved_key p R D ix n o' -> o = o') ->
    R <> D -> ix <> 0 -> sobj p (D, ix, 0) <> None -> sname p (D, ix, 0) = xname ->
    modinfo_of p R = Some miR ->
    m_stmts miR = spre ++ SImportFrom lvl mn (npre ++ (xname, n) :: npost) :: spost ->
    (forall oa, In oa (npre ++ npost) -> snd oa <> n) ->
    (forall lv m' nms oa, In (SImportFrom lv m' nms) (spre ++ spost) -> In oa nms -> snd oa <> n) ->
    In n (exports_of_mod miR) ->
    static_modname p R lvl mn = Some (skey p (D, 0, 0)) ->
    modinfo_of p D = Some miD ->
    (forall st, In st (m_stmts miD) -> local_stmt st = true) ->
    (forall a, last_all (m_stmts miD) None = Some a -> ~ In xname a) ->
    (forall m mi st, modinfo_of p m = Some mi -> In st (m_stmts mi) ->
       match st with
       | SImportFrom _ _ nms => forall oa, In oa nms -> In (snd oa) (exports_of_mod mi) -> m = R /\ snd oa = n
       | SImportStar _ _ => exports_of_mod mi = []
       | _ => True
       end) ->
    (* the consumer: a third module without star imports and assignment aliases *)
    modinfo_of p C = Some miC -> C <> R -> C <> D ->
    (forall st, In st (m_stmts miC) -> plain_stmt st = true) ->
    nget a (static_alias p C) = Some (skey p (R, 0, 0) ++ [n]) ->
    ~ In a (def_names miC) -> ~ In a (submodule_names p C) ->
    forall sigma, Permutation sigma (module_ids p) ->
    exists s, run_state p sigma = Ok s /\
              expand_name s (C, 0, 0) [a] = moved_key p R D ix n (D, ix, 0) /\
              resolve_name s (C, 0, 0) [a] = Some (D, ix, 0) /\ link_to s (C, 0, 0) [a] = Some (D, ix, 0).
Proof.
  intros p R D ix xname n miR miD spre spost lvl mn npre npost C miC a Hwf H0 H1 HRD Hix Hxd Hxn HRm HRs Ho1 Ho2 Hexp Hres HDm HDl HDa
         Honly HCm HCR HCD HCp Ha Hnd Hns sigma Hperm.
  exact (reach_via_reexporter p R D ix xname n Hwf H0 HRD Hix Hxd Hxn miR miD HRm HDm C miC HCm HCR
           (ProjectMove.moved_final p R D ix xname n Hwf H0 H1 HRD Hix Hxd Hxn miR miD spre spost lvl mn npre npost HRm HRs Ho1 Ho2 Hexp
                                    Hres HDm HDl HDa Honly C miC HCm HCR HCD HCp)
           a Ha Hnd Hns sigma Hperm).
Qed.

(* A consumer module C whose import statements bind the name d to the defining module D itself (`import D as d`,
   `from pkg import D as d`): d.xname is expanded through the alias that the move left in D and reaches the moved
   object, in the final state of EVERY schedule. *)
Theorem C07_reach_via_module_alias :
  forall (p : project) (R D ix xname n : N) (miR miD : modinfo) (spre spost : list stmt) (lvl : N) (mn : path)
         (npre npost : list (N * N)) (C : N) (miC : modinfo) (d : N),
    (* the hypotheses of C07_moved_once *)
    parents_first p -> keys_distinct p ->
    (forall o o', sobj p o <> None -> sobj p o' <> None -> moved_key p R D ix n o = moved_key p R D ix n o' -> o = o') ->
    R <> D -> ix <> 0 -> sobj p (D, ix, 0) <> None -> sname p (D, ix, 0) = xname ->
    modinfo_of p R = Some miR ->
    m_stmts miR = spre ++ SImportFrom lvl mn (npre ++ (xname, n) :: npost) :: spost ->
    (forall oa, In oa (npre ++ npost) -> snd oa <> n) ->
    (forall lv m' nms oa, In (SImportFrom lv m' nms) (spre ++ spost) -> In oa nms -> snd oa <> n) ->
    In n (exports_of_mod miR) ->
    static_modname p R lvl mn = Some (skey p (D, 0, 0)) ->
    modinfo_of p D = Some miD ->
    (forall st, In st (m_stmts miD) -> local_stmt st = true) ->
    (forall a, last_all (m_stmts miD) None = Some a -> ~ In xname a) ->
    (forall m mi st, modinfo_of p m = Some mi -> In st (m_stmts mi) ->
       match st with
       | SImportFrom _ _ nms => forall oa, In oa nms -> In (snd oa) (exports_of_mod mi) -> m = R /\ snd oa = n
       | SImportStar _ _ => exports_of_mod mi = []
       | _ => True
       end) ->
    (* the consumer: a third module without star imports and assignment aliases *)
    modinfo_of p C = Some miC -> C <> R -> C <> D ->
    (forall st, In st (m_stmts miC) -> plain_stmt st = true) ->
    nget d (static_alias p C) = Some (skey p (D, 0, 0)) ->
    ~ In d (def_names miC) -> ~ In d (submodule_names p C) ->
    forall sigma, Permutation sigma (module_ids p) ->
    exists s, run_state p sigma = Ok s /\
              expand_name s (C, 0, 0) [d; xname] = moved_key p R D ix n (D, ix, 0) /\
              resolve_name s (C, 0, 0) [d; xname] = Some (D, ix, 0) /\ link_to s (C, 0, 0) [d; xname] = Some (D, ix, 0).
Proof.
  intros p R D ix xname n miR miD spre spost lvl mn npre npost C miC d Hwf H0 H1 HRD Hix Hxd Hxn HRm HRs Ho1 Ho2 Hexp Hres HDm HDl HDa
         Honly HCm HCR HCD HCp Ha Hnd Hns sigma Hperm.
  exact (reach_via_module_alias p R D ix xname n Hwf H0 HRD Hix Hxd Hxn miR miD HRm HDm C miC HCm HCR
           (ProjectMove.moved_final p R D ix xname n Hwf H0 H1 HRD Hix Hxd Hxn miR miD spre spost lvl mn npre npost HRm HRs Ho1 Ho2 Hexp
                                    Hres HDm HDl HDa Honly C miC HCm HCR HCD HCp)
           d Ha Hnd Hns sigma Hperm).
Qed.

(* The same two statements for the star-import form of the re-export (hypotheses of C07_moved_once_star). *)
Theorem C07_reach_via_reexporter_star :
  forall (p : project) (R D ix xname : N) (miR miD : modinfo) (spre spost : list stmt) (lvl : N) (mn : path)
         (C : N) (miC : modinfo) (a : N),
    (* the hypotheses of C07_moved_once_star *)
    parents_first p -> keys_distinct p ->
    (forall o o', sobj p o <> None -> sobj p o' <> None ->
                  moved_key p R D ix xname o = moved_key p R D ix xname o' -> o = o') ->
    R <> D -> ix <> 0 -> sobj p (D, ix, 0) <> None -> sname p (D, ix, 0) = xname ->
    modinfo_of p R = Some miR ->
    m_stmts miR = spre ++ SImportStar lvl mn :: spost ->
    (forall lv m', ~ In (SImportStar lv m') (spre ++ spost)) ->
    In xname (exports_of_mod miR) ->
    (forall a, In a (exports_of_mod miR) -> In a (def_names miD) \/ In a (submodule_names p D) -> a = xname) ->
    static_modname p R lvl mn = Some (skey p (D, 0, 0)) ->
    modinfo_of p D = Some miD ->
    (forall st, In st (m_stmts miD) -> match st with SClass _ _ _ _ | SFunc _ _ | SVar _ _ => True | _ => False end) ->
    is_private_name xname = false ->
    (forall m mi st, modinfo_of p m = Some mi -> In st (m_stmts mi) ->
       match st with
       | SImportFrom _ _ nms => forall oa, In oa nms -> ~ In (snd oa) (exports_of_mod mi)
       | SImportStar _ _ => exports_of_mod mi = [] \/ m = R
       | _ => True
       end) ->
    (* the consumer: a third module without star imports and assignment aliases *)
    modinfo_of p C = Some miC -> C <> R -> C <> D ->
    (forall st, In st (m_stmts miC) -> plain_stmt st = true) ->
    nget a (static_alias p C) = Some (skey p (R, 0, 0) ++ [xname]) ->
    ~ In a (def_names miC) -> ~ In a (submodule_names p C) ->
    forall sigma, Permutation sigma (module_ids p) ->
    exists s, run_state p sigma = Ok s /\
              expand_name s (C, 0, 0) [a] = moved_key p R D ix xname (D, ix, 0) /\
              resolve_name s (C, 0, 0) [a] = Some (D, ix, 0) /\ link_to s (C, 0, 0) [a] = Some (D, ix, 0).
Proof.
  intros p R D ix xname miR miD spre spost lvl mn C miC a Hwf H0 H1 HRD Hix Hxd Hxn HRm HRs Ho Hexp Honlyx Hres HDm HDd Hpub Honly
         HCm HCR HCD HCp Ha Hnd Hns sigma Hperm.
  assert (HDd' : forall st, In st (m_stmts miD) -> def_stmt st = true).
  { intros st Hin. pose proof (HDd st Hin) as Hs. destruct st; try contradiction; reflexivity. }
  exact (reach_via_reexporter p R D ix xname xname Hwf H0 HRD Hix Hxd Hxn miR miD HRm HDm C miC HCm HCR
           (moved_final_star p R D ix xname Hwf H0 H1 HRD Hix Hxd Hxn miR miD spre spost lvl mn HRm HRs Ho Hexp Honlyx Hres HDm HDd' Hpub
                             Honly C miC HCm HCR HCD HCp)
           a Ha Hnd Hns sigma Hperm).
Qed.

Theorem C07_reach_via_module_alias_star :
  forall (p : project) (R D ix xname : N) (miR miD : modinfo) (spre spost : list stmt) (lvl : N) (mn : path)
         (C : N) (miC : modinfo) (d : N),
    (* the hypotheses of C07_moved_once_star *)
    parents_first p -> keys_distinct p ->
    (forall o o', sobj p o <> None -> sobj p o' <> None ->
                  moved_key p R D ix xname o = moved_key p R D ix xname o' -> o = o') ->
    R <> D -> ix <> 0 -> sobj p (D, ix, 0) <> None -> sname p (D, ix, 0) = xname ->
    modinfo_of p R = Some miR ->
    m_stmts miR = spre ++ SImportStar lvl mn :: spost ->
    (forall lv m', ~ In (SImportStar lv m') (spre ++ spost)) ->
    In xname (exports_of_mod miR) ->
    (forall a, In a (exports_of_mod miR) -> In a (def_names miD) \/ In a (submodule_names p D) -> a = xname) ->
    static_modname p R lvl mn = Some (skey p (D, 0, 0)) ->
    modinfo_of p D = Some miD ->
    (forall st, In st (m_stmts miD) -> match st with SClass _ _ _ _ | SFunc _ _ | SVar _ _ => True | _ => False end) ->
    is_private_name xname = false ->
    (forall m mi st, modinfo_of p m = Some mi -> In st (m_stmts mi) ->
       match st with
       | SImportFrom _ _ nms => forall oa, In oa nms -> ~ In (snd oa) (exports_of_mod mi)
       | SImportStar _ _ => exports_of_mod mi = [] \/ m = R
       | _ => True
       end) ->
    (* the consumer: a third module without star imports and assignment aliases *)
    modinfo_of p C = Some miC -> C <> R -> C <> D ->
    (forall st, In st (m_stmts miC) -> plain_stmt st = true) ->
    nget d (static_alias p C) = Some (skey p (D, 0, 0)) ->
    ~ In d (def_names miC) -> ~ In d (submodule_names p C) ->
    forall sigma, Permutation sigma (module_ids p) ->
    exists s, run_state p sigma = Ok s /\
              expand_name s (C, 0, 0) [d; xname] = moved_key p R D ix xname (D, ix, 0) /\
              resolve_name s (C, 0, 0) [d; xname] = Some (D, ix, 0) /\ link_to s (C, 0, 0) [d; xname] = Some (D, ix, 0).
Proof.
  intros p R D ix xname miR miD spre spost lvl mn C miC d Hwf H0 H1 HRD Hix Hxd Hxn HRm HRs Ho Hexp Honlyx Hres HDm HDd Hpub Honly
         HCm HCR HCD HCp Ha Hnd Hns sigma Hperm.
  assert (HDd' : forall st, In st (m_stmts miD) -> def_stmt st = true).
  { intros st Hin. pose proof (HDd st Hin) as Hs. destruct st; try contradiction; reflexivity. }
  exact (reach_via_module_alias p R D ix xname xname Hwf H0 HRD Hix Hxd Hxn miR miD HRm HDm C miC HCm HCR
           (moved_final_star p R D ix xname Hwf H0 H1 HRD Hix Hxd Hxn miR miD spre spost lvl mn HRm HRs Ho Hexp Honlyx Hres HDm HDd' Hpub
                             Honly C miC HCm HCR HCD HCp)
           d Ha Hnd Hns sigma Hperm).
Qed.

(* System.find_object with the OUTDATED qualified name D.x of the object, D a top-level module: the old name is no
   longer registered, find_object falls back to the root module D and expands the rest through the alias the move
   left there -- it returns the moved object, in the final state of EVERY schedule. *)
Theorem C07_find_object_old_name :
  forall (p : project) (R D ix xname n : N) (miR miD : modinfo) (spre spost : list stmt) (lvl : N) (mn : path)
         (npre npost : list (N * N)),
    parents_first p -> keys_distinct p ->
    (forall o o', sobj p o <> None -> sobj p o' <> None -> moved_key p R D ix n o = moved_key p R D ix n o' -> o = o') ->
    R <> D -> ix <> 0 -> sobj p (D, ix, 0) <> None -> sname p (D, ix, 0) = xname ->
    modinfo_of p R = Some miR ->
    m_stmts miR = spre ++ SImportFrom lvl mn (npre ++ (xname, n) :: npost) :: spost ->
    (forall oa, In oa (npre ++ npost) -> snd oa <> n) ->
    (forall lv m' nms oa, In (SImportFrom lv m' nms) (spre ++ spost) -> In oa nms -> snd oa <> n) ->
    In n (exports_of_mod miR) ->
    static_modname p R lvl mn = Some (skey p (D, 0, 0)) ->
    modinfo_of p D = Some miD ->
    (forall st, In st (m_stmts miD) -> local_stmt st = true) ->
    (forall a, last_all (m_stmts miD) None = Some a -> ~ In xname a) ->
    (forall m mi st, modinfo_of p m = Some mi -> In st (m_stmts mi) ->
       match st with
       | SImportFrom _ _ nms => forall oa, In oa nms -> In (snd oa) (exports_of_mod mi) -> m = R /\ snd oa = n
       | SImportStar _ _ => exports_of_mod mi = []
       | _ => True
       end) ->
    m_parent miD = None ->
    forall sigma, Permutation sigma (module_ids p) ->
    exists s, run_state p sigma = Ok s /\ find_object s (skey p (D, ix, 0)) = (1, Some (D, ix, 0)).
Proof.
  intros p R D ix xname n miR miD spre spost lvl mn npre npost Hwf H0 H1 HRD Hix Hxd Hxn HRm HRs Ho1 Ho2 Hexp Hres HDm HDl HDa Honly
         HDroot sigma Hperm.
  exact (find_object_old_name p R D ix xname n Hwf H0 H1 HRD Hix Hxd Hxn miR miD spre spost lvl mn npre npost HRm HRs Ho1 Ho2 Hexp Hres
                              HDm HDl HDa Honly HDroot sigma Hperm).
Qed.

(* the statements above are about states that exist: the final state of the sibling re-export
   _impl.py: class Foo      api.py: from _impl import Foo ; __all__ = ['Foo']
   user.py: from api import Foo ; import _impl as d ; class U1(Foo) ; class U2(d.Foo)
   names: Foo 1, _impl 2 (+ underscore bit), api 3, user 4, d 5, U1 6, U2 7 *)
Definition reach_project : project :=
  [ {| m_name := 524290; m_parent := None; m_pkg := false; m_doc := 0; m_stmts := [SClass 1 0 [] []] |};
    {| m_name := 3; m_parent := None; m_pkg := false; m_doc := 0;
       m_stmts := [SImportFrom 0 [524290] [(1, 1)]; SAll [1]] |};
    {| m_name := 4; m_parent := None; m_pkg := false; m_doc := 0;
       m_stmts := [SImportFrom 0 [3] [(1, 1)]; SImport [524290] 5; SClass 6 0 [[1]] []; SClass 7 0 [[5; 1]] []] |} ].

Example C07_reach_nonvacuous :
  forall sigma, In sigma [[0; 1; 2]; [0; 2; 1]; [1; 0; 2]; [1; 2; 0]; [2; 0; 1]; [2; 1; 0]] ->
    run_view reach_project sigma
      (fun s => (bases_view s [4; 6], bases_view s [4; 7], fst (find_object s [524290; 1]),
                 match pget [4] (allobjs s) with
                 | Some c => Some (expand_name s c [1], expand_name s c [5; 1])
                 | None => None end)) =
    Some (Some [([3; 1], Some [3; 1])], Some [([3; 1], Some [3; 1])], 1, Some ([3; 1], [3; 1])).
Proof.
  intros sigma H. repeat (destruct H as [<-|H]; [vm_compute; reflexivity|]). destruct H.
Qed.

(* the hypotheses of C07_reach_via_reexporter / C07_reach_via_module_alias hold for this project
   (R = api, D = _impl, x = Foo, C = user, a = Foo, d = d) *)
Example C07_reach_hypotheses_satisfiable :
  let p := reach_project in
  parents_first p /\ keys_distinct p /\
  (forall o o', sobj p o <> None -> sobj p o' <> None -> moved_key p 1 0 1 1 o = moved_key p 1 0 1 1 o' -> o = o') /\
  sobj p (0, 1, 0) <> None /\ sname p (0, 1, 0) = 1 /\
  static_modname p 1 0 [524290] = Some (skey p (0, 0, 0)) /\
  (forall m mi st, modinfo_of p m = Some mi -> In st (m_stmts mi) ->
     match st with
     | SImportFrom _ _ nms => forall oa, In oa nms -> In (snd oa) (exports_of_mod mi) -> m = 1 /\ snd oa = 1
     | SImportStar _ _ => exports_of_mod mi = []
     | _ => True
     end) /\
  (forall mi, modinfo_of p 0 = Some mi -> forall st, In st (m_stmts mi) -> local_stmt st = true) /\
  (forall mi, modinfo_of p 2 = Some mi ->
     (forall st, In st (m_stmts mi) -> plain_stmt st = true) /\
     ~ In 1 (def_names mi) /\ ~ In 5 (def_names mi)) /\
  ~ In 1 (submodule_names p 2) /\ ~ In 5 (submodule_names p 2) /\
  nget 1 (static_alias p 2) = Some (skey p (1, 0, 0) ++ [1]) /\
  nget 5 (static_alias p 2) = Some (skey p (0, 0, 0)).
Proof.
  cbv zeta. split; [apply parents_firstb_sound; vm_compute; reflexivity|].
  split; [apply keys_distinctb_sound; vm_compute; reflexivity|].
  split; [apply keysb_sound; vm_compute; reflexivity|].
  split; [vm_compute; discriminate|].
  split; [vm_compute; reflexivity|].
  split; [vm_compute; reflexivity|].
  split; [apply only_moveb_sound; vm_compute; reflexivity|].
  split; [intros mi E; vm_compute in E; inversion E; subst mi; intros st [<-|[]]; reflexivity|].
  split.
  { intros mi E. vm_compute in E. inversion E; subst mi. split; [|split].
    - intros st Hin. cbn [m_stmts] in Hin. repeat (destruct Hin as [<-|Hin]; [reflexivity|]). destruct Hin.
    - vm_compute. intros [E1|[E1|[]]]; discriminate.
    - vm_compute. intros [E1|[E1|[]]]; discriminate. }
  split; [vm_compute; tauto|]. split; [vm_compute; tauto|].
  split; vm_compute; reflexivity.
Qed.

(* pkg/__init__.py: from ._impl import Foo ; __all__ = ['Foo']
   pkg/_impl.py   : class Foo: def m(self)
   pkg/cons.py    : from pkg._impl import Foo ; class X(Foo)
   names: pkg 1, _impl 2, cons 3, Foo 10, X 11, m 12 *)
Definition stale_project : project :=
  [ {| m_name := 1; m_parent := None; m_pkg := true; m_doc := 0;
       m_stmts := [SImportFrom 1 [2] [(10, 10)]; SAll [10]] |};
    {| m_name := 2; m_parent := Some 0; m_pkg := false; m_doc := 0;
       m_stmts := [SClass 10 1 [] [(0, 12, 0)]] |};
    {| m_name := 3; m_parent := Some 0; m_pkg := false; m_doc := 0;
       m_stmts := [SImportFrom 0 [1; 2] [(10, 10)]; SClass 11 0 [[10]] []] |} ].

(* the hypotheses of C07_moved_once hold for this project (R = pkg, D = pkg._impl, x = Foo), and the moved
   names are pkg.Foo and pkg.Foo.m *)
Example C07_hypotheses_satisfiable :
  let p := stale_project in
  parents_first p /\ keys_distinct p /\
  (forall o o', sobj p o <> None -> sobj p o' <> None -> moved_key p 0 1 1 10 o = moved_key p 0 1 1 10 o' -> o = o') /\
  sobj p (1, 1, 0) <> None /\ sname p (1, 1, 0) = 10 /\
  static_modname p 0 1 [2] = Some (skey p (1, 0, 0)) /\
  (forall m mi st, modinfo_of p m = Some mi -> In st (m_stmts mi) ->
     match st with
     | SImportFrom _ _ nms => forall oa, In oa nms -> In (snd oa) (exports_of_mod mi) -> m = 0 /\ snd oa = 10
     | SImportStar _ _ => exports_of_mod mi = []
     | _ => True
     end) /\
  moved_key p 0 1 1 10 (1, 1, 0) = [1; 10] /\ moved_key p 0 1 1 10 (1, 1, 1) = [1; 10; 12] /\ skey p (1, 1, 0) = [1; 2; 10].
Proof.
  cbv zeta. split; [apply parents_firstb_sound; vm_compute; reflexivity|].
  split; [apply keys_distinctb_sound; vm_compute; reflexivity|].
  split; [apply keysb_sound; vm_compute; reflexivity|].
  split; [vm_compute; discriminate|].
  split; [vm_compute; reflexivity|].
  split; [vm_compute; reflexivity|].
  split; [apply only_moveb_sound; vm_compute; reflexivity|].
  split; [vm_compute; reflexivity|]. split; vm_compute; reflexivity.
Qed.

Definition stale_observation (s : state) :=
  (reg_entry s [1; 10], reg_entry s [1; 2; 10], alias_view s [1; 2] 10,
   match pget [1; 3] (allobjs s) with
   | Some c => Some (expand_name s c [10], resolve_name s c [10], link_to s c [10])
   | None => None
   end).

(* Under EVERY order of the three modules the class is documented as pkg.Foo only, pkg._impl keeps the alias
   Foo -> pkg.Foo, and yet in pkg.cons -- which imports it from the defining module -- the name Foo and a link to Foo
   are unresolved in the final state: expandName gives the stale pkg._impl.Foo.  Under the orders the real tool can
   realise (the package's own module first) the base class of X is unresolved as well. *)
Theorem C07_reach_via_defining_module_refuted :
  exists p : project,
    (forall sigma, In sigma [[0; 1; 2]; [0; 2; 1]; [1; 0; 2]; [1; 2; 0]; [2; 0; 1]; [2; 1; 0]] ->
       run_view p sigma stale_observation =
       Some (Some (T_CLASS, K_CLASS, 1), None, Some [1; 10], Some ([1; 2; 10], None, None))) /\
    (forall sigma, In sigma [[0; 1; 2]; [0; 2; 1]] ->
       run_view p sigma (fun s => bases_view s [1; 3; 11]) = Some (Some [([1; 2; 10], None)])).
Proof.
  exists stale_project. split; intros sigma H.
  - repeat (destruct H as [<-|H]; [vm_compute; reflexivity|]). destruct H.
  - repeat (destruct H as [<-|H]; [vm_compute; reflexivity|]). destruct H.
Qed.

(* ---------------------------------------------------------------------------------------------------------------
   The tie to the source.  Gen/ReexportCode.v holds the CURRENT text of Documentable.reparent,
   _handle_reparenting_pre and _handle_reparenting_post (pydoctor/model.py), translated statement by statement by
   harness/gen/gen_c06_code.py into the language of Model/ReexportIR.v.  Interpreting that code IS the model's
   reparent / unregister / register, for every state and all arguments. *)
Theorem C07_code_registry_walks_is_model :
  forall (s : state) (o : oid),
    ReexportIR.pre_ir ReexportCode.reexport_code (dfuel s) s o = Some (unregister s (subtree s o)) /\
    ReexportIR.post_ir ReexportCode.reexport_code (dfuel s) s o = Some (register s (subtree s o)).
Proof. intros s o. split; [apply ReexportIRProofs.pre_ir_eq|apply ReexportIRProofs.post_ir_eq]. Qed.

(* the object has a parent that can contain imports (Python raises at the `assert` otherwise) *)
Theorem C07_code_reparent_is_model :
  forall (s : state) (o np : oid) (nn : N) (ob : obj) (q : oid),
    objs s o = Some ob -> o_parent ob = Some q -> ReexportIR.is_inst s q ReexportIR.CScope = true ->
    ReexportIR.reparent_ir ReexportCode.reexport_code s o np nn = Some (reparent s o np nn).
Proof. exact ReexportIRProofs.reparent_ir_eq. Qed.

