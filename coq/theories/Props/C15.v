(* Props/C15.v -- C15: a displayed value or expression means the same as the source expression.
   Only statements closed by `exact`; proofs live in Proofs/ExprPrintProofs.v, Proofs/WrapProofs.v, Proofs/StrEscProofs.v.
   Model: Model/ExprPrint.v (AST side of PyvalColorizer, the parenthesis decision of _OperatorDelimiter),
          Model/Wrap.v (_output, wrapping, truncation), Model/StrEsc.v; tables: Gen/TablesC15.v (regenerated from /repo).
   Spec:  Spec/PyGrammar.v (a reader for the displayed tokens written from the language reference; norm = the
          documented spelling changes). *)
From Coq Require Import ZArith NArith List Bool.
From PydoctorVerif Require Import Base.Sexp Base.PyExpr Gen.TablesC15 Model.StrEsc Model.Wrap Spec.PyGrammar Spec.PyLex
     Spec.PyTokenizer Model.ExprPrint Proofs.PyGrammarProofs Proofs.PyGrammarFuel Proofs.WrapProofs Proofs.StrEscProofs
     Proofs.TokenizerProofs Proofs.ExprPrintProofs Proofs.DisplayProofs Proofs.ReCallProofs.
From PydoctorVerif Require Model.DelimIR Gen.DelimCode Proofs.DelimIRProofs.
Import ListNotations.

(* Tables.prec_wf, on the precedence table as pydoctor sees it NOW (astor.op_util): for every parent context and every
   operator, when _OperatorDelimiter leaves the operator without parentheses the operator's grammar level is at least
   the level the reader is at in that context and what follows cannot be captured; under any parent that is not an
   operator every operator is parenthesised. *)
Theorem C15_prec_wf : prec_wf_b = true.
Proof. exact prec_wf. Qed.

(* Read back what was printed: for every expression tree of any depth over the modelled forms (literals, delegated
   text, names, dotted names, unary/binary/boolean operators, tuple/list/set/dict displays, subscripts, calls with
   positional/starred/keyword/double-starred arguments, starred items), printed under any parent context pc,
   the reader -- run with its own fuel, 8 * number of tokens + 8, which is proved to be enough (Proofs/PyGrammarFuel.v) --
   gives back exactly the tree (up to norm: set([...]) spelling, opaque delegated attributes) and consumes every token.
   Guards: the tree is one CPython's parser can produce (wf_source), it is not a bare Starred, and it contains no
   one-element tuple display outside a subscript index (the recorded defect, see C15_one_tuple_refuted).
   pp is what pydoctor prints whenever ExprPrint.modelled e (no call to re.compile, which has its own colouriser). *)
Theorem C15_read_print :
  forall (e : expr) (pc : pctx),
    good_pc pc -> wf_source e = true -> is_starred e = false -> no_one_tuple e = true ->
    read (pp pc e) = Some (norm e).
Proof. exact read_print. Qed.

(* the same with any larger fuel: the answer does not depend on the fuel once there is enough of it *)
Theorem C15_read_print_any_fuel :
  forall (e : expr) (pc : pctx),
    good_pc pc -> wf_source e = true -> is_starred e = false -> no_one_tuple e = true ->
    exists n, forall f, n <= f -> rd f L_test (pp pc e) = Some (norm e, []).
Proof. exact (fun e pc Hg Hw Hs Hn => read_print_ES e pc Hg Hw Hs Hn). Qed.

(* the hypotheses are satisfiable by a tree that uses every form, and on it the reader with its own fuel succeeds:
   f(a, *b, k=c, **d)[x.y, 1:2] ** -(u or v and not w) - (p - q) * {m: [n, (o, r), {s}], **t}  *)
Definition nm (c : N) : expr := EName [c].
Definition c15_sample : expr :=
  EBin Sub
       (EBin Pow
             (ESub (ECall (nm 102) [nm 97; EStarred (nm 98)] [(Some [107%N], nm 99); (None, nm 100)])
                   (ETuple [EAttr (nm 120) [121%N] [120%N; 46%N; 121%N]; ELeaf (LGen [49%N; 58%N; 50%N])]))
             (EUn USub (EBool Or [nm 117; EBool And [nm 118; EUn UNot (nm 119)]])))
       (EBin Mult (EBin Sub (nm 112) (nm 113))
             (EDict [(Some (nm 109), EList [nm 110; ETuple [nm 111; nm 114]; ESet [nm 115]]); (None, nm 116)])).

Example C15_read_print_nonvacuous :
  good_pc PNone /\ wf_source c15_sample = true /\ is_starred c15_sample = false /\ no_one_tuple c15_sample = true /\
  modelled c15_sample = true /\ read (pp PNone c15_sample) = Some (norm c15_sample).
Proof. vm_compute. repeat split. Qed.

(* Genuine defect on the unchanged tree (known_findings/C15.json: C15-one-tuple): the AST tuple (b,) is printed
   as the tokens ( b ), which read back as the name b: tuple-ness is lost. *)
Theorem C15_one_tuple_refuted :
  exists e : expr,
    wf_source e = true /\ is_starred e = false /\ modelled e = true /\
    read (pp PNone e) = Some (EName [98%N]) /\ norm e = ETuple [EName [98%N]].
Proof. exists (ETuple [EName [98%N]]). vm_compute. repeat split. Qed.

(* The symbols the colouriser writes for the operators (read from the if/elif chains of _colorize_ast_unary_op /
   _binary_op / _bool_op into Gen/TablesC15.v) are Python's spelling (Spec/PyLex.tok_text) of the token that pp prints
   for the same operator: `not` with a space after it, `and` / `or` between spaces, the others bare. *)
Theorem C15_operator_spelling :
  (forall b : binop, spelled (btok b) [] [] (bop_text b)) /\
  (forall u : unop, spelled (utok u) [] (match u with UNot => [32%N] | _ => [] end) (uop_text u)) /\
  (forall o : boolop, spelled (otok o) [32%N] [32%N] (boolop_text o)).
Proof. exact operator_spelling. Qed.

(* _str_escape: for EVERY string of code points -- quotes, backslashes, control characters, NUL, non-ASCII and lone
   surrogates (the backslashreplace branch) included -- the text between single quotes, read as a Python string
   literal (Spec/PyLex.read_sq), is the string.  Uses the escape table regenerated from the source. *)
Theorem C15_str_escape_roundtrip :
  forall s : text, read_sq (39%N :: str_escape s ++ [39%N]) = Some s.
Proof. exact str_escape_roundtrip. Qed.

Example C15_str_escape_roundtrip_nonvacuous :
  let s := [105; 116; 39; 115; 92; 10; 9; 0; 233; 55296; 128512]%N in
  str_escape s = [105; 116; 92; 39; 115; 92; 92; 92; 110; 92; 116; 92; 120; 48; 48; 233; 92; 117; 100; 56; 48; 48; 128512]%N.
Proof. vm_compute. reflexivity. Qed.

(* _bytes_escape: for EVERY byte string, b + quote + escaped + quote read as a Python bytes literal (Spec/PyLex.read_bq)
   is the byte string -- whichever quote repr() chose. *)
Theorem C15_bytes_escape_roundtrip :
  forall b : text, forallb (fun c => N.ltb c 256) b = true ->
                   read_bq (98%N :: 39%N :: bytes_escape b ++ [39%N]) = Some b.
Proof. exact bytes_escape_roundtrip. Qed.

Example C15_bytes_escape_roundtrip_nonvacuous :
  let b := [105; 116; 39; 115; 0; 255; 10; 92]%N in
  forallb (fun c => N.ltb c 256) b = true /\
  bytes_escape b = [105; 116; 92; 39; 115; 92; 120; 48; 48; 92; 120; 102; 102; 92; 110; 92; 92]%N.
Proof. vm_compute. split; reflexivity. Qed.

(* with a lone surrogate present every surrogate is shown as \udXXX and nothing else changes *)
Theorem C15_str_escape_surrogates :
  forall s : text, existsb is_surrogate (flat_map enc s) = true ->
                   str_escape s = flat_map (fun c => flat_map backslashreplace1 (enc c)) s.
Proof. exact str_escape_surrogates. Qed.

(* Repaired defects (known_findings/C15.json "fixed"), as witnesses over the kept old definitions:
   e76b12d: a NUL cannot be written raw in Python source, and _str_escape used to leave it raw;
   69ea9c3: _bytes_escape = repr(b)[2:-1] used to leave the quote unescaped when repr chose double quotes. *)
Theorem C15_str_escape_nul_old_refuted :
  exists s : text, read_sq (39%N :: str_escape_old s ++ [39%N]) <> Some s /\ read_sq (39%N :: str_escape s ++ [39%N]) = Some s.
Proof. exists [0%N]. vm_compute. split; [discriminate|reflexivity]. Qed.

Theorem C15_bytes_quote_old_refuted :
  exists b : text, b = [105; 116; 39; 115]%N /\ bytes_escape_old b = b /\
                   read_bq (98%N :: 39%N :: bytes_escape_old b ++ [39%N]) = None /\
                   read_bq (98%N :: 39%N :: bytes_escape b ++ [39%N]) = Some b.
Proof. exists [105; 116; 39; 115]%N. vm_compute. repeat split. Qed.

(* _output: for every text, tag, state and setting (any linelen, maxlines, charpos -- also beyond linelen --, linebreakok)
   the call only appends nodes; if it returns, deleting the LINEWRAP markers and the newline node after each gives back
   exactly the text; if it raises _Maxlines/_Linebreak what was appended is, read the same way, a prefix of the text;
   the fuel of the model never runs out. *)
Theorem C15_wrap_conserves :
  forall (p : params) (t : text) (k : nkind) (s : st),
    plain_kind k = true ->
    exists added, Wrap.res (fst (output p t k s)) = Wrap.res s ++ added /\
                  match snd (output p t k s) with
                  | None => unwrap added = t
                  | Some OutOfFuel => False
                  | Some _ => exists tl, t = unwrap added ++ tl
                  end.
Proof. exact output_conserves. Qed.

Example C15_wrap_conserves_nonvacuous :
  let p := Params 3 0 true in
  let o := output p [97; 98; 99; 100; 101; 102; 103; 104]%N NText (St [] 2 1 true) in
  snd o = None /\
  Wrap.res (fst o) = [Nd NText [97%N]; LINEWRAP; NEWLINE; Nd NText [98; 99; 100]%N; LINEWRAP; NEWLINE;
                 Nd NText [101; 102; 103]%N; LINEWRAP; NEWLINE; Nd NText [104%N]].
Proof. vm_compute. split; reflexivity. Qed.

(* colorize: for every tree of output calls and every setting, either the run ended normally -- is_complete is True
   and the result is everything that was emitted -- or it was cut by _Maxlines/_Linebreak -- is_complete is False and
   the result ENDS with the ellipsis marker (after a newline when line breaks are allowed).  Never a cut result
   without the marker, never the marker with is_complete True. *)
Theorem C15_truncation_marked :
  forall (p : params) (c : cmd),
    (c_complete (colorize p c) = true /\
     exists s, exec p 0 c (init_st p) = (s, None) /\ c_nodes (colorize p c) = Wrap.res s) \/
    (c_complete (colorize p c) = false /\
     (exists s e, exec p 0 c (init_st p) = (s, Some e)) /\
     exists ns, c_nodes (colorize p c) = ns ++ [ELLIPSIS] /\
                (lbparam p = true -> exists s e, exec p 0 c (init_st p) = (s, Some e) /\ ns = Wrap.res s ++ [NEWLINE])).
Proof. exact truncation_marked. Qed.

Example C15_truncation_marked_nonvacuous :
  let c := compile PNone (EList [nm 97; nm 98; nm 99]) in
  c_complete (colorize (Params 2 2 true) c) = false /\
  c_complete (colorize (Params 0 0 true) c) = true /\
  nodes_text (c_nodes (colorize (Params 0 0 true) c)) = [91; 97; 44; 32; 98; 44; 32; 99; 93]%N.
Proof. vm_compute. repeat split. Qed.

(* colorize_inline_pyval (linelen None, linebreakok False; any maxlines): an expression whose names, numbers and
   delegated texts contain no newline is never cut, and the text shown is exactly the flat text of its output calls. *)
Theorem C15_inline_complete :
  forall (e : expr) (pc : pctx) (ml : N),
    simple_expr e = true ->
    c_complete (colorize (Params 0 ml false) (compile pc e)) = true /\
    c_fuel_ok (colorize (Params 0 ml false) (compile pc e)) = true /\
    nodes_text (c_nodes (colorize (Params 0 ml false) (compile pc e))) = flat (compile pc e).
Proof. exact inline_expr_complete. Qed.

Example C15_inline_complete_nonvacuous :
  simple_expr c15_sample = true /\ c_complete (colorize (Params 0 1 false) (compile PNone c15_sample)) = true.
Proof. vm_compute. split; reflexivity. Qed.

(* The repaired defect (fix: commit ae14ef1, known_findings/C15.json "fixed"): 1-(2-3).  The right operand keeps its
   parentheses now; without them the same tokens read back as (1-2)-3. *)
Definition k_num (c : N) : expr := ELeaf (LConst (KNum [c])).
Example C15_right_operand_fixed :
  let e := EBin Sub (k_num 49) (EBin Sub (k_num 50) (k_num 51)) in
  pp PNone e = [TLeaf (LConst (KNum [49%N])); TOp OMinus; TLP; TLeaf (LConst (KNum [50%N])); TOp OMinus;
                TLeaf (LConst (KNum [51%N])); TRP] /\
  read (pp PNone e) = Some e /\
  read [TLeaf (LConst (KNum [49%N])); TOp OMinus; TLeaf (LConst (KNum [50%N])); TOp OMinus; TLeaf (LConst (KNum [51%N]))]
  = Some (EBin Sub (EBin Sub (k_num 49) (k_num 50)) (k_num 51)).
Proof. vm_compute. repeat split. Qed.

(* ---------------------------------------------------------------------------------------------------------------
   From the displayed TEXT back to the tree.  Spec/PyTokenizer.v is a lexer written from the language reference
   (whitespace, names and keywords, numbers, single- and triple-quoted str/bytes literals decoded to their value,
   operators by maximal munch); parse_text = tokenize, then the expression reader of Spec/PyGrammar.v.
   Guard lexable: names are identifiers that are not keywords, numbers have the shape str() gives them, bytes are
   bytes, and the tree contains no text delegated to astor (comparison, conditional, lambda, slice, comprehension,
   f-string, attribute of a non-name: opaque, covered by the ast.parse oracle only). *)

(* When colorize says is_complete -- any linelen, maxlines, linebreakok, any tree of output calls without marker kinds --
   what it emitted, with the LINEWRAP markers and the newline after each removed, is one of the layouts of the tree:
   every output call's text once and in order, a comma followed by a space or by a newline and an indentation, a
   string on one line in single quotes or in triple quotes with raw newlines, parentheses around what
   _OperatorDelimiter wrapped. *)
Theorem C15_complete_layout :
  forall (p : params) (c : cmd),
    plain_cmd c = true -> c_complete (colorize p c) = true -> flatP c (unwrap (c_nodes (colorize p c))).
Proof. exact complete_layout. Qed.

(* Every layout text of an expression is lexed into exactly the tokens pp prints: the separators the colouriser
   writes (' and ', ' or ', 'not ', ', ', ': ', no space around binary and unary operators, '=' and '**' in calls)
   never merge or split tokens: a--b, a-+b, a**-b, a<<b, a* *b cannot arise, not not a keeps its spaces. *)
Theorem C15_display_tokens :
  forall (e : expr) (pc : pctx) (t : text),
    lexable e = true -> wf_source e = true -> is_starred e = false -> no_one_tuple e = true ->
    flatP (compile pc e) t -> tokenize t = Some (pp pc e).
Proof. exact layout_tokens. Qed.

(* C15_read_print as a statement about the displayed text (the text of colorize_inline_pyval, and of any run
   without limits): parsed as Python it is the source tree, up to the documented spellings. *)
Theorem C15_display_parses :
  forall (e : expr) (pc : pctx),
    good_pc pc -> lexable e = true -> wf_source e = true -> is_starred e = false -> no_one_tuple e = true ->
    parse_text (flat (compile pc e)) = Some (norm e).
Proof. exact display_parses. Qed.

(* ... and for every linelen / maxlines / linebreakok setting: whenever is_complete is true, removing the LINEWRAP
   markers and the newlines that follow them from what is shown and parsing it gives the source tree. *)
Theorem C15_wrapped_display_parses :
  forall (e : expr) (pc : pctx) (p : params),
    good_pc pc -> lexable e = true -> wf_source e = true -> is_starred e = false -> no_one_tuple e = true ->
    c_complete (colorize p (compile pc e)) = true ->
    parse_text (unwrap (c_nodes (colorize p (compile pc e)))) = Some (norm e).
Proof. exact wrapped_display_parses. Qed.

(* f(a, *b, k=c, **d)[x.y, 10] ** -(u or v and not w) - 'it''s' + '\n' * {m: [n, (o, r), {s}], **t, 1.5e-07j: b'\xff'} *)
Definition c15_text_sample : expr :=
  EBin Sub
       (EBin Pow
             (ESub (ECall (nm 102) [nm 97; EStarred (nm 98)] [(Some [107%N], nm 99); (None, nm 100)])
                   (ETuple [EAttr (nm 120) [121%N] []; ELeaf (LConst (KNum [49%N; 48%N]))]))
             (EUn USub (EBool Or [nm 117; EBool And [nm 118; EUn UNot (nm 119)]])))
       (EBin Mult (ELeaf (LConst (KStr [105; 116; 39; 115; 10]%N)))
             (EDict [(Some (nm 109), EList [nm 110; ETuple [nm 111; nm 114]; ESet [nm 115]]); (None, nm 116);
                     (Some (ELeaf (LConst (KNum [49; 46; 53; 101; 45; 48; 55; 106]%N))), ELeaf (LConst (KBytes [255%N])))])).

Example C15_display_parses_nonvacuous :
  lexable c15_text_sample = true /\ wf_source c15_text_sample = true /\ no_one_tuple c15_text_sample = true /\
  parse_text (flat (compile PNone c15_text_sample)) = Some (norm c15_text_sample) /\
  (* wrapped at 7 characters, line breaks allowed: complete, contains markers and a triple-quoted string, still parses *)
  c_complete (colorize (Params 7 0 true) (compile PNone c15_text_sample)) = true /\
  existsb is_linewrap (c_nodes (colorize (Params 7 0 true) (compile PNone c15_text_sample))) = true /\
  parse_text (unwrap (c_nodes (colorize (Params 7 0 true) (compile PNone c15_text_sample)))) = Some (norm c15_text_sample).
Proof. vm_compute. repeat split. Qed.

(* ---------------------------------------------------------------------------------------------------------------
   Calls to re.compile (PyvalColorizer._colorize_ast_re), at the envelope level: Model/ExprPrint.re_cmd.  The regex
   colouriser proper (sre_parse36.parse and _colorize_re_tree) is an oracle: its sequence of _output calls, or "raised". *)

(* It falls back to the ordinary display of the call exactly in these cases: the arguments do not bind to
   (pattern, flags=0), the bound pattern is not a str/bytes constant, or the regex colouriser raised. *)
Theorem C15_re_fallback :
  forall oracle f args kws,
    (bind_re args kws = None \/
     (exists pat flags, bind_re args kws = Some (pat, flags) /\ str_pattern pat = None) \/
     (exists pat flags b s, bind_re args kws = Some (pat, flags) /\ str_pattern pat = Some (b, s) /\ has_nl s = false
                            /\ oracle = ReRaised)) ->
    re_cmd oracle f args kws = generic_call f args kws.
Proof. exact re_fallback. Qed.

(* Otherwise the text is  re.compile( pattern [, flags] ) : the pattern as an ordinary string literal when it contains a
   newline, else what the regex colouriser wrote; the flags argument printed like any other argument. *)
Theorem C15_re_envelope_text :
  forall oracle f args kws pat flags isb raw,
    bind_re args kws = Some (pat, flags) -> str_pattern pat = Some (isb, raw) ->
    (has_nl raw = true \/ exists ps, oracle = RePieces ps) ->
    flat (re_cmd oracle f args kws) =
    [114; 101; 46; 99; 111; 109; 112; 105; 108; 101; 40]%N
      ++ (if has_nl raw then flat (CStr isb raw) else match oracle with RePieces ps => pieces_text ps | ReRaised => [] end)
      ++ match flags with Some fl => [44; 32]%N ++ flat (compile (POther None) fl) | None => [] end
      ++ [41%N].
Proof. exact re_envelope_text. Qed.

(* Genuine defect on the unchanged tree (known_findings/C15.json: C15-re-compile-unpack-dropped): nothing else is shown,
   so a ** argument of a call that binds disappears: re.compile('a', **kw) is displayed  re.compile(r'a') . *)
Definition re_compile_name : expr := EAttr (EName [114; 101]%N) [99; 111; 109; 112; 105; 108; 101]%N [].
Theorem C15_re_unpack_dropped_refuted :
  exists args kws oracle,
    kws = [(None, nm 107)] /\ args = [ELeaf (LConst (KStr [97%N]))] /\
    oracle = RePieces [([114%N], NText); ([39%N], NQuote); ([97%N], NText); ([39%N], NQuote)] /\
    is_re_compile re_compile_name = true /\
    flat (re_cmd oracle re_compile_name args kws) = [114; 101; 46; 99; 111; 109; 112; 105; 108; 101; 40; 114; 39; 97; 39; 41]%N /\
    flat (generic_call re_compile_name args kws)
    = [114; 101; 46; 99; 111; 109; 112; 105; 108; 101; 40; 39; 97; 39; 44; 32; 42; 42; 107; 41]%N.
Proof. do 3 eexists. vm_compute. repeat split. Qed.

(* ---------------------------------------------------------------------------------------------------------------
   The tie to the SOURCE of the parenthesis decision.  Gen/DelimCode.v is regenerated on every run by
   harness/gen/gen_c15_code.py from the current text of _OperatorDelimiter.__init__ (and of every pydoctor function or
   method it calls, inlined), statement by statement, into the small language of Model/DelimIR.v.  Interpreting THAT code,
   for every operator `o` of the node and every situation (no parent; a parent that is not an expression; operand of a
   unary operator; left or right operand of each binary operator; value of a boolean operator; child of any other
   expression / keyword / comprehension, with or without an explicit precedence p), leaves self.discard equal to the
   negation of the hand-written decision needs_paren the theorems above are about; __exit__ (pinned by the translator)
   adds the parentheses exactly when `not self.discard`. *)
Theorem C15_code_init_is_model :
  forall (o : opk) (sit : DelimIR.situation),
    DelimIR.init_discard o sit DelimCode.delim_init_code = Some (negb (needs_paren (DelimIR.pctx_of sit) o)).
Proof. exact DelimIRProofs.init_is_model. Qed.

(* The dispatch of _colorize_ast (observed on the live code for one node of every class): the model wraps the output
   calls of a node in the delimiter exactly for the classes for which the code constructs _OperatorDelimiter(self, state,
   node) -- unary, binary and boolean operators -- and then with that decision. *)
Theorem C15_code_dispatch_is_model :
  forall (pc : pctx) (e : expr),
    DelimIR.is_delim (compile pc e) = DelimCode.code_delimited (DelimIR.nodecls_of e)
    /\ (forall u x, e = EUn u x -> exists c, compile pc e = CDelim (needs_paren pc (OU u)) c)
    /\ (forall b l r, e = EBin b l r -> exists c, compile pc e = CDelim (needs_paren pc (OB b)) c)
    /\ (forall o es, e = EBool o es -> exists c, compile pc e = CDelim (needs_paren pc (OO o)) c).
Proof. exact DelimIRProofs.dispatch_is_model. Qed.
