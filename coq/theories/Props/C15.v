(* Props/C15.v -- C15: a displayed value or expression means the same as the source expression.
   Only statements closed by `exact`; proofs live in Proofs/ExprPrintProofs.v, Proofs/WrapProofs.v, Proofs/StrEscProofs.v.
   Model: Model/ExprPrint.v (AST side of PyvalColorizer, the parenthesis decision of _OperatorDelimiter),
          Model/Wrap.v (_output, wrapping, truncation), Model/StrEsc.v; tables: Gen/TablesC15.v (regenerated from /repo).
   Spec:  Spec/PyGrammar.v (a reader for the displayed tokens written from the language reference; norm = the
          documented spelling changes). *)
From Coq Require Import ZArith NArith List Bool.
From PydoctorVerif Require Import Base.Sexp Base.PyExpr Gen.TablesC15 Model.StrEsc Model.Wrap Spec.PyGrammar
     Model.ExprPrint Proofs.PyGrammarProofs Proofs.ExprPrintProofs.
Import ListNotations.

(* Tables.prec_wf, on the precedence table as pydoctor sees it NOW (astor.op_util): for every parent context and every
   operator, when _OperatorDelimiter leaves the operator without parentheses the operator's grammar level is at least
   the level the reader is at in that context and what follows cannot be captured; under any parent that is not an
   operator every operator is parenthesised. *)
Theorem C15_prec_wf : prec_wf_b = true.
Proof. exact prec_wf. Qed.

(* Read back what was printed: for every expression tree of any depth over the modelled forms (literals, delegated
   text, names, dotted names, unary/binary/boolean operators, tuple/list/set/dict displays, subscripts, calls with
   positional/starred/keyword/double-starred arguments, starred items), printed under any parent context pc,
   the reader gives back exactly the tree (up to norm: set([...]) spelling, opaque delegated attributes) and consumes
   every token -- once the fuel is at least some n (the reader never returns a different tree).
   Guards: the tree is one CPython's parser can produce (wf_source), it is not a bare Starred, and it contains no
   one-element tuple display outside a subscript index (the recorded defect, see C15_one_tuple_refuted).
   pp is what pydoctor prints whenever ExprPrint.modelled e (no call to re.compile, which has its own colouriser). *)
Theorem C15_read_print :
  forall (e : expr) (pc : pctx),
    good_pc pc -> wf_source e = true -> is_starred e = false -> no_one_tuple e = true ->
    exists n, forall f, n <= f -> rd f L_test (pp pc e) = Some (norm e, []).
Proof. exact (fun e pc Hg Hw Hs Hn => read_print_ES e pc Hg Hw Hs Hn). Qed.

(* the hypotheses are satisfiable by a tree that uses every form, and on it the reader with its own fuel succeeds:
   f(a, *b, k=c, **d)[x.y, 1:2] ** -(u or v and not w) - (p - q) * {m: [n, (o, r), {s}], **t}  *)
Definition nm (c : N) : expr := EName [c].
Definition c15_sample : expr :=
  EBin Sub
       (EBin Pow
             (ESub (ECall (nm 102) [nm 97; EStarred (nm 98)] [(Some [107%N], nm 99); (None, nm 100)])
                   (ETuple [EAttr (nm 120) [121%N] [120%N; 46%N; 121%N]; ELeaf (LGen [49%N; 58%N; 50%N])]))
             (EUn USub (EBool Or [nm 117; EBool And [nm 118; EUn UNot (nm 119)]])))
       (EBin Mult (EBin Sub (nm 112) (nm 113))
             (EDict [(Some (nm 109), EList [nm 110; ETuple [nm 111; nm 114]; ESet [nm 115]]); (None, nm 116)])).

Example C15_read_print_nonvacuous :
  good_pc PNone /\ wf_source c15_sample = true /\ is_starred c15_sample = false /\ no_one_tuple c15_sample = true /\
  modelled c15_sample = true /\ read (pp PNone c15_sample) = Some (norm c15_sample).
Proof. vm_compute. repeat split. Qed.

(* Genuine defect on the unchanged tree (known_findings/C15.json: C15-one-tuple): the AST tuple (b,) is printed
   as the tokens ( b ), which read back as the name b: tuple-ness is lost. *)
Theorem C15_one_tuple_refuted :
  exists e : expr,
    wf_source e = true /\ is_starred e = false /\ modelled e = true /\
    read (pp PNone e) = Some (EName [98%N]) /\ norm e = ETuple [EName [98%N]].
Proof. exists (ETuple [EName [98%N]]). vm_compute. repeat split. Qed.
