(* Props/C18.v -- C18: equal inputs give byte-identical output.

   What is proved, for ALL projects / permutations / histories, over Model/Determinism.v (which interprets the
   sort-key tuples, enum tables, suffix lists and build-time sources REGENERATED from /repo into Gen/TablesC18.v):
     * the order in which modules are created does not depend on how directories are listed  (C18_fs_order_free)
     * sorted() over a set with the keys pydoctor uses there is a function of the set; every sorted() is a
       permutation, ascending, ties in input order                                           (C18_sort_keys_total)
     * every remaining use of System.root_names, the project name, the root-kind list: independent of the
       iteration order of the sets                                    (C18_set_order_free, C18_run_deterministic)
       -- the guess as it was before commit 17874d0 is refuted         (C18_set_order_old_refuted / _partial)
     * ids handed out by the class-level counters are a function of the position in the rendering sequence of
       ONE process                              (C18_counters_run_local; a second in-process run: _refuted)
     * with SOURCE_DATE_EPOCH or --buildtime the time stamp is not the clock's             (C18_buildtime_fixed)
     * writing over the result of the same run gives the same directory                   (C18_overwrite_complete,
                                                                C18_rerun_same_output, C18_static_writes_commute)
     * the template lookup does not depend on how the template directory is listed        (C18_template_listing_free;
       the unsorted loader before 16ec2bc is refuted: C18_template_listing_old_refuted / _old_partial)
     * tables regenerated on every run: every set / root_names / directory-listing occurrence in pydoctor's source is
       consumed in an order-free context (order_sources_checked), every writing open() truncates and the symlink is
       unlinked first (write_discipline_checked), no clock read reaches the output except the default build time
       (clock_checked), _lckey contains the full name and enum names are distinct (key_tables_checked)
   What is NOT proved (residual, only observed by the byte-for-byte differential of harness/c18.py): that twisted's
   flattening, lunr, json.dumps, zlib and docutils are deterministic functions of the sequences they are given;
   that no order source exists outside the syntactic classes the translator recognises (e.g. a dict keyed by id());
   that the extension load order (an unsorted listing of pydoctor's own package) is immaterial. *)
From Coq Require Import ZArith NArith List Bool Sorting.Permutation.
From PydoctorVerif Require Import Base.Sexp Model.DetTypes Gen.TablesC18 Model.Determinism Spec.SortSpec
     Proofs.DeterminismProofs Model.DiscoveryIR Gen.DiscoveryCode Proofs.DiscoveryIRProofs.
Import ListNotations.

(* ------------------------------------------------------------------ obligations on the regenerated tables *)
(* listings of pydoctor's OWN installed package (not of the project) that are iterated unsorted; reviewed by hand:
   they produce the extension load order and two argparse `choices` lists. They are exercised by the differential
   (the harness shuffles every listing) and named here so that any NEW unsorted iteration breaks the lemma. *)
Definition reviewed_funcs : list N :=
  [fn_importlib_resources_contents; fn_get_themes; fn_get_supported_docformats].
Definition reviewed (s : site) : bool :=
  match s_src s, s_ctx s with
  | SrcListing, CtxIterate => existsb (N.eqb (s_func s)) reviewed_funcs
  | _, _ => false
  end.
Definition is_listing (s : site) : bool := match s_src s with SrcListing => true | _ => false end.

Lemma order_sources_checked :
  forallb (fun s => order_free s || reviewed s) sources = true /\
  forallb order_free (filter (fun s => negb (is_listing s)) sources) = true.
Proof. vm_compute. split; reflexivity. Qed.

Lemma key_tables_checked :
  def_has_fullname lckey_def = true /\
  distinct_texts (map snd kind_table) = true /\
  existsb (Z.eqb kind_package) (map fst kind_table) = true /\
  existsb (Z.eqb kind_module) (map fst kind_table) = true /\
  page_counters = 2%N.
Proof. vm_compute. repeat split; reflexivity. Qed.

(* the premise of C18_overwrite_complete, read off the source: every open() of pydoctor that creates or modifies a
   file uses a truncating mode ('w' / 'wb'), the compat symlink is unlinked (if present) then created again, and
   _writeDocsFor removes a symbolic link found at a page's name before it opens the page (WritePage) *)
Lemma write_discipline_checked :
  forallb (fun p => truncating (snd p)) write_modes = true /\ relink_is_unlink_then_symlink = true /\
  page_write_unlinks_symlink = true.
Proof. vm_compute. repeat split; reflexivity. Qed.

Theorem C18_order_sources_free :
  forall s, In s sources ->
    order_free s = true \/ (s_src s = SrcListing /\ s_ctx s = CtxIterate /\ In (s_func s) reviewed_funcs).
Proof.
  intros s Hin. destruct order_sources_checked as [H _]. rewrite forallb_forall in H.
  specialize (H s Hin). apply orb_true_iff in H as [H|H]; [left; exact H|right].
  unfold reviewed in H. destruct (s_src s); try discriminate. destruct (s_ctx s); try discriminate.
  split; [reflexivity|]. split; [reflexivity|].
  apply existsb_exists in H as [x [Hx E]]. apply N.eqb_eq in E. subst x. exact Hx.
Qed.

(* ------------------------------------------------------------------ build time *)
Lemma clock_checked :
  forallb (fun p => clock_harmless (snd p)) clock_reads = true /\
  existsb (bt_source_eqb BEnvEpoch) buildtime_sources = true /\ existsb (bt_source_eqb BOption) buildtime_sources = true.
Proof. vm_compute. repeat split; reflexivity. Qed.

(* with SOURCE_DATE_EPOCH or --buildtime the time stamp of the pages does not depend on the clock; the option wins *)
Theorem C18_buildtime_fixed :
  forall env opt now1 now2, (env <> None \/ opt <> None) ->
    buildtime env opt now1 = buildtime env opt now2 /\
    (forall t, opt = Some t -> buildtime env opt now1 = t).
Proof.
  intros env opt now1 now2 H. vm_compute.
  destruct opt as [t|]; [split; [reflexivity|intros t' E; inversion E; reflexivity]|].
  destruct env as [e|]; [split; [reflexivity|intros t' E; discriminate]|].
  destruct H as [H|H]; contradiction.
Qed.

Theorem C18_buildtime_unset_refuted : exists now1 now2, buildtime None None now1 <> buildtime None None now2.
Proof. exists 1%Z, 2%Z. vm_compute. discriminate. Qed.

(* ------------------------------------------------------------------ directory listing order *)
(* addPackage sees sort(pi listing): module creation order (hence unprocessed_modules, allobjects, rootobjects)
   is the same for any two ways the file system may list each directory. *)
Theorem C18_fs_order_free :
  forall (pi1 pi2 : listing), perm_oracle pi1 -> perm_oracle pi2 ->
  forall fuel roots, (forall r, In r roots -> fs_wf (snd r)) ->
    add_roots pi1 fuel [] roots = add_roots pi2 fuel [] roots /\
    reg_of_events (add_roots pi1 fuel [] roots) = reg_of_events (add_roots pi2 fuel [] roots).
Proof.
  intros pi1 pi2 H1 H2 fuel roots Hwf.
  pose proof (add_roots_order_free pi1 pi2 H1 H2 fuel roots [] Hwf) as E. split; [exact E|rewrite E; reflexivity].
Qed.

(* the registry as it was before 3d2c96f / f6d4b31 (reg_add_old) kept a replaced root package in rootobjects and its
   sub-modules in unprocessed_modules; the repaired one does not (two roots p, the second replaces the first) *)
Example C18_replaced_package_registry :
  let evs := [EvModule [] [112%N] true; EvModule [[112%N]] [97%N] false; EvModule [] [112%N] true] in
  let r := reg_of_events evs in
  let r_old := fold_left (fun r e => match e with EvModule p n k => reg_add_old r p n k | _ => r end) evs (mkReg [] [] [] 0%N) in
  r_roots r = [[112%N]] /\ map m_path (r_unproc r) = [[[112%N]]] /\
  r_roots r_old = [[112%N]; [112%N]] /\ map m_path (r_unproc r_old) = [[[112%N]; [97%N]]; [[112%N]]].
Proof. vm_compute. repeat split; reflexivity. Qed.

(* ... and the fuel of the model never runs out when it is at least the depth of the tree *)
Theorem C18_fs_fuel_enough :
  forall (pi : listing), perm_oracle pi -> forall fuel parent name es,
    (fs_depth (FDir name es) <= fuel)%nat -> ~ In EvOutOfFuel (add_package pi fuel parent name es).
Proof. exact add_package_fuel. Qed.

(* ------------------------------------------------------------------ the tie to the source of the discovery code
   Gen/DiscoveryCode.v holds the bodies of System.addPackage / addModuleFromPath / _addUnprocessedModule /
   _handleDuplicateModule, translated statement by statement from the CURRENT pydoctor/model.py into the languages of
   Model/DiscoveryIR.v (whose interpreter states the meaning of the primitives).  Interpreting THAT code is the model the
   theorems above are about: for every listing oracle, tree, fuel, registry state and module. *)
Theorem C18_code_add_module_from_path_is_model :
  forall (pi : listing) parent name,
    add_module_ir discovery_code pi parent name = add_module_from_path parent name.
Proof. exact add_module_ir_eq. Qed.

Theorem C18_code_add_package_is_model :
  forall (pi : listing) fuel parent name entries,
    add_package_ir discovery_code pi fuel parent name entries = add_package pi fuel parent name entries.
Proof. exact add_package_ir_eq. Qed.

Theorem C18_code_add_roots_is_model :
  forall (pi : listing) fuel roots added,
    add_roots_ir discovery_code pi fuel added roots = add_roots pi fuel added roots.
Proof. exact add_roots_ir_eq. Qed.

(* _addUnprocessedModule + _handleDuplicateModule (three-way rule, last-wins branch as repaired by a9f163d / 3d2c96f /
   f6d4b31): never an assertion failure / ValueError, and the registry of the model *)
Theorem C18_code_registry_is_model :
  (forall r parent name is_pkg, reg_add_ir registry_code r parent name is_pkg = Some (reg_add r parent name is_pkg)) /\
  (forall evs, reg_of_events_ir registry_code evs = Some (reg_of_events evs)).
Proof. split; [exact reg_add_ir_eq|exact reg_of_events_ir_eq]. Qed.

(* hence C18_fs_order_free, stated on the translated code *)
Theorem C18_code_fs_order_free :
  forall (pi1 pi2 : listing), perm_oracle pi1 -> perm_oracle pi2 ->
  forall fuel roots, (forall r, In r roots -> fs_wf (snd r)) ->
    add_roots_ir discovery_code pi1 fuel [] roots = add_roots_ir discovery_code pi2 fuel [] roots /\
    reg_of_events_ir registry_code (add_roots_ir discovery_code pi1 fuel [] roots) =
    reg_of_events_ir registry_code (add_roots_ir discovery_code pi2 fuel [] roots).
Proof.
  intros pi1 pi2 H1 H2 fuel roots Hwf. rewrite !add_roots_ir_eq.
  pose proof (add_roots_order_free pi1 pi2 H1 H2 fuel roots [] Hwf) as E. split; [exact E|rewrite E; reflexivity].
Qed.

(* ------------------------------------------------------------------ sort keys *)
Theorem C18_sort_keys_total : forall lower : text -> text,
  (* sets of objects sorted with _lckey (as regenerated): a function of the set *)
  (forall (pi1 pi2 : list obj -> list obj), perm_oracle pi1 -> perm_oracle pi2 ->
     forall objs, NoDup (map o_full objs) ->
       sort_by (lckey lower) (pi1 objs) = sort_by (lckey lower) (pi2 objs)) /\
  (* every sorted(): a permutation, ascending, equal keys in INPUT order -- in particular for
     objects_order("alphabetical"/"source"), whose inputs are dict values / lists in insertion order *)
  (forall source l, stable_sort_of (objects_order lower source) l (sort_by (objects_order lower source) l)) /\
  (* a set sorted under ANY key that is injective on it is a function of the set *)
  (forall (A : Type) (key : A -> list Z) l1 l2,
     Permutation l1 l2 -> key_inj_on key l1 -> sort_by key l1 = sort_by key l2).
Proof.
  intros lower. destruct key_tables_checked as [Hl _]. split; [|split].
  - intros pi1 pi2 H1 H2 objs Hn. apply (sorted_set_by_fullname_key lower lckey_def Hl); assumption.
  - intros source l. apply sort_by_meets_spec.
  - intros A key l1 l2. apply sort_perm_invariant.
Qed.

(* why order_free rejects alphabetical_order_func on a SET: its key is not injective (names differing in case) *)
Theorem C18_order_func_on_set_refuted :
  exists (objs : list obj) (pi1 pi2 : list obj -> list obj),
    perm_oracle pi1 /\ perm_oracle pi2 /\ NoDup (map o_full objs) /\
    sort_by (alphabetical_key ascii_lower) (pi1 objs) <> sort_by (alphabetical_key ascii_lower) (pi2 objs).
Proof.
  exists [mkObj 2 500 [109; 46; 102]%N 1 false; mkObj 2 500 [109; 46; 70]%N 2 false],
         (fun l => l), (@rev obj).
  split; [apply perm_oracle_id|]. split; [apply perm_oracle_rev|].
  split; [repeat constructor; cbn; intuition discriminate|].
  vm_compute. discriminate.
Qed.

(* ------------------------------------------------------------------ root_names and the project name *)
Theorem C18_set_order_free :
  forall (pi1 pi2 : set_order), perm_oracle pi1 -> perm_oracle pi2 ->
  forall roots x,
    url_is_index pi1 roots x = url_is_index pi2 roots x /\
    symlink_of pi1 roots = symlink_of pi2 roots /\
    has_index_page pi1 roots = has_index_page pi2 roots /\
    is_root pi1 roots x = is_root pi2 roots x.
Proof.
  intros pi1 pi2 H1 H2 roots x.
  split; [apply url_is_index_order_free; assumption|].
  split; [apply symlink_of_order_free; assumption|].
  split; [apply has_index_page_order_free; assumption|apply is_root_order_free; assumption].
Qed.

(* everything computed before rendering -- module creation events, registry, project name (guessed from rootobjects
   in command-line order, as the code is since 17874d0), which root is index.html, the compat symlink, whether there
   is an IndexPage, the sorted root kinds -- for any listing order of any directory and any iteration order of the
   two sets *)
Theorem C18_run_deterministic :
  forall (fs1 fs2 : listing) (s1 s2 : set_order) (k1 k2 : list Z -> list Z),
    perm_oracle fs1 -> perm_oracle fs2 -> perm_oracle s1 -> perm_oracle s2 -> perm_oracle k1 -> perm_oracle k2 ->
    forall fuel opt roots, (forall r, In r roots -> fs_wf (snd r)) ->
      build_view fs1 s1 k1 fuel opt roots = build_view fs2 s2 k2 fuel opt roots.
Proof.
  destruct key_tables_checked as [_ [Hd [Hp [Hm _]]]]. exact (build_view_deterministic Hd Hp Hm).
Qed.

(* the guess as it was before 17874d0: '/'.join(system.root_names) *)
Theorem C18_set_order_old_refuted :
  exists (roots : list text) (pi1 pi2 : set_order),
    perm_oracle pi1 /\ perm_oracle pi2 /\ guess_name_old pi1 roots <> guess_name_old pi2 roots.
Proof.
  exists [[112; 107; 103]%N; [111; 116; 104; 101; 114]%N], (fun l => l), (@rev text).
  split; [apply perm_oracle_id|]. split; [apply perm_oracle_rev|]. vm_compute. discriminate.
Qed.

Theorem C18_set_order_old_partial :
  forall (pi1 pi2 : set_order), perm_oracle pi1 -> perm_oracle pi2 ->
  forall roots, length (dedup roots) = 1%nat -> guess_name_old pi1 roots = guess_name_old pi2 roots.
Proof. exact guess_name_old_single. Qed.

(* ------------------------------------------------------------------ counters *)
(* in ONE process the k-th ChildTable / ExpandableItem created gets id k+1, whatever it belongs to; the ids on a
   page are determined by how many elements were created before it *)
Theorem C18_counters_run_local :
  (forall n k, (k < n)%nat -> nth k (fst (assign_ids 0 n)) 0%N = N.of_nat (S k)) /\
  (forall last n m,
     fst (assign_ids last (n + m)) = fst (assign_ids last n) ++ fst (assign_ids (snd (assign_ids last n)) m)).
Proof.
  split.
  - intros n k Hk. rewrite assign_ids_nth by exact Hk. reflexivity.
  - exact assign_ids_split.
Qed.

(* a SECOND run inside the same interpreter continues the numbering (class attributes are never reset): the
   property quantifies over separate processes, where last = 0 *)
Theorem C18_counters_same_process_refuted :
  exists n, fst (assign_ids 0 n) <> fst (assign_ids (snd (assign_ids 0 n)) n).
Proof. exists 2%nat. vm_compute. discriminate. Qed.

(* ------------------------------------------------------------------ fresh or reused output directory *)
Theorem C18_overwrite_complete : forall ops prev,
  (forall n, In n (write_names ops) -> ~ In n (relink_names ops)) ->
  (forall n e, lookup n prev = Some e -> In n (map op_name ops)) ->
  (forall n t, lookup n prev = Some (Symlink t) -> ~ In n (write_names ops)) ->
  same_dir (apply_ops ops prev) (apply_ops ops []).
Proof. exact overwrite_complete. Qed.

Theorem C18_rerun_same_output : forall ops,
  (forall n, In n (write_names ops) -> ~ In n (relink_names ops)) ->
  same_dir (apply_ops ops (apply_ops ops [])) (apply_ops ops []).
Proof. exact rerun_same_output. Qed.

(* operations on pairwise distinct names commute: the order in which the template listing hands the static
   files to prepOutputDirectory does not matter *)
Theorem C18_static_writes_commute : forall ops1 ops2 d,
  Permutation ops1 ops2 -> NoDup (map op_name ops1) ->
  (forall n, In n (write_names ops1) -> ~ In n (relink_names ops1)) ->
  (forall n t, lookup n d = Some (Symlink t) -> ~ In n (write_names ops1)) ->
  same_dir (apply_ops ops1 d) (apply_ops ops2 d).
Proof. exact writes_commute. Qed.

(* Template.fromdir as it is since 16ec2bc (sorted by name): the template lookup -- stored names, contents and dict
   order -- is the same for every order in which the template directory is listed; no condition on letter case *)
Theorem C18_template_listing_free :
  forall (lower : text -> text) (pi1 pi2 : list tmpl -> list tmpl) files base,
    perm_oracle pi1 -> perm_oracle pi2 -> NoDup (map fst files) ->
    load_dir lower pi1 files base = load_dir lower pi2 files base.
Proof. exact load_dir_order_free. Qed.

(* before 16ec2bc (unsorted iterdir): two files of ONE --template-dir whose names differ only in case collide in the
   case-insensitive lookup (first name kept, last content wins), so which file is written, and with which bytes,
   depended on the listing order ... *)
Theorem C18_template_listing_old_refuted :
  exists (files : list tmpl) (pi1 pi2 : list tmpl -> list tmpl),
    perm_oracle pi1 /\ perm_oracle pi2 /\ NoDup (map fst files) /\
    ~ same_dir (apply_ops (static_ops (load_dir_old ascii_lower pi1 files [])) [])
               (apply_ops (static_ops (load_dir_old ascii_lower pi2 files [])) []).
Proof.
  exists [([109; 46; 99; 115; 115]%N, 1%N); ([77; 46; 99; 115; 115]%N, 2%N)], (fun l => l), (@rev tmpl).
  split; [apply perm_oracle_id|]. split; [apply perm_oracle_rev|].
  split; [repeat constructor; cbn; intuition discriminate|].
  intros H. specialize (H [109; 46; 99; 115; 115]%N). vm_compute in H. discriminate.
Qed.

(* ... and only then *)
Theorem C18_template_listing_old_partial :
  forall (lower : text -> text) (pi1 pi2 : list tmpl -> list tmpl) files base,
    perm_oracle pi1 -> perm_oracle pi2 -> NoDup (map (fun t : tmpl => lower (fst t)) files) ->
    forall k, tl_lookup k (load_dir_old lower pi1 files base) = tl_lookup k (load_dir_old lower pi2 files base).
Proof. exact load_dir_old_order_free. Qed.

(* a stale file survives: pydoctor never cleans the output directory (prev must lie inside what the run writes) *)
Theorem C18_overwrite_stale_prev_refuted :
  exists ops prev, ~ same_dir (apply_ops ops prev) (apply_ops ops []).
Proof.
  exists [Write [97%N] 1%N], [([98%N], Bytes 7%N)]. intros H. specialize (H [98%N]). vm_compute in H. discriminate.
Qed.

(* since 5e9fb91 a PAGE is not written through a symbolic link an earlier run left at its name (a single-root run
   leaves <root>.html -> index.html; a later run with several roots writes the page <root>.html) *)
Theorem C18_page_not_written_through_symlink :
  forall n c t rest, same_dir (apply_ops [WritePage n c] ((n, Symlink t) :: rest)) (apply_ops [WritePage n c] rest).
Proof.
  intros n c t rest k. cbn [apply_ops fold_left step]. unfold set_entry. cbn [lookup del].
  rewrite text_eqb_refl. reflexivity.
Qed.

(* ... before that commit the page was opened like every other file: written THROUGH the leftover link *)
Theorem C18_overwrite_symlink_prev_old_refuted :
  exists ops prev,
    (forall n e, lookup n prev = Some e -> In n (map op_name ops)) /\
    same_dir (apply_ops ops prev) (apply_ops ops []) /\
    ~ same_dir (apply_ops (old_pages ops) prev) (apply_ops (old_pages ops) []).
Proof.
  exists [WritePage [97%N] 1%N], [([97%N], Symlink [98%N])]. split; [|split].
  - intros n e Hl. cbn [lookup] in Hl. destruct (text_eqb [97%N] n) eqn:E; [|discriminate].
    apply text_eqb_eq in E. subst n. left. reflexivity.
  - apply C18_page_not_written_through_symlink.
  - intros H. specialize (H [97%N]). vm_compute in H. discriminate.
Qed.

(* ------------------------------------------------------------------ non-vacuity *)
Definition ex_pkg : fsnode :=
  FDir [112%N] [FFile [98; 46; 112; 121]%N; FFile init_py; FDir [115%N] [FFile init_py; FFile [99; 46; 112; 121]%N];
                FFile [97; 46; 112; 121]%N].
Example C18_hypotheses_satisfiable :
  perm_oracle (@rev fsnode) /\ fs_wf ex_pkg /\
  add_roots (@rev fsnode) 3 [] [(0%N, ex_pkg)] =
    [EvModule [] [112%N] true; EvModule [[112%N]] [97%N] false; EvModule [[112%N]] [98%N] false;
     EvModule [[112%N]] [115%N] true; EvModule [[112%N]; [115%N]] [99%N] false] /\
  (forall n, In n (write_names [Write [97%N] 1%N; Relink [98%N] [97%N]]) ->
             ~ In n (relink_names [Write [97%N] 1%N; Relink [98%N] [97%N]])) /\
  length (dedup [[112%N]; [112%N]]) = 1%nat.
Proof.
  split; [apply perm_oracle_rev|].
  split; [cbn; repeat split; repeat constructor; cbn; intuition discriminate|].
  split; [vm_compute; reflexivity|].
  split; [|vm_compute; reflexivity].
  intros n [<-|[]] [H|[]]. discriminate.
Qed.
