(* Props/C12.v -- C12: hidden objects leave no trace; private objects are always marked private.
   Model: Model/Site.v over the listing skeleton Gen/Listings.v (table_now, REGENERATED from /repo on every run);
   contract: Spec/SiteSpec.v; proofs: Proofs/SiteProofs.v, Proofs/SiteWitness.v.
   The privacy class of each object (System.privacyClass / Module.privacyClass, including the `__main__` rule) is an
   INPUT of the site model: what the rules mean is C13's subject. *)
From Coq Require Import NArith List Bool Arith.
From PydoctorVerif Require Import Base.Sexp Model.SiteTable Model.Site Model.SitePinned Gen.Listings
     Spec.SiteSpec Proofs.SiteProofs Proofs.SiteWitness Model.SiteIR Gen.SiteCode Proofs.SiteIRProofs.
Import ListNotations.

(* Per run, on the skeleton regenerated from /repo: every listing filters on isVisible and iterates the collection
   the model assumes; taglink drops the href of a target that is not visible; the private markers are in place
   (util.css_class, ContentItem.class_, moduleSummary, the privacy field of search documents, TableRow / FunctionChild /
   AttributeChild use css_class). *)
Lemma listings_checked : table_ok table_now = true.
Proof. vm_compute. reflexivity. Qed.
Lemma taglink_checked : t_taglink_drops_hidden table_now = true.
Proof. vm_compute. reflexivity. Qed.
Lemma markers_checked : markers_ok table_now = true.
Proof. vm_compute. reflexivity. Qed.

(* isVisible o <-> no ancestor-or-self is HIDDEN; the fuel on the parent chain never runs out on a well-founded tree *)
Theorem C12_visibility_inherits : forall r i, wf r -> valid r i ->
  (exists b, visible_f (fuel_of r) r i = Some b) /\
  (visible r i = true <-> forall a, anc_or_self r a i -> priv_of r a <> HIDDEN).
Proof. exact visibility_inherits. Qed.

(* An object that is not visible has no page, no member anchor / detail block on any page, and no entry in ANY
   listing producer: sidebar items, member tables (own, package __init__, inherited), member details, known
   subclasses, overridden-in, moduleIndex, index.html roots, classIndex, nameIndex, undoccedSummary, all-documents,
   the search corpus, objects.inv. *)
Theorem C12_hidden_no_page_anchor_row : forall quote r o depth ns, wf r -> visible r o = false ->
  ~ In o (written table_now r) /\
  (forall p, ~ In o (methods_of table_now r p)) /\
  (forall e, In e (site_entries quote table_now r depth ns) -> listing_prod (e_prod e) = true -> e_obj e <> o).
Proof.
  intros quote r o depth ns Hwf Hv. pose proof listings_checked as Ht.
  destruct (table_ok_facts table_now Ht) as [_ [_ [_ [_ [_ [_ [_ [_ [_ [_ [_ [_ [_ [_ [_ [_ [_ [H18 _]]]]]]]]]]]]]]]]]].
  split; [|split].
  - intros Hin. apply (written_iff table_now r Hwf H18) in Hin. destruct Hin as [_ [Hvis _]]. congruence.
  - intros p Hin. pose proof (methods_visible table_now r p o Ht Hin). congruence.
  - intros e Hin Hl E. subst o.
    rewrite (entries_visible quote table_now r depth ns e Hwf Ht Hin Hl) in Hv. discriminate.
Qed.

(* Before commit 989b1ee ModuleIndexPage.stuff and IndexPage.roots iterated system.rootobjects without the test:
   a HIDDEN root module got an entry in both (fixed finding C12-hidden-root-listed); with the test it has none. *)
Theorem C12_hidden_root_row_old_refuted : forall p, p = P_module_index \/ p = P_index_roots -> exists r e,
  wf r /\ In e (site_entries cquote table_before_989b1ee r 1 false) /\ e_prod e = p /\ listing_prod (e_prod e) = true /\
  priv_of r (e_obj e) = HIDDEN /\ visible r (e_obj e) = false.
Proof.
  intros p Hp. destruct (hidden_root_listed p Hp) as [e H]. exists w_hidden_root, e. split; [apply w_hidden_root_wf|exact H].
Qed.

(* No href of the site targets an object that is not visible: taglink-built links -- including the docstring cross
   references, whose resolver is an oracle that may return ANY registered object, hidden ones too -- because taglink
   now renders only the label (commit fd84d91), the others (member self-links, View In Hierarchy, url fields of all-documents and
   objects.inv) because their loops filter. *)
Theorem C12_no_link_targets_hidden : forall quote r depth ns e h, wf r ->
  In e (site_entries quote table_now r depth ns) -> link_of quote table_now r e = Some h -> visible r (e_obj e) = true.
Proof.
  intros quote r depth ns e h Hwf. exact (no_link_targets_hidden quote table_now r depth ns e h Hwf listings_checked taglink_checked).
Qed.

(* Before fd84d91 (taglink_old: log and link anyway) a visible class with a hidden base linked to the base's page. *)
Theorem C12_taglink_old_refuted : exists r e h,
  wf r /\ In e (site_entries cquote table_before_fd84d91 r 1 false) /\
  link_of cquote table_before_fd84d91 r e = Some h /\ visible r (e_obj e) = false /\
  (forall o ctx, taglink cquote table_before_fd84d91 r o ctx = taglink_old cquote r o ctx).
Proof.
  destruct taglink_old_hidden_target as [e [h [H1 [H2 [H3 _]]]]].
  exists w_hidden_base, e, h. exact (conj w_hidden_base_wf (conj H1 (conj H2 (conj H3 taglink_old_is_old)))).
Qed.

(* Every listing entry of a PRIVATE object -- member tables and member details (util.css_class), sidebar items
   (ContentItem.class_), module index (moduleSummary), search documents (privacy field) -- carries the private marker. *)
Theorem C12_private_marked : forall quote r depth ns e,
  In e (site_entries quote table_now r depth ns) -> marked_prod (e_prod e) = true ->
  priv_of r (e_obj e) = PRIVATE -> e_private e = true.
Proof. intros quote r depth ns e. exact (private_marked quote table_now r depth ns e markers_checked). Qed.

(* Module.privacyClass: a module named `__main__` is PRIVATE whatever System.privacyClass (the --privacy rules) says;
   it therefore carries the private marker in every listing producer C12 names ... *)
Theorem C12_main_module_private : forall quote r depth ns i o, get r i = Some o ->
  is_module_kind (o_kind o) = true -> o_name o = t_main ->
  priv_of r i = PRIVATE /\
  (forall e, In e (site_entries quote table_now r depth ns) -> marked_prod (e_prod e) = true -> e_obj e = i -> e_private e = true).
Proof.
  intros quote r depth ns i o Hg Hk Hn. pose proof (main_module_private r i o Hg Hk Hn) as Hp. split; [exact Hp|].
  intros e Hin Hm E. subst i. exact (private_marked quote table_now r depth ns e markers_checked Hin Hm Hp).
Qed.

(* ... even a rule that says HIDDEN is overridden (the documented deviation from C13): the module is visible, has its
   page and is listed -- marked private -- in the module index. *)
Theorem C12_main_module_rule_ignored : exists r i,
  wf r /\ (exists o, get r i = Some o /\ o_priv o = HIDDEN) /\ priv_of r i = PRIVATE /\ visible r i = true /\
  In i (written table_pinned r) /\
  existsb (fun e => Nat.eqb (e_obj e) i && N.eqb (e_prod e) P_module_index && e_private e)
          (site_entries cquote table_pinned r 1 false) = true.
Proof. exists w_main, 1. exact (conj w_main_wf main_rule_ignored). Qed.

(* ------------------------------------------------------------------ the tie to the source.
   Gen/SiteCode.v holds the bodies of Documentable.privacyClass / Module.privacyClass / isVisible / isPrivate
   (pydoctor/model.py) translated statement by statement from the CURRENT source (harness/gen/gen_c11_code.py,
   fail-closed); interpreting them (Model/SiteIR.v) IS the hand-written model, for every well-formed registry. *)
Theorem C12_code_privacy_class_is_model : forall quote r fuel i, 2 <= fuel -> valid r i ->
  run_privacy quote site_code r fuel i = Val (VPriv (priv_of r i)).
Proof. exact code_privacy_class. Qed.

Theorem C12_code_is_visible_is_model : forall quote r, wf r -> forall fuel i, i + 3 < fuel -> valid r i ->
  run_fn quote site_code r fuel FIsVisible i env0 = Val (VBool (visible r i)).
Proof. exact code_is_visible. Qed.

Theorem C12_code_is_private_is_model : forall quote r fuel i, 3 <= fuel -> valid r i ->
  run_fn quote site_code r fuel FIsPrivate i env0 = Val (VBool (is_private r i)).
Proof. exact code_is_private. Qed.

(* non-vacuity: on the example registry (a PRIVATE method, a HIDDEN method that a docstring cross-references, a PRIVATE
   module) the hidden object has no listing entry and no link (the cross reference renders as plain text), the private
   ones are listed and marked *)
Example C12_hypotheses_satisfiable :
  wf w_example /\ visible w_example 3 = false /\ priv_of w_example 2 = PRIVATE /\
  existsb (fun e => Nat.eqb (e_obj e) 3 && N.eqb (e_prod e) P_xref) (site_entries cquote table_now w_example 2 false) = true /\
  existsb (fun e => Nat.eqb (e_obj e) 3 &&
                    (listing_prod (e_prod e) || match link_of cquote table_now w_example e with Some _ => true | None => false end))
          (site_entries cquote table_now w_example 2 false) = false /\
  existsb (fun e => Nat.eqb (e_obj e) 2 && marked_prod (e_prod e) && e_private e) (site_entries cquote table_now w_example 2 false) = true /\
  existsb (fun e => Nat.eqb (e_obj e) 4 && N.eqb (e_prod e) P_module_index && e_private e) (site_entries cquote table_now w_example 2 false) = true /\
  forallb (fun e => negb (listing_prod (e_prod e)) || visible w_hidden_root (e_obj e))
          (site_entries cquote table_now w_hidden_root 1 false) = true.
Proof.
  split; [apply w_example_wf|]. do 6 (split; [vm_compute; reflexivity|]). vm_compute. reflexivity.
Qed.
