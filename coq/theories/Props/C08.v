(* Props/C08.v -- C08: any docstring in any format is rendered; markup errors degrade to plain text.

   Over Model/DocFlow.v (the control flow of epydoc2stan.parse_docstring / reportErrors /
   ensure_parsed_docstring / safe_to_stan / format_docstring / format_summary / format_toc / extract_fields and
   their fallbacks, markup.processtypes, ParsedDocstring.get_summary / get_toc, the tail of epytext.parse), for
   EVERY behaviour of the oracles (markup parsers, type post-processing, to_stan, to_node, SummaryExtractor,
   node2stan): each theorem quantifies over `O : oracles`.

   Totality of the REAL code is not claimed from "the Gallina function returns" (every Gallina function does):
   it is carried by (a) C08_barrier_total below, over the try/except skeletons regenerated from /repo on every
   run, and (b) fault injection in the correspondence check.  Not proved, only sampled: termination and
   exception-freedom inside the epytext tokenizer, docutils, napoleon, the type tokenizer and node2stan.

   _refuted / _partial pairs (weaknesses of the code, see known_findings/C08.json):
     C08_isolation_split_field_refuted           a split field's summary failure overwrites its parent's cached summary
                                                 (C08_isolation_partial / _frame_partial / _other_object_partial: objects that
                                                 render their own docstring)                                 -- still open
     C08_field_text_lost_refuted                 a FIELD whose renderer fails is shown as BROKEN: its text is lost
                                                 (C08_field_failure_partial: it is reported, the body and the other fields
                                                 are kept; no BROKEN when every field renders)                -- still open
     C08_reported_parse_error_refuted            a parser raising ParseError without recording it is not reported
                                                 (C08_reported_against_object is the _partial: under the parser contract,
                                                 which epytext meets by C08_epytext_meets_contract)          -- oracle contract
     C08_epytext_to_node_old_refuted             before /repo ef2e650 ParsedEpytextDocstring.to_node cached an empty document
                                                 before a failing conversion (now: C08_epytext_to_node_deterministic)  -- fixed
     C08_get_toc_old_refuted                     before ef2e650 get_toc let any exception of to_node but NotImplementedError
                                                 escape (now: C08_toc_total)                                  -- fixed *)
From Coq Require Import ZArith NArith List Bool.
From PydoctorVerif Require Import Base.Sexp Model.Barrier Gen.Skeleton Proofs.BarrierProofs
     Model.DocFlow Spec.DocContract Proofs.DocFlowProofs Model.DocFlowIR Gen.DocFlowCode Proofs.DocFlowIRProofs.
Import ListNotations.
Local Open Scope N_scope.

(* ================================================================== (a) exception skeletons *)
Definition c08_skeletons : list (list sk) :=
  [sk_parse_docstring; sk_safe_to_stan; sk_parseddocstring_get_summary; sk_parseddocstring_get_toc;
   sk_lunrindexwriter_format_docstring; sk_format_signature].

Lemma C08_skeletons_checked :
  closed_table ancestors_table = true /\
  forallb (total ancestors_table allowed_table) c08_skeletons = true.
Proof. vm_compute. split; reflexivity. Qed.

(* parse_docstring, safe_to_stan, ParsedDocstring.get_summary, get_toc, LunrIndexWriter.format_docstring,
   format_signature as they are in /repo NOW (to_node may raise ANY Exception in get_summary, get_toc and the search
   index writer):
   no exception within the oracle contract (allowed_table) escapes.  A removed or narrowed `except`, or a risky
   call moved out of its `try`, makes this proof fail. *)
Theorem C08_barrier_total :
  forall b, In b c08_skeletons ->
    forall r, ev_block ancestors_table allowed_table None b r -> r = None.
Proof.
  intros b Hin r He. destruct C08_skeletons_checked as [Hc Ht].
  rewrite forallb_forall in Ht.
  exact (total_sound ancestors_table allowed_table (closed_trans ancestors_table Hc) b r (Ht b Hin) He).
Qed.

(* the handler really has to be `except Exception`: with any narrower class (here ImportError, the other class the
   C08 functions name) the analysis no longer proves get_toc / the search index writer total under the same contract
   -- which is how reverting ef2e650 (back to `except NotImplementedError`) breaks C08_barrier_total *)
Definition narrow_handlers (b : list sk) : list sk :=
  map (fun s => match s with
                | Barrier.STry body [([x], h)] orelse fin =>
                  if N.eqb x c_Exception then Barrier.STry body [([c_ImportError], h)] orelse fin else s
                | _ => s
                end) b.

Lemma C08_get_toc_handler_is_needed :
  total ancestors_table allowed_table (narrow_handlers sk_parseddocstring_get_toc) = false.
Proof. vm_compute. reflexivity. Qed.

(* ================================================================== (a') the translated source IS the model *)
(* The bodies of epydoc2stan.reportErrors / parse_docstring / ensure_parsed_docstring / safe_to_stan are translated
   statement by statement from /repo's CURRENT source (harness/gen/gen_c08_code.py, fail-closed, rerun on every check)
   into the statement language of Model/DocFlowIR.v (Gen/DocFlowCode.v).  Interpreting THAT code is the hand-written
   model the theorems below are about -- same returned value, same final state -- for every state, configuration,
   argument and oracle behaviour.  An edit of the Python source that changes what these functions do breaks one of
   these obligations; an edit that keeps the meaning (renamed locals, early return instead of nested if, one `except
   Exception` with an isinstance test instead of two clauses, a local alias of the plaintext parser) still proves. *)
Theorem C08_code_report_errors_is_model :
  forall (O : oracles) (c : config) (st : state) (who : oid) (errs : list perr) (sec : N),
    run_report_errors docflow_code O c [VObj who; VErrs errs; VSec sec] st =
    CRet VNone (report_errors st who errs sec).
Proof. exact code_report_errors_is_model. Qed.

Theorem C08_code_parse_docstring_is_model :
  forall (O : oracles) (c : config) (st : state) (obj : oid) (doc : text) (source : oid) (markup : option N) (sec : N),
    run_parse_docstring docflow_code O c [VObj obj; VText doc; VObj source; markup_value markup; VSec sec] st =
    CRet (VParsed (fst (parse_docstring O c st obj doc source markup sec)))
         (snd (parse_docstring O c st obj doc source markup sec)).
Proof. exact code_parse_docstring_is_model. Qed.

Theorem C08_code_ensure_parsed_docstring_is_model :
  forall (O : oracles) (c : config) (st : state) (o : oid),
    run_ensure_parsed_docstring docflow_code O c [VObj o] st =
    CRet (opt_value VObj (fst (ensure_parsed_docstring O c st o))) (snd (ensure_parsed_docstring O c st o)).
Proof. exact code_ensure_parsed_docstring_is_model. Qed.

Theorem C08_code_safe_to_stan_is_model :
  forall (O : oracles) (c : config) (st : state) (pd : parsed) (linker : value) (ctx : oid) (fb : fallback)
         (rep : bool) (sec : N),
    run_safe_to_stan docflow_code O c [VParsed pd; linker; VObj ctx; VFb fb; VBool rep; VSec sec] st =
    CRet (VStan (fst (safe_to_stan O c st pd ctx fb rep sec))) (snd (safe_to_stan O c st pd ctx fb rep sec)).
Proof. exact code_safe_to_stan_is_model. Qed.

(* ... and the property read directly off the translated parse_docstring: a parser pipeline that gives up yields
   plaintext(doc), recorded against the source. *)
Theorem C08_code_parse_docstring_falls_back :
  forall (O : oracles) (c : config) (st : state) (obj : oid) (doc : text) (source : oid) (sec : N),
    gives_up O c (applicable_format c source) doc ->
    exists st', run_parse_docstring docflow_code O c [VObj obj; VText doc; VObj source; VNone; VSec sec] st =
                CRet (VParsed (PPlain doc)) st' /\
                (raised_error_is_recorded O -> mem_pe sec source (parse_errors st') = true).
Proof. exact code_parse_docstring_falls_back. Qed.

(* ================================================================== (b) the fallback / reporting logic *)

(* If the parser pipeline gives up on o's docstring -- the markup parser or the type post-processing raises
   ParseError or ANY other exception -- the body format_docstring returns is plaintext(docstring o): the COMPLETE
   original text in one <p class="pre">, no fields; and that plain form is what is cached. *)
Theorem C08_fallback_is_whole_text :
  forall (O : oracles) (c : config) (st : state) (o : oid) (a : N) (t : text),
    docstring c o = Some (a :: t) -> pdoc st o = None ->
    gives_up O c (applicable_format c o) (a :: t) ->
    shows_whole_text (d_body (fst (format_docstring O c st o))) (a :: t) /\
    d_fields (fst (format_docstring O c st o)) = [] /\
    pdoc (snd (format_docstring O c st o)) o = Some (PPlain (a :: t)).
Proof.
  intros O c st o a t Hd Hp Hg. destruct (fallback_is_whole_text O c st o a t Hd Hp Hg) as (E & Hpd).
  rewrite E. cbn [fst snd d_body d_fields]. split; [reflexivity|]. split; [reflexivity|exact Hpd].
Qed.

(* ... then o is in parse_errors["docstring"], at least one report names o (exactly none if o had been reported
   before: once per object), nothing but o was touched, and a second call returns the same body and adds nothing. *)
Theorem C08_reported_against_object :
  forall (O : oracles) (c : config) (st : state) (o : oid) (a : N) (t : text),
    raised_error_is_recorded O ->
    docstring c o = Some (a :: t) -> pdoc st o = None ->
    gives_up O c (applicable_format c o) (a :: t) ->
    let r := format_docstring O c st o in
    in_parse_errors (snd r) SEC_DOCSTRING o /\
    (mem_pe SEC_DOCSTRING o (parse_errors st) = false ->
     exists e d, reports (snd r) = reports st ++ (o, SEC_DOCSTRING, e) :: d /\ Forall (names o) d) /\
    (mem_pe SEC_DOCSTRING o (parse_errors st) = true -> reports (snd r) = reports st) /\
    touches_only o st (snd r) /\
    format_docstring O c (snd r) o = (fst r, snd r).
Proof. exact reported_against_object. Qed.

(* An exception that is not a ParseError is reported whatever the parser did with the error list. *)
Theorem C08_exception_always_reported :
  forall (O : oracles) (c : config) (st : state) (o : oid) (a : N) (t : text) (errs : list perr),
    docstring c o = Some (a :: t) -> pdoc st o = None ->
    effective_parser O c (applicable_format c o) (a :: t) = PRexc errs ->
    in_parse_errors (snd (format_docstring O c st o)) SEC_DOCSTRING o /\
    (mem_pe SEC_DOCSTRING o (parse_errors st) = false ->
     In (o, SEC_DOCSTRING, EParseExc) (reports (snd (format_docstring O c st o)))).
Proof. exact exception_always_reported. Qed.

(* reportErrors is once-per-object: a second call for the same object and section adds nothing. *)
Theorem C08_report_errors_once :
  forall (st : state) (w : oid) (e1 e2 : list perr) (sec : N),
    e1 <> [] -> report_errors (report_errors st w e1 sec) w e2 sec = report_errors st w e1 sec.
Proof. exact report_errors_idem. Qed.

(* Non-interference (_partial: the guard `renders_own_docstring` excludes split fields, for which the statement is
   false: C08_isolation_split_field_refuted).  For an object o that renders its own docstring: the value returned by format_docstring /
   format_summary / format_toc for o, o's view afterwards and the reports appended are THE SAME from any two
   states that agree on o's own caches and on o's membership in parse_errors -- whatever happened to any other
   object in between. *)
Theorem C08_isolation_partial :
  forall (O : oracles) (c : config) (s1 s2 : state) (k : opk) (o : oid),
    renders_own_docstring c s1 o -> same_view o s1 s2 ->
    fst (run_opk O c s1 k o) = fst (run_opk O c s2 k o) /\
    same_view o (snd (run_opk O c s1 k o)) (snd (run_opk O c s2 k o)) /\
    exists d, reports (snd (run_opk O c s1 k o)) = reports s1 ++ d /\
              reports (snd (run_opk O c s2 k o)) = reports s2 ++ d.
Proof. exact isolation_noninterference. Qed.

(* ... and rendering o touches nothing but o: every other object keeps its caches and its parse_errors
   membership; the report log only grows, by reports naming o. *)
Theorem C08_isolation_frame_partial :
  forall (O : oracles) (c : config) (st : state) (k : opk) (o : oid),
    renders_own_docstring c st o -> touches_only o st (snd (run_opk O c st k o)).
Proof. exact run_opk_touches. Qed.

(* Together: whatever was rendered for o (and however it failed), o' <> o renders exactly as if o had never been
   rendered, and gets the same reports. *)
Theorem C08_isolation_other_object_partial :
  forall (O : oracles) (c : config) (st : state) (k k' : opk) (o o' : oid),
    o <> o' -> renders_own_docstring c st o -> renders_own_docstring c st o' ->
    let st1 := snd (run_opk O c st k o) in
    fst (run_opk O c st1 k' o') = fst (run_opk O c st k' o') /\
    exists d, reports (snd (run_opk O c st1 k' o')) = reports st1 ++ d /\
              reports (snd (run_opk O c st k' o')) = reports st ++ d.
Proof. exact isolation_other_object. Qed.

(* Errors the parser recovers from (it RETURNS a parsed docstring and errs <> [], as docutils does): the parsed
   form is kept -- not plain text --, the object is in parse_errors, and if it was not yet there every error is
   reported against it, in order. *)
Theorem C08_rst_recovered_errors_reported :
  forall (O : oracles) (c : config) (st : state) (o : oid) (a : N) (t : text) (p : N) (errs : list perr),
    docstring c o = Some (a :: t) -> pdoc st o = None ->
    effective_parser O c (applicable_format c o) (a :: t) = PRok (PMark p) errs -> errs <> [] ->
    let r := format_docstring O c st o in
    pdoc (snd r) o = Some (PMark p) /\
    in_parse_errors (snd r) SEC_DOCSTRING o /\
    (mem_pe SEC_DOCSTRING o (parse_errors st) = false ->
     exists d, reports (snd r) = reports st ++ map (fun e => (o, SEC_DOCSTRING, e)) errs ++ d) /\
    d_body (fst r) = BStan (match to_stan O p with Some s => SMark s | None => SPre (a :: t) end).
Proof. exact recovered_errors_reported. Qed.

(* the hypothesis above in terms of the oracles, without --process-types *)
Lemma C08_recovered_hypothesis_from_parser :
  forall (O : oracles) (c : config) (f : N) (t : text) (p : N) (errs : list N),
    fmt_known f = true -> f <> F_PLAINTEXT -> processtypes_on c && negb (skip_processtypes f) = false ->
    parser O f t = PR_ok p errs ->
    effective_parser O c f t = PRok (PMark p) (map EParser errs).
Proof.
  intros O c f t p errs K P Hf E.
  rewrite (effective_parser_off _ _ _ _ Hf), (base_parser_known _ _ _ K P), E. reflexivity.
Qed.

(* The renderer (to_stan) raising for a parsed docstring: the body is plaintext(docstring), the object is
   reported (EToStanExc) unless it already was, and a second call shows the same text and reports nothing more. *)
Theorem C08_to_stan_failure_fallback :
  forall (O : oracles) (c : config) (st : state) (o : oid) (p : N) (t : text),
    pdoc st o = Some (PMark p) -> to_stan O p = None -> docstring c o = Some t ->
    let r := format_docstring O c st o in
    d_body (fst r) = BStan (SPre t) /\
    in_parse_errors (snd r) SEC_DOCSTRING o /\
    (mem_pe SEC_DOCSTRING o (parse_errors st) = false ->
     exists d, reports (snd r) = reports st ++ (o, SEC_DOCSTRING, EToStanExc) :: d /\ Forall (names o) d) /\
    d_body (fst (format_docstring O c (snd r) o)) = BStan (SPre t) /\
    reports (snd (format_docstring O c (snd r) o)) = reports (snd r).
Proof. exact to_stan_failure_fallback. Qed.

(* ... for a split field (no docstring of its own): the parent's docstring, or BROKEN when the parent has none;
   reported against the parent. *)
Theorem C08_to_stan_failure_split_field :
  forall (O : oracles) (c : config) (st : state) (o q : oid) (p : N),
    docstring c o = None -> inherits c o = [] -> pdoc st o = Some (PMark p) -> parent c o = Some q ->
    to_stan O p = None ->
    let r := format_docstring O c st o in
    d_body (fst r) = BStan (match docstring c q with Some t => SPre t | None => SBroken end) /\
    in_parse_errors (snd r) SEC_DOCSTRING q.
Proof. exact to_stan_failure_split_field. Qed.

(* The renderer failing, WHATEVER was called for the object before (format_summary, format_toc, format_docstring, in
   any order and any number of times -- the call order that hid the failure before ef2e650): format_docstring shows
   plaintext(docstring) and the object is in parse_errors. *)
Theorem C08_to_stan_failure_any_order :
  forall (O : oracles) (c : config) (st : state) (o : oid) (a : N) (t : text) (p : N) (errs : list perr)
         (prior : list opk),
    docstring c o = Some (a :: t) -> pdoc st o = None ->
    effective_parser O c (applicable_format c o) (a :: t) = PRok (PMark p) errs -> to_stan O p = None ->
    let st1 := fold_left (fun s k => snd (run_opk O c s k o)) prior st in
    d_body (fst (format_docstring O c st1 o)) = BStan (SPre (a :: t)) /\
    in_parse_errors (snd (format_docstring O c st1 o)) SEC_DOCSTRING o.
Proof. exact to_stan_failure_any_order. Qed.

(* Inherited docstrings: o has no docstring, its first documented source is b.  The parser giving up: the whole
   text of b's docstring is shown for o, the problem is recorded against b (the owner of the text), and o itself
   is not added to parse_errors. *)
Theorem C08_inherited_fallback_is_whole_text :
  forall (O : oracles) (c : config) (st : state) (o b : oid) (a : N) (t : text),
    docstring c o = None -> get_docstring_from c (inherits c o) = (Some (a :: t), Some b) -> pdoc st o = None ->
    gives_up O c (applicable_format c b) (a :: t) ->
    format_docstring O c st o =
    ({| d_body := BStan (SPre (a :: t)); d_fields := [] |}, inherited_state O c st o b (a :: t)) /\
    (raised_error_is_recorded O -> in_parse_errors (inherited_state O c st o b (a :: t)) SEC_DOCSTRING b) /\
    (forall sec, mem_pe sec o (parse_errors (inherited_state O c st o b (a :: t))) = true ->
                 o <> b -> mem_pe sec o (parse_errors st) = true).
Proof. exact inherited_fallback_is_whole_text. Qed.

(* ... the renderer failing for an inherited docstring: the text shown is the SOURCE's docstring (never BROKEN when
   the source has one), reported against the source, and o's own membership in parse_errors does not change. *)
Theorem C08_inherited_to_stan_failure :
  forall (O : oracles) (c : config) (st : state) (o b : oid) (d : option text) (p : N),
    docstring c o = None -> get_docstring_from c (inherits c o) = (d, Some b) ->
    pdoc st o = Some (PMark p) -> to_stan O p = None ->
    let r := format_docstring O c st o in
    d_body (fst r) = BStan (match docstring c b with Some t => SPre t | None => SBroken end) /\
    in_parse_errors (snd r) SEC_DOCSTRING b /\
    (o <> b -> forall sec, mem_pe sec o (parse_errors (snd r)) = mem_pe sec o (parse_errors st)).
Proof. exact inherited_to_stan_failure. Qed.

(* Fields (_partial: the full statement "a renderer failure degrades to the original text" is false for fields,
   C08_field_text_lost_refuted).  For a docstring whose body renders: the body is kept, every rendered field shows
   its own rendering or BROKEN, a failing field puts the object in parse_errors, and when every field body renders
   no BROKEN appears. *)
Theorem C08_field_failure_partial :
  forall (O : oracles) (c : config) (st : state) (o : oid) (p s : N) (d : text),
    pdoc st o = Some (PMark p) -> docstring c o = Some d -> to_stan O p = Some s ->
    let r := format_docstring O c st o in
    d_body (fst r) = BStan (SMark s) /\
    d_fields (fst r) = map (field_stan O) (fields_of O p) /\
    (forall f, In f (fields_of O p) -> to_stan O f = None -> in_parse_errors (snd r) SEC_DOCSTRING o) /\
    ((forall f, In f (fields_of O p) -> to_stan O f <> None) -> ~ In SBroken (d_fields (fst r))).
Proof. exact field_failure. Qed.

(* The summary's renderer raising: BROKEN is returned and remembered, nothing is reported (report=False), nothing
   else changes, and the next call returns BROKEN without touching the state. *)
Theorem C08_summary_fallback :
  forall (O : oracles) (c : config) (st : state) (o : oid) (pd : parsed) (d : text) (s : N),
    pdoc st o = Some pd -> docstring c o = Some d -> psum st o = None ->
    get_summary O pd = PMark s -> to_stan O s = None ->
    let r := format_summary O c st o in
    fst r = SBroken /\
    psum (snd r) o = Some (PStanOnly SBroken) /\
    reports (snd r) = reports st /\ parse_errors (snd r) = parse_errors st /\ pdoc (snd r) = pdoc st /\
    (forall x, x <> o -> psum (snd r) x = psum st x) /\
    format_summary O c (snd r) o = (SBroken, snd r).
Proof. exact summary_fallback. Qed.

(* to_node / SummaryExtractor raising inside get_summary: "Broken summary". *)
Theorem C08_summary_extraction_failure :
  forall (O : oracles) (c : config) (st : state) (o : oid) (p : N) (d : text),
    pdoc st o = Some (PMark p) -> docstring c o = Some d -> psum st o = None ->
    summary_node O p = SumRaise ->
    format_summary O c st o = (SBrokenSummary, set_psum st o (Some (PStanOnly SBrokenSummary))).
Proof. exact summary_extraction_failure. Qed.

(* The tail of epytext.parse: any fatal error in the list => the FIRST fatal one is raised (and it is in the
   list); no fatal error => the tree is returned. *)
Theorem C08_epytext_fatal_raises :
  forall (T : Type) (errors : list (N * bool)) (tree : T),
    (forall e, In e errors -> snd e = true ->
               exists e0, epytext_tail errors tree = inl e0 /\ first_fatal errors e0 /\ In e0 errors) /\
    ((forall e, In e errors -> snd e = false) -> epytext_tail errors tree = inr tree).
Proof. intros T. exact epytext_fatal_raises. Qed.

(* Hence epytext, as a parser oracle, meets the contract of C08_reported_against_object. *)
Theorem C08_epytext_meets_contract :
  forall (errors : list (N * bool)) (p : N) (errs : list N),
    epytext_presult errors p = PR_parse_error errs -> errs <> [].
Proof. exact epytext_presult_contract. Qed.

(* format_toc never raises, for EVERY behaviour of to_node / the toc builder / the toc renderer, and changes
   nothing but what ensure_parsed_docstring changes (a failing toc renderer shows BROKEN, report=False). *)
Theorem C08_toc_total :
  forall (O : oracles) (c : config) (st : state) (o : oid),
    fst (format_toc O c st o) <> Raised /\
    snd (format_toc O c st o) = snd (ensure_parsed_docstring O c st o).
Proof. intros O c st o. split; [apply toc_total|apply toc_state]. Qed.

(* REFUTED for the code before ef2e650 (get_toc_old): to_node raising e.g. AssertionError escaped. *)
Theorem C08_get_toc_old_refuted :
  exists (O : oracles) (pd : parsed), get_toc_old O pd = Raised /\ get_toc O pd = Ok None.
Proof.
  exists {| parser := fun _ _ => PR_ok 1 []; ptypes := fun p => PT_ok p []; to_stan := fun p => Some p;
            fields_of := fun _ => []; var_fields := fun _ => []; summary_node := fun _ => SumNone;
            summary_plain := fun _ => SumNone; toc_of := fun _ => TocRaise |}, (PMark 1).
  split; reflexivity.
Qed.

(* ParsedEpytextDocstring.to_node is deterministic whatever the conversion of the tree does (the second call
   returns / raises what the first did), and a failing conversion leaves nothing cached: the oracle-determinism
   assumption of the theorems above holds for epytext. *)
Theorem C08_epytext_to_node_deterministic :
  forall (has_tree : bool) (conv : convres) (document : option N),
    let r1 := epytext_to_node has_tree conv document in
    fst (epytext_to_node has_tree conv (snd r1)) = fst r1.
Proof. exact epytext_to_node_deterministic. Qed.

Theorem C08_epytext_to_node_fails_alike :
  epytext_to_node true ConvRaise None = (Raised, None).
Proof. exact epytext_to_node_fails_alike. Qed.

(* REFUTED for the code before ef2e650 (epytext_to_node_old): the FIRST call raised and the SECOND returned an
   EMPTY document without any error: whoever called first (get_summary: caught, not reported) hid the failure from
   format_docstring, which then rendered nothing and reported nothing. *)
Theorem C08_epytext_to_node_old_refuted :
  exists (conv : convres),
    let r1 := epytext_to_node_old true conv None in
    let r2 := epytext_to_node_old true conv (snd r1) in
    fst r1 = Raised /\ fst r2 = Ok EMPTY_DOCUMENT.
Proof. exists ConvRaise. split; reflexivity. Qed.

(* ================================================================== witnesses *)
Definition ex_parser (f : N) (t : text) : presult :=
  match t with
  | [] => PR_ok 99 []
  | x :: _ => if x =? 1 then PR_parse_error [7]
              else if x =? 2 then PR_exception []
              else if x =? 3 then PR_ok 10 [8]
              else if x =? 5 then PR_ok 20 []
              else PR_ok 99 []
  end.

Definition exO : oracles :=
  {| parser := ex_parser;
     ptypes := fun p => PT_ok p [];
     to_stan := fun p => if (p =? 20) || (p =? 105) then None else Some p;
     fields_of := fun _ => [];
     var_fields := fun _ => [];
     summary_node := fun p => if p =? 10 then SumRaise else SumSome (p + 100);
     summary_plain := fun _ => SumNone;
     toc_of := fun p => if p =? 10 then TocRaise else TocEmpty |}.

(* a parser that raises ParseError without having recorded it *)
Definition badO : oracles :=
  {| parser := fun _ _ => PR_parse_error [];
     ptypes := fun p => PT_ok p [];
     to_stan := fun p => Some p;
     fields_of := fun _ => [];
     var_fields := fun _ => [];
     summary_node := fun p => SumSome (p + 100);
     summary_plain := fun _ => SumNone;
     toc_of := fun _ => TocEmpty |}.

(* objects 1..5 have the one-character docstrings [1]..[5]; object 6 is a split field of object 5; object 7 has no
   docstring and overrides 8 (undocumented) and 2 *)
Definition exC : config :=
  {| sys_fmt := 0; processtypes_on := false; toc_enabled := true;
     docstring := fun o => if (1 <=? o) && (o <=? 5) then Some [o] else None;
     parent := fun o => if o =? 6 then Some 5 else None;
     mod_fmt := fun _ => None;
     inherits := fun o => if o =? 7 then [8; 2] else [] |}.

Definition st0 : state := mkState [] [] (fun _ => None) (fun _ => None).
(* object 6 got its parsed_docstring from extract_fields(5) *)
Definition st_split : state := set_pdoc st0 6 (Some (PMark 5)).

Lemma exO_contract : raised_error_is_recorded exO.
Proof.
  split.
  - intros f t errs. cbn [exO parser]. unfold ex_parser. destruct t as [|x t]; [discriminate|].
    destruct (x =? 1); [intros [= <-]; discriminate|].
    destruct (x =? 2); [discriminate|]. destruct (x =? 3); [discriminate|]. destruct (x =? 5); discriminate.
  - intros p w. cbn [exO ptypes]. discriminate.
Qed.

Lemma ex_gives_up_1 : gives_up exO exC (applicable_format exC 1) [1].
Proof. eapply GU_parser_parse_error with (errs := [7]); [reflexivity|discriminate|reflexivity]. Qed.

Lemma ex_gives_up_2 : gives_up exO exC (applicable_format exC 2) [2].
Proof. eapply GU_parser_exception with (errs := []); [reflexivity|discriminate|reflexivity]. Qed.

(* REFUTED: a parser that raises ParseError without recording it: the text is still shown, but nothing is reported. *)
Theorem C08_reported_parse_error_refuted :
  exists (O : oracles) (c : config) (st : state) (o : oid) (a : N) (t : text),
    docstring c o = Some (a :: t) /\ pdoc st o = None /\ gives_up O c (applicable_format c o) (a :: t) /\
    ~ in_parse_errors (snd (format_docstring O c st o)) SEC_DOCSTRING o /\
    reports (snd (format_docstring O c st o)) = [].
Proof.
  exists badO, exC, st0, 1, 1, []. split; [reflexivity|]. split; [reflexivity|]. split.
  - eapply GU_parser_parse_error with (errs := []); [reflexivity|discriminate|reflexivity].
  - split; [unfold in_parse_errors; vm_compute; discriminate|vm_compute; reflexivity].
Qed.

(* REFUTED: "the complete original text is still shown" for FIELDS.  The docstring [9] parses to 30 with one
   rendered field 31 whose renderer raises: the result holds BROKEN for the field and no plain text anywhere --
   the field's text is lost (it IS reported). *)
Definition fieldO : oracles :=
  {| parser := fun _ _ => PR_ok 30 [];
     ptypes := fun p => PT_ok p [];
     to_stan := fun p => if p =? 31 then None else Some p;
     fields_of := fun p => if p =? 30 then [31] else [];
     var_fields := fun _ => [];
     summary_node := fun p => SumSome (p + 100);
     summary_plain := fun _ => SumNone;
     toc_of := fun _ => TocEmpty |}.

Theorem C08_field_text_lost_refuted :
  exists (O : oracles) (c : config) (st : state) (o : oid) (t : text),
    docstring c o = Some t /\ pdoc st o = None /\
    let r := format_docstring O c st o in
    d_fields (fst r) = [SBroken] /\ d_body (fst r) <> BStan (SPre t) /\
    in_parse_errors (snd r) SEC_DOCSTRING o.
Proof.
  exists fieldO, exC, st0, 1, [1]. split; [reflexivity|]. split; [reflexivity|]. cbn zeta.
  split; [vm_compute; reflexivity|]. split; [vm_compute; discriminate|]. unfold in_parse_errors. vm_compute. reflexivity.
Qed.

(* REFUTED: isolation for split fields.  Object 6 has no docstring; its parsed_docstring was put there by its
   parent 5.  Rendering 6's summary fails in the renderer; format_summary_fallback then overwrites the PARENT's
   cached summary, so the healthy parent's summary becomes "Broken description". *)
Theorem C08_isolation_split_field_refuted :
  exists (O : oracles) (c : config) (st : state) (o o' : oid),
    o <> o' /\ renders_own_docstring c st o' /\ ~ renders_own_docstring c st o /\
    fst (format_summary O c st o') = SMark 120 /\
    fst (format_summary O c (snd (format_summary O c st o)) o') = SBroken.
Proof.
  exists exO, exC, st_split, 6, 5. split; [discriminate|]. split; [left; discriminate|]. split.
  - intros [H|(H & _)]; [apply H; reflexivity|discriminate].
  - split; vm_compute; reflexivity.
Qed.

(* ================================================================== non-vacuity *)
Example C08_fallback_hypotheses_satisfiable :
  docstring exC 1 = Some [1] /\ pdoc st0 1 = None /\ raised_error_is_recorded exO /\
  gives_up exO exC (applicable_format exC 1) [1] /\ gives_up exO exC (applicable_format exC 2) [2] /\
  d_body (fst (format_docstring exO exC st0 1)) = BStan (SPre [1]) /\
  parse_errors (snd (format_docstring exO exC st0 1)) = [(SEC_DOCSTRING, 1)] /\
  reports (snd (format_docstring exO exC st0 2)) = [(2, SEC_DOCSTRING, EParseExc)].
Proof.
  split; [reflexivity|]. split; [reflexivity|]. split; [exact exO_contract|].
  split; [exact ex_gives_up_1|]. split; [exact ex_gives_up_2|]. split; [vm_compute; reflexivity|].
  split; vm_compute; reflexivity.
Qed.

Example C08_exception_hypotheses_satisfiable :
  effective_parser exO exC (applicable_format exC 2) [2] = PRexc [].
Proof. vm_compute. reflexivity. Qed.

Example C08_isolation_hypotheses_satisfiable :
  1 <> 2 /\ renders_own_docstring exC st0 1 /\ renders_own_docstring exC st0 2 /\
  same_view 2 st0 (snd (run_opk exO exC st0 OpDocstring 1)) /\
  fst (run_opk exO exC (snd (run_opk exO exC st0 OpDocstring 1)) OpDocstring 2) =
  RDoc {| d_body := BStan (SPre [2]); d_fields := [] |}.
Proof.
  split; [discriminate|]. split; [left; discriminate|]. split; [left; discriminate|]. split.
  - apply (C08_isolation_frame_partial exO exC st0 OpDocstring 1); [left; discriminate|discriminate].
  - vm_compute. reflexivity.
Qed.

Example C08_recovered_hypotheses_satisfiable :
  docstring exC 3 = Some [3] /\ pdoc st0 3 = None /\
  effective_parser exO exC (applicable_format exC 3) [3] = PRok (PMark 10) [EParser 8] /\
  [EParser 8] <> [] /\
  pdoc (snd (format_docstring exO exC st0 3)) 3 = Some (PMark 10) /\
  reports (snd (format_docstring exO exC st0 3)) = [(3, SEC_DOCSTRING, EParser 8)].
Proof. repeat split; try discriminate; vm_compute; reflexivity. Qed.

Example C08_to_stan_hypotheses_satisfiable :
  let st := snd (ensure_parsed_docstring exO exC st0 5) in
  pdoc st 5 = Some (PMark 20) /\ to_stan exO 20 = None /\ docstring exC 5 = Some [5] /\
  d_body (fst (format_docstring exO exC st 5)) = BStan (SPre [5]) /\
  docstring exC 6 = None /\ pdoc st_split 6 = Some (PMark 5) /\ parent exC 6 = Some 5.
Proof. cbn zeta. repeat split; vm_compute; reflexivity. Qed.

Example C08_summary_hypotheses_satisfiable :
  pdoc st_split 6 = Some (PMark 5) /\ get_summary exO (PMark 5) = PMark 105 /\ to_stan exO 105 = None /\
  (let st := snd (ensure_parsed_docstring exO exC st0 3) in
   pdoc st 3 = Some (PMark 10) /\ docstring exC 3 = Some [3] /\ psum st 3 = None /\ summary_node exO 10 = SumRaise) /\
  (let st := set_pdoc st0 4 (Some (PMark 5)) in
   pdoc st 4 = Some (PMark 5) /\ docstring exC 4 = Some [4] /\ psum st 4 = None /\
   fst (format_summary exO exC st 4) = SBroken).
Proof. cbn zeta. repeat split; vm_compute; reflexivity. Qed.

Example C08_inherited_hypotheses_satisfiable :
  docstring exC 7 = None /\ get_docstring_from exC (inherits exC 7) = (Some [2], Some 2) /\ pdoc st0 7 = None /\
  gives_up exO exC (applicable_format exC 2) [2] /\
  d_body (fst (format_docstring exO exC st0 7)) = BStan (SPre [2]) /\
  parse_errors (snd (format_docstring exO exC st0 7)) = [(SEC_DOCSTRING, 2)] /\
  inherits exC 6 = [] /\
  (let st := set_pdoc st0 7 (Some (PMark 20)) in
   pdoc st 7 = Some (PMark 20) /\ to_stan exO 20 = None /\
   d_body (fst (format_docstring exO exC st 7)) = BStan (SPre [2])) /\
  (* C08_to_stan_failure_any_order: summary and toc requested first *)
  effective_parser exO exC (applicable_format exC 5) [5] = PRok (PMark 20) [] /\
  d_body (fst (format_docstring exO exC (fold_left (fun s k => snd (run_opk exO exC s k 5)) [OpSummary; OpToc] st0) 5))
  = BStan (SPre [5]).
Proof.
  split; [reflexivity|]. split; [reflexivity|]. split; [reflexivity|]. split; [exact ex_gives_up_2|].
  cbn zeta. repeat split; vm_compute; reflexivity.
Qed.

Example C08_field_hypotheses_satisfiable :
  let st := snd (ensure_parsed_docstring fieldO exC st0 1) in
  pdoc st 1 = Some (PMark 30) /\ docstring exC 1 = Some [1] /\ to_stan fieldO 30 = Some 30 /\
  In 31 (fields_of fieldO 30) /\ to_stan fieldO 31 = None /\
  (let st' := snd (ensure_parsed_docstring exO exC st0 3) in
   pdoc st' 3 = Some (PMark 10) /\ to_stan exO 10 = Some 10 /\ (forall f, In f (fields_of exO 10) -> to_stan exO f <> None)).
Proof. cbn zeta. repeat split; try (vm_compute; reflexivity). left; reflexivity. intros f []. Qed.

Example C08_code_hypotheses_satisfiable :
  gives_up exO exC (applicable_format exC 1) [1] /\
  run_parse_docstring docflow_code exO exC [VObj 1; VText [1]; VObj 1; VNone; VSec 0] st0 =
  CRet (VParsed (PPlain [1])) (mkState [(0, 1)] [(1, 0, EParser 7)] (fun _ => None) (fun _ => None)).
Proof. split; [exact ex_gives_up_1|vm_compute; reflexivity]. Qed.

Example C08_epytext_hypotheses_satisfiable :
  In (2, true) [(1, false); (2, true); (3, true)] /\
  epytext_tail [(1, false); (2, true); (3, true)] tt = inl (2, true) /\
  first_fatal [(1, false); (2, true); (3, true)] (2, true) /\
  epytext_tail [(1, false); (4, false)] tt = inr tt /\
  epytext_presult [(1, false); (2, true)] 9 = PR_parse_error [1; 2].
Proof.
  split; [right; left; reflexivity|]. split; [reflexivity|]. split.
  - exists [(1, false)], [(3, true)]. split; [reflexivity|]. split; [reflexivity|]. repeat constructor.
  - split; reflexivity.
Qed.

Example C08_barrier_hypotheses_satisfiable :
  In sk_parse_docstring c08_skeletons /\
  exists r, ev_block ancestors_table allowed_table None sk_safe_to_stan r.
Proof.
  split; [left; reflexivity|]. exists None. unfold sk_safe_to_stan.
  eapply B_ok; [|apply B_nil].
  apply (E_try_ok _ _ None _ _ _ _ None None); repeat (first [apply B_nil | eapply B_ok | apply E_call_ok]).
Qed.
