(* Props/C01.v -- C01: a run never aborts.
   What is proved (over Model/Proc.v = System.process/processModule/getProcessedModule, Model/Barrier.v +
   the regenerated Gen/Skeleton.v = the try/except structure of the barrier functions, and driver.main's
   exit status). What is NOT proved and only sampled by the correspondence check: exception-freedom and
   termination inside CPython's ast, docutils, astor, twisted, lunr (DESIGN.md 5.C01 residual). *)
From Coq Require Import ZArith NArith List Bool.
From PydoctorVerif Require Import Base.Sexp Model.Proc Model.Barrier Gen.Skeleton
     Proofs.ProcProofs Proofs.BarrierProofs Model.ProcIR Gen.ProcCode Proofs.ProcIRProofs
     Model.ExitIR Gen.ExitCode Proofs.ExitIRProofs.
Import ListNotations.

(* The work-list machine, for EVERY project (import cycles, self-imports, unknown targets, unparsable
   files at any position) and EVERY processing order: fuel never runs out, no `assert` of
   processModule/getProcessedModule fires, the unprocessed list is drained, the processing stack is
   empty again, every module ends PROCESSED iff it parsed (PROCESSING and reported exactly once
   otherwise), and the event trace enters and leaves each parsed module exactly once. *)
Theorem C01_process_total :
  forall (p : project) (order : list N),
    NoDup order -> (forall m, In m order <-> known p m) ->
    exists s', run_project p order = Ok s' /\ unproc s' = [] /\ stack s' = [] /\
               NoDup (reports s') /\
               (forall m i, lookup p m = Some i ->
                            st s' m = final_of i /\ (In m (reports s') <-> parse_ok i = false) /\
                            (* entered / left / reported exactly once, never both *)
                            counts m (trace s') = if parse_ok i then (1, 1, 0) else (0, 0, 1)).
Proof. exact run_project_total. Qed.

(* ---- the tie to the source, as theorems ---------------------------------------------------------------------
   Gen/ProcCode.v holds the bodies of System.processModule / getProcessedModule / process translated statement by
   statement from /repo's CURRENT pydoctor/model.py (harness/gen/gen_c01_code.py, fail-closed, rerun on every check)
   into the statement language of Model/ProcIR.v.  Interpreting THAT code is the machine above: same final state,
   or both out of fuel, or both a failed assertion -- for every project whose modules have a source path or a source
   string (wf), every state, module and fuel; C extension modules count as parseable modules without imports. *)
Theorem C01_code_process_module_is_model :
  forall (p : project') (other : N -> bool), wf p ->
    forall fuel s m, same_outcome (pm_ir proc_code p other fuel s m) (process_module (erase p) fuel s m).
Proof. exact pm_ir_eq. Qed.

Theorem C01_code_process_is_model :
  forall (p : project') (other : N -> bool), wf p ->
    forall order, same_outcome (run_project_ir proc_code p other order) (run_project (erase p) order).
Proof. exact run_project_ir_eq. Qed.

(* hence C01_process_total, stated on the translated code *)
Theorem C01_code_process_total :
  forall (p : project') (other : N -> bool) (order : list N),
    wf p -> NoDup order -> (forall m, In m order <-> lookup' p m <> None) ->
    exists s', run_project_ir proc_code p other order = Ok s' /\ unproc s' = [] /\ stack s' = [] /\
               NoDup (reports s') /\
               (forall m i, lookup' p m = Some i ->
                            st s' m = (if effective_ok i then PROCESSED else PROCESSING) /\
                            (In m (reports s') <-> effective_ok i = false) /\
                            counts m (trace s') = if effective_ok i then (1, 1, 0) else (0, 0, 1)).
Proof. exact code_run_project_total. Qed.

(* An unparsable file does not change the outcome of any other module. *)
Theorem C01_bad_file_isolated :
  forall (p q : project) (order : list N),
    NoDup order ->
    (forall m, In m order <-> known p m) -> (forall m, In m order <-> known q m) ->
    forall m i j, lookup p m = Some i -> lookup q m = Some j -> parse_ok i = parse_ok j ->
      exists s1 s2, run_project p order = Ok s1 /\ run_project q order = Ok s2 /\ st s1 m = st s2 m.
Proof. exact bad_file_isolated. Qed.

(* Exit status is 0, 2 or 3 and follows the documented rule. *)
Theorem C01_exit_status :
  forall d o v w,
    let r := exit_status d o v w in
    (r = 0 \/ r = 2 \/ r = 3)%Z /\
    (r = 3%Z <-> (0 < v)%N /\ w = true) /\
    (r = 2%Z <-> ~ ((0 < v)%N /\ w = true) /\ (0 < d + o)%N) /\
    (r = 0%Z <-> ~ ((0 < v)%N /\ w = true) /\ (d + o = 0)%N).
Proof. exact exit_status_spec. Qed.

(* ... and the exit-status region of driver.main (everything after make(system) up to `return exitcode`), translated from the
   CURRENT source into Model/ExitIR.v on every run (harness/gen/gen_c01_exit.py): interpreting it IS exit_status. *)
Theorem C01_code_exit_status_is_model :
  forall d o v w, run_exit exit_code_of_main d o v w = exit_status d o v w.
Proof. exact run_exit_eq. Qed.

(* Soundness of the escape analysis, for every skeleton and every class table whose ancestor lists are
   transitively closed: if `total` holds, no behaviour of the risky calls within their contract makes
   the block raise. *)
Theorem C01_barrier_sound :
  forall anc alw b r,
    closed_table anc = true -> total anc alw b = true -> ev_block anc alw None b r -> r = None.
Proof.
  intros anc alw b r Hc Ht He. exact (total_sound anc alw (closed_trans anc Hc) b r Ht He).
Qed.

(* ... and the barrier functions as they are in /repo NOW (Gen/Skeleton.v is regenerated on every run):
   parse_docstring, safe_to_stan, get_summary, get_toc, format_signature, parseFile, parseString,
   unstring_annotation, _colorize_ast_generic, colorize. A removed or narrowed `except`, or a risky call
   moved out of its `try`, makes this proof fail. *)
Lemma skeletons_checked :
  closed_table ancestors_table = true /\
  forallb (total ancestors_table allowed_table) all_skeletons = true.
Proof. vm_compute. split; reflexivity. Qed.

Theorem C01_barrier_total :
  forall b, In b all_skeletons ->
    forall r, ev_block ancestors_table allowed_table None b r -> r = None.
Proof.
  intros b Hin r He. destruct skeletons_checked as [Hc Ht].
  rewrite forallb_forall in Ht. exact (C01_barrier_sound _ _ b r Hc (Ht b Hin) He).
Qed.

(* non-vacuity *)
Definition ex_project : project :=
  [(1%N, {| parse_ok := true; imports := [2%N; 3%N; 9%N] |});
   (2%N, {| parse_ok := false; imports := [] |});
   (3%N, {| parse_ok := true; imports := [1%N; 3%N] |})].
Example C01_hypotheses_satisfiable :
  NoDup [3%N; 1%N; 2%N] /\ (forall m, In m [3%N; 1%N; 2%N] <-> known ex_project m) /\
  (exists s, run_project ex_project [3%N; 1%N; 2%N] = Ok s /\ reports s = [2%N]) /\
  (exists r, ev_block ancestors_table allowed_table None sk_parse_docstring r).
Proof.
  split; [repeat constructor; cbn; intuition discriminate|].
  split.
  - intros m. unfold known, ex_project. cbn [lookup In].
    destruct (N.eqb_spec 1 m) as [<-|H1]; [split; [discriminate|auto]|].
    destruct (N.eqb_spec 2 m) as [<-|H2]; [split; [discriminate|auto]|].
    destruct (N.eqb_spec 3 m) as [<-|H3]; [split; [discriminate|auto]|].
    split; [intros [E|[E|[E|[]]]]; congruence|congruence].
  - split.
    + eexists. split; [vm_compute; reflexivity|reflexivity].
    + (* a quiet run (every call returns, first branch taken) exists whatever shape the regenerated skeleton has *)
      exists None. unfold sk_parse_docstring.
      repeat (first [ apply B_nil | eapply B_ok | apply E_call_ok
                    | (eapply E_branch; [left; reflexivity|])
                    | apply (E_try_ok _ _ None _ _ _ _ None None) ]).
Qed.
