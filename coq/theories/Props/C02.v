(* Props/C02.v -- C02: the object model is a coherent tree with a consistent name registry.

   Proved over Model/Registry.v (System.addObject / handleDuplicate / _remove / _addUnprocessedModule /
   _handleDuplicateModule, Documentable.reparent, defaultPostProcess, Documentable.url), for ALL histories:
   the invariant Inv of Spec/RegistryInv.v (I1-I5) holds initially and is preserved by every operation under
   its guard.  The guards are exactly the complement of the classes of genuine defects of pydoctor listed in
   known_findings/C02.json, each kept as a kernel-checked witness (_refuted; _old_refuted for a repaired one).

   NOT proved (sampled by the correspondence check, harness/c02.py): that the AST builder only issues guarded
   operations; name resolution inside compute_mro / find_object (C04, C07): the resolved bases and the resolved
   interface targets are inputs of the models here. *)
From Coq Require Import ZArith NArith List Bool.
From PydoctorVerif Require Import Base.Sexp Model.Registry Spec.RegistryInv
     Proofs.RegistryBase Proofs.RegistryProofs Proofs.RegistryReparent Proofs.RegistryFuel Proofs.RegistryTotal
     Proofs.RegistryHistory Proofs.RegistryDerived Proofs.RegistryCheck Proofs.RegistryWitness
     Spec.C3 Model.Mro Proofs.RegistryMro Model.Implements Proofs.ImplementsProofs
     Model.RegistryIR Gen.RegistryCode Proofs.RegistryIRProofs.
Import ListNotations.
Local Open Scope N_scope.

(* The empty system satisfies the invariant. *)
Theorem C02_inv_init : Inv init.
Proof. exact inv_init. Qed.

(* addObject of a new class / function / attribute (ASTBuilder._push, addAttribute, extract_fields), INCLUDING the
   duplicate branch (handleDuplicate renames the older object "name i" with the first free i, flags it superseded,
   re-registers its whole subtree): preserves Inv, provided the parent is a registered module/package/class and --
   in the duplicate case -- the walk down `contents` from the displaced object reaches every registered object
   below it (no superseded duplicate below it: see C02_dup_nested_refuted). *)
Theorem C02_inv_add :
  forall s c n q k s', Inv s -> guard_add_child s c n q -> step s (AddChild c n q k) = Some s' -> Inv s'.
Proof. exact step_add_child_inv. Qed.

(* _addUnprocessedModule of a new module / package, top-level or inside a registered package, and BOTH duplicate
   rules of _handleDuplicateModule: "packages win" (the later module is dropped, nothing changes) and "the last wins"
   (self._remove(first): the old module and everything below it leave the registry; the modules below it leave
   unprocessed_modules; it leaves its parent's contents and rootobjects; the new module takes the name) -- at top
   level and inside a package alike, since the repairs 3d2c96f + f6d4b31.  Guard: nothing superseded below `first`. *)
Theorem C02_inv_add_module :
  forall s pkg n parent s', Inv s -> guard_add_module s pkg n parent ->
                            step s (AddModule pkg n parent) = Some s' -> Inv s'.
Proof. exact step_add_module_inv. Qed.

(* ... the duplicate cases spelled out: a module of that name is registered, another one arrives. *)
Theorem C02_inv_dup_module :
  forall s pkg n q pq first s',
    Inv s -> reg s q -> ocl (store s q) = CPackage -> fullpath s q = Some pq ->
    rget (pq ++ [n]) (allobj s) = Some first -> replace_ok s pkg first ->
    step s (AddModule pkg n (Some q)) = Some s' -> Inv s'.
Proof.
  intros s pkg n q pq first s' HI Hq Hqp Hpq Hf Hcase H.
  apply (step_add_module_inv s pkg n (Some q) s' HI); [|exact H].
  cbn. split; [exact Hq|]. split; [exact Hqp|]. intros pq' first' Hpq' Hf'.
  rewrite Hpq in Hpq'. inversion Hpq'; subst pq'. rewrite Hf in Hf'. inversion Hf'; subst first'. exact Hcase.
Qed.
Theorem C02_inv_dup_root_module :
  forall s pkg n first s',
    Inv s -> rget [n] (allobj s) = Some first -> replace_ok s pkg first ->
    step s (AddModule pkg n None) = Some s' -> Inv s'.
Proof.
  intros s pkg n first s' HI Hf Hcase H. apply (step_add_module_inv s pkg n None s' HI); [|exact H].
  cbn. intros first' Hf'. rewrite Hf in Hf'. inversion Hf'; subst first'. exact Hcase.
Qed.

(* I4, derived: from every registered object the walk up `parent` ends -- the fuel does not run out -- in a member
   of rootobjects, which is an ancestor. *)
Theorem C02_inv_wellfounded :
  forall s o, Inv s -> reg s o -> exists r, root_of s o = Some r /\ In r (roots s) /\ anc (store s) r o.
Proof. exact inv_root_of. Qed.

(* I2, derived: every registered object is the value of its own full name, and full names are injective. *)
Theorem C02_inv_self_lookup :
  forall s o, Inv s -> reg s o -> exists p, fullpath s o = Some p /\ rget p (allobj s) = Some o.
Proof. intros s o HI Ho. exact (reg_self s HI o Ho). Qed.

(* The fuelled loops do not run out of fuel in a state that satisfies Inv: the walk down `contents` from a registered
   object (System._remove, readd, Documentable._handle_reparenting_pre and _post) terminates with the fuel at hand,
   and handleDuplicate's `while fullName + ' ' + str(i) in allobjects` finds a free index within len(allobjects)+1
   tries.  (fullName's walk up: clause I1 of Inv.)  What remains inside `step = None` are Python exceptions. *)
Theorem C02_fuel_walk_down : forall s a, Inv s -> reg s a -> exists T, subtree s a = Some T.
Proof. exact subtree_total. Qed.
Theorem C02_fuel_free_index :
  forall (m : registry) fn, exists i, find_free (S (length m)) (fun i => key_in (dup_key fn i) m) 0 = Some i.
Proof. exact find_free_total. Qed.

(* The executable guards imply the guards (so that `guarded` histories can be recognised by computation). *)
Theorem C02_guard_b_sound : forall s o, Inv s -> guard_b s o = true -> guard s o.
Proof. exact guard_b_sound. Qed.

(* Documentable.reparent (the re-export move: _handle_reparenting_pre, re-parent + rename, _handle_reparenting_post,
   del old_parent.contents[old_name], the alias, new_parent.contents[new_name] = self, _handle_reparenting_post
   again) preserves Inv under the guard: o is registered and is its parent's entry, the new parent is a registered
   module that is not inside the moved subtree, THE TARGET NAME IS FREE (no registry key new_parent.new_name:
   excludes C02_reparent_collision_refuted), nothing superseded lies below o (excludes the reparent variant of
   C02_dup_nested_refuted), and a module is only moved into a package (excludes C02_module_reexport_refuted). *)
Theorem C02_inv_reparent :
  forall s o np nn s', Inv s -> guard_reparent s o np nn -> step s (Reparent o np nn) = Some s' -> Inv s'.
Proof. exact step_reparent_inv. Qed.

(* A guarded operation does not raise (no KeyError from a `del`, no AssertionError, no ValueError, no
   RecursionError, fuel left): it completes, in a state that satisfies Inv again. *)
Theorem C02_step_total : forall s o, Inv s -> guard s o -> exists s', step s o = Some s' /\ Inv s'.
Proof. exact step_total_inv. Qed.

(* Inv after EVERY history whose operations satisfy their guards (induction over the history); that the
   operations complete is a consequence, not a hypothesis. *)
Theorem C02_inv_history : forall ops s, Inv s -> guarded_hist s ops -> exists s', guarded_run s ops s' /\ Inv s'.
Proof. exact guarded_hist_run. Qed.
Theorem C02_inv_history_run : forall s ops s', guarded_run s ops s' -> Inv s -> Inv s'.
Proof. exact history_inv. Qed.

(* ... in executable form: if run_ops reports that every executed operation satisfied guard_b, then no operation
   raised and the final state satisfies Inv.  The correspondence check evaluates exactly this premise on every
   generated history and then checks the property, and that nothing raised, on real pydoctor. *)
Theorem C02_inv_history_exec : forall ops s f, run_ops init ops 0 true = (s, f, true) -> f = None /\ Inv s.
Proof. intros ops s f H. exact (run_ops_guarded_total ops init 0 s f inv_init H). Qed.

(* The executable checker decides the invariant: what the harness computes on a dump IS Inv. *)
Theorem C02_inv_check_iff : forall s, inv_check s = true <-> Inv s.
Proof. exact inv_check_iff. Qed.

(* D2: after defaultPostProcess (run once: b has no subclasses recorded before), class c occurs in subclasses(b) exactly as often as b occurs in
   baseobjects(c) -- for registered classes c -- and nothing else occurs in subclasses(b). *)
Theorem C02_subclasses_inverse :
  forall s b, Inv s -> osubs (store s b) = [] ->
  forall c,
    (reg s c -> ocl (store s c) = CClass ->
     count_occ N.eq_dec (osubs (store (post_process s) b)) c = count_occ optid_dec (obases (store s c)) (Some b)) /\
    (~ (reg s c /\ ocl (store s c) = CClass) -> count_occ N.eq_dec (osubs (store (post_process s) b)) c = O).
Proof. exact subclasses_inverse. Qed.

(* D4, _partial: two different registered objects are never written to the same file, and no object is written to
   the file of a summary page -- PROVIDED no top-level module is named like a summary page (index, moduleIndex,
   classIndex, nameIndex, undoccedSummary, all-documents: C02_url_summary_collision_refuted).  File names are
   paths here; that quote() and the "."-join are injective on identifiers is part of the trusted base. *)
Theorem C02_url_injective_partial :
  forall s x y fx fy, Inv s -> reserved_free s -> reg s x -> reg s y -> x <> y ->
                      page_file s x = Some fx -> page_file s y = Some fy ->
                      fx <> fy /\ ~ In fx (summary_files s).
Proof.
  intros s x y fx fy HI Hr Hx Hy Hne Hfx Hfy. split.
  - exact (page_file_injective s x y fx fy HI Hr Hx Hy Hne Hfx Hfy).
  - exact (page_file_not_summary s x fx HI Hr Hx Hfx).
Qed.

(* D1 (corollary of C05: Proofs/MroProofs.v mro_c3_gen): read the hierarchy that compute_mro hands to mro.mro off
   the registry -- getbases(c) = the resolved base objects of c and, for each unresolved base, its name `ext c k`
   (any naming) -- then every successful linearisation of a registered class starts with the class, names nothing
   twice and contains each resolved base exactly once.  (Cyclic / inconsistent hierarchies: C05.) *)
Theorem C02_mro_shape :
  forall (cid : id -> cls) (ext : id -> nat -> cls), (forall a b, cid a = cid b -> a = b) ->
  forall s rank n c r, Inv s -> reg s c -> ocl (store s c) = CClass ->
    acyclic (hier_of cid ext s) rank -> mro n (hier_of cid ext s) (cid c) = MOk r ->
    hd_error r = Some (cid c) /\ NoDup r /\
    forall b, In (Some b) (obases (store s c)) -> count_occ N.eq_dec r (cid b) = 1%nat.
Proof. exact mro_shape. Qed.

(* D3: after zopeinterface.postProcess (from empty back-reference lists) x is in implementedby_directly of i exactly
   when x is one of the implementers and one of the names in its implements_directly resolves to the interface i;
   and it is listed once.  (Model/Implements.v; what find_object answers is an input.) *)
Theorem C02_implements_inverse :
  forall z L i x,
    (In x (zpost z L (fun _ => []) i) <-> In x L /\ implements z x i) /\ NoDup (zpost z L (fun _ => []) i).
Proof. exact implements_inverse. Qed.

(* ---- the tie to the source: harness/gen/gen_c02_code.py translates the CURRENT bodies of System.addObject,
   System.handleDuplicate (and its local function), System._remove, Documentable.reparent and
   Documentable._handle_reparenting_pre / _post statement by statement into Gen/RegistryCode.v (fail-closed, regenerated
   on every run); Model/RegistryIR.v interprets that code.  For EVERY state and EVERY argument the interpretation is the
   hand-written model.  (Failures -- Python exceptions, fuel -- are `None` on both sides; `oeq` is equality of the
   results up to pointwise equality of the store, a function.) ---- *)

(* System._remove(o), Documentable._handle_reparenting_pre(), the local readd(o) of handleDuplicate and
   Documentable._handle_reparenting_post(), started with the fuel of Registry.subtree *)
Theorem C02_code_walks_are_model :
  forall f o s,
    walker_ir registry_code (S (depthb s)) f [VObj o] s =
    match f with
    | FRemove | FPre => option_map (set_allobj s) (remove_tree s o)
    | FReadd | FPost => option_map (set_allobj s) (readd_tree s o)
    | _ => None
    end.
Proof. intros f o s. rewrite call_walker_eq. destruct f; reflexivity. Qed.
Theorem C02_code_remove_is_model :
  forall s o, walker_ir registry_code (S (depthb s)) FRemove [VObj o] s = option_map (set_allobj s) (remove_tree s o).
Proof. intros s o. exact (call_walker_eq FRemove o s). Qed.
Theorem C02_code_handleDuplicate_is_model :
  forall s ob fn, fullpath s ob = Some fn -> oeq (hd_ir registry_code s ob) (handle_duplicate s ob fn).
Proof. exact handle_duplicate_ir_eq. Qed.
Theorem C02_code_addObject_is_model : forall s ob, oeq (add_object_ir registry_code s ob) (add_object s ob).
Proof. exact add_object_ir_eq. Qed.
Theorem C02_code_reparent_is_model : forall s o np nn, oeq (reparent_ir registry_code s o np nn) (reparent s o np nn).
Proof. exact reparent_ir_eq. Qed.

(* ---- the guards cannot be dropped: genuine defects (known_findings/C02.json) ---- *)

(* class K: def f; def f  -- then class K again: the key of the superseded 'K.f 0' is not rewritten when K is
   renamed 'K 0' (the walks follow `contents`): allobjects['m.K.f 0'].fullName() = 'm.K 0.f 0'. *)
Theorem C02_dup_nested_refuted : exists ops, raised ops = None /\ ~ Inv (final ops).
Proof. exists ops_dup_nested. exact dup_nested_witness. Qed.

(* re-export of a class onto a name that the target also defines as a class with members: the members of the
   displaced class stay registered under a parent that is not registered. *)
Theorem C02_reparent_collision_refuted :
  exists ops, raised ops = None /\
              (exists o q, reg (final ops) o /\ oparent (store (final ops) o) = Some q /\ registered (final ops) q = false) /\
              ~ Inv (final ops).
Proof. exists ops_reparent_collision. exact reparent_collision_witness. Qed.

(* REPAIRED by 3d2c96f + f6d4b31.  On the code before the repairs (Registry.step_old) a top-level module replaced by a
   same-named one stayed in rootobjects, unregistered; on the repaired code the same history is guarded, satisfies
   Inv, and rootobjects holds the new module only. *)
Theorem C02_dup_root_old_refuted :
  exists ops, run_old init ops = Some (final_old ops) /\ In 0 (roots (final_old ops)) /\
              registered (final_old ops) 0 = false /\ ~ Inv (final_old ops).
Proof. exists ops_dup_root. exact dup_root_old_witness. Qed.
Theorem C02_dup_root_old_step_refuted :
  exists pre n, Inv (final pre) /\ step_old (final pre) (AddModule true n None) = Some (final_old (pre ++ [AddModule true n None])) /\
                ~ Inv (final_old (pre ++ [AddModule true n None])).
Proof. exists (removelast ops_dup_root), a_. exact dup_root_old_step. Qed.
Theorem C02_dup_root_repaired :
  run_ops init ops_dup_root 0 true = (final ops_dup_root, None, true) /\ Inv (final ops_dup_root) /\
  roots (final ops_dup_root) = [1].
Proof. exact dup_root_repaired. Qed.

(* a sub-module re-exported by a plain module ends up inside a module that is not a package. *)
Theorem C02_module_reexport_refuted : exists ops, raised ops = None /\ ~ Inv (final ops).
Proof. exists ops_module_reexport. exact module_reexport_witness. Qed.

(* The same four as single steps: `breaks pre o` = the state after the guarded history `pre` satisfies Inv, o does
   not satisfy its guard there, o completes, and the state after o does not satisfy Inv. *)
Theorem C02_dup_nested_step_refuted : exists pre o, breaks pre o.
Proof. eexists. eexists. exact dup_nested_step. Qed.
Theorem C02_reparent_collision_step_refuted : exists pre o np nn, breaks pre (Reparent o np nn).
Proof. eexists. eexists. eexists. eexists. exact reparent_collision_step. Qed.
Theorem C02_module_reexport_step_refuted : exists pre o np nn, breaks pre (Reparent o np nn).
Proof. eexists. eexists. eexists. eexists. exact module_reexport_step. Qed.

(* roots index, b, moduleIndex: a coherent tree (inv_check = true) in which the page of module `index` and the
   project index are one file. *)
Theorem C02_url_summary_collision_refuted :
  exists ops, raised ops = None /\ inv_check (final ops) = true /\
              (exists o f, reg (final ops) o /\ page_file (final ops) o = Some f /\ In f (summary_files (final ops))).
Proof. exists ops_summary_names. exact summary_collision_witness. Qed.

(* ---- non-vacuity: a guarded history with a duplicate definition, a dropped duplicate module, a re-export move,
        base classes and post-processing; the hypotheses of the derived-relation theorems hold in its final state ---- *)
Definition ex_ops : list op :=
  [AddModule true (1, []) None; AddModule true (2, []) (Some 0); AddChild CClass (3, []) 1 0;
   AddChild CFunction (4, []) 2 0; AddChild CClass (3, []) 1 0; AddChild CAttribute (4, []) 4 200;
   AddModule false (2, []) (Some 0); SetBases 4 [Some 2; None]; Reparent 4 0 (5, [])].
Example C02_hypotheses_satisfiable :
  run_ops init ex_ops 0 true = (final ex_ops, None, true) /\
  rget [(1, []); (2, []); (3, [0]); (4, [])] (allobj (final ex_ops)) = Some 3 /\
  rget [(1, []); (5, []); (4, [])] (allobj (final ex_ops)) = Some 5 /\
  osup (store (final ex_ops) 2) = true /\
  osubs (store (final ex_ops) 2) = [] /\ reserved_free (final ex_ops) /\
  osubs (store (post_process (final ex_ops)) 2) = [4].
Proof.
  split; [vm_compute; reflexivity|].
  split; [vm_compute; reflexivity|]. split; [vm_compute; reflexivity|]. split; [vm_compute; reflexivity|].
  split; [vm_compute; reflexivity|]. split.
  - intros r Hr. vm_compute in Hr. destruct Hr as [<-|[]]. vm_compute. reflexivity.
  - vm_compute. reflexivity.
Qed.
