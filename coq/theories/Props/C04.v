(* Props/C04.v -- C04: a name resolves to what Python would bind it to, or not at all.
   Only statements closed by `exact` (+ vm_compute witnesses); proofs live in
     Proofs/NamesProofs.v     relative-import arithmetic; Layer A = soundness of expandName in every state that
                              satisfies the registry / alias-map invariants `coherent`; soundness of the Spec evaluator
     Proofs/NamesInvProofs.v  well-formedness of projects, scope lemmas, entries written for import statements,
                              first version of Layer B (imports / definitions / classes only, no guard)
     Proofs/NamesRunProofs.v  Layer B for whole runs: imports of every form, definitions, nested classes, ALIAS
                              ASSIGNMENTS, BASE EXPRESSIONS and STAR IMPORTS from processed modules, every processing
                              order; the property-level corollary; Documentable.reparent (partial)
   Model: Model/Names.v (pydoctor astbuilder/model).  Spec: Spec/PyImport.v (CPython binding; relations py_ns, py_attr,
   py_abs and an evaluator proved sound for them).

   Reading guide.  `py_abs P q v` : the dotted name q, read as a Python expression over sys.modules, has value v.
   `py_ns P m qual n v` : the namespace of module m / class m.qual binds n to v.  `py_lookup P m qual dotted v` : in
   that namespace the (dotted) name has value v.  `denotes o v` : the pydoctor object o (identity = full name at
   definition) is the Python object v.  `wf_project P` : the quantifier's subset -- module paths closed under
   packages, each name bound once per scope (wf_body, W_sub, W_star).

   Guards, all computed by the model and all exact images of known findings:
     trail_ok st ctx true dotted   the walk of expandName binds the first part in ctx itself and never finds a later
                                   part (i) by falling back from a class to its enclosing scope [finding 3], (ii)
                                   through Class.find skipping an alias of an intermediate base [finding 4], or through
                                   a class whose body is still being visited;
     leak st = false               ghost flag of the run: every expansion performed DURING the run (alias right-hand
                                   side, base expression) stayed inside trail_ok with its first name found in the scope
                                   itself or -- for a class body that does not bind it -- in the module, no enclosing
                                   class knowing it [finding 2]; every star import was from a PROCESSED module (the
                                   cycle case is outside the property's quantifier); _handleReExport moved no object
                                   [finding 1: after a move, names imported from the defining module are stale];
     all_closed st = true          every module was processed (C01's theorem).
   The correspondence check reports how many generated runs satisfy leak = false / all_closed (evidence: distribution).

   The tie to the source (section 7): harness/gen/gen_c04_code.py translates, on every run, the CURRENT bodies of
   Module._localNameToFullName, Class._localNameToFullName, Class.find and Documentable.expandName into the language
   of Model/NamesIR.v (Gen/NamesCode.v); C04_code_*_is_model prove that interpreting them IS the model, for all inputs.

   What is NOT proved (tied by the correspondence check and the oracle only):
   - runs in which a re-export move FIRES are outside the whole-run theorems (the ghost flag is raised by the move;
     projects may list imported names in __all__, the guard is about the run).  What is proved about such runs:
     reparent keeps registry and alias maps sound (C04_reexport_keeps_soundness_partial), the module-alias path still
     resolves (C04_module_alias_resolves), and the refuted witness; threading moved paths (o_path <> o_id) through the
     run invariant (C_own, Class.find, "a closed namespace knows its names") is not mechanised;
   - completeness ("always resolves") from the project text: proved at the level of the state the visitor leaves
     (C04_direct_import_resolves, C04_module_alias_resolves) plus "a completely visited namespace knows every name
     Python binds in it" (inside C04_bound_name_sound);
   - classes have at most one base in the model; import cycles and rebinding are outside the quantifier. *)
From Coq Require Import NArith List Bool Arith.
From PydoctorVerif Require Import Base.ImportSyntax Model.Names Spec.PyImport Proofs.NamesProofs Proofs.NamesInvProofs
     Proofs.NamesRunProofs Model.NamesIR Gen.NamesCode Proofs.NamesIRProofs.
Import ListNotations.

(* 1. pydoctor's relative-import arithmetic (level-1 steps up from a package, level steps from a module, "too
   high" when it walks off the root) is importlib._bootstrap._resolve_name, for every module path, flag, level
   and module name -- including the error case. *)
Theorem C04_relative_level :
  forall (mpath : path) (is_pkg : bool) (level : nat) (modname : path),
    mpath <> [] -> import_base mpath is_pkg level modname = resolve_relative mpath is_pkg level modname.
Proof. exact relative_level. Qed.

(* 2. Every alias-map entry that visit_Import / _importNames write for an import statement of a namespace
   (module or class body) is, read as an absolute Python expression, the object or module CPython binds the local
   name to: `import a.b` -> a |-> "a"; `import a.b as c` -> c |-> "a.b"; `from [..]X import n [as k]` ->
   k |-> "<X resolved>.n" (plain, aliased and relative).  For every well-formed project and every scope. *)
Theorem C04_alias_map_sound :
  forall P, wf_project P ->
  forall m qual body mm, scope_body P m qual = Some body -> wf_body body -> find_module P m = Some mm ->
    (forall a t, In (SImport (a :: t) None) body ->
       forall v, py_attr P (scope_val m qual) a v -> py_abs P [a] v) /\
    (forall c t, In (SImport t (Some c)) body ->
       forall v, py_attr P (scope_val m qual) c v -> py_abs P t v) /\
    (forall level modname names orig asname X,
       In (SFrom level modname names) body -> In (orig, asname) names ->
       import_base m (m_pkg mm) level modname = Some X ->
       forall v, py_attr P (scope_val m qual) (bound_of (orig, asname)) v -> py_abs P (X ++ [orig]) v).
Proof.
  intros P WF m qual body mm Hsb Hwf Hfm. split; [|split].
  - intros a t Hin. exact (proj1 (entry_import_top P WF m qual body a t Hsb Hwf Hin)).
  - intros c t Hin. exact (proj1 (entry_import_as P WF m qual body c t Hsb Hwf Hin)).
  - intros level modname names orig asname X Hin Hin2 Hib.
    exact (proj1 (entry_from P WF m qual body mm level modname names orig asname X Hsb Hwf Hfm Hin Hin2 Hib)).
Qed.

(* 3. Soundness of expandName / resolveName (induction on the dotted parts; invariant: the object reached so far
   is what Python evaluated the prefix to).  For EVERY state satisfying the invariants `coherent` (registry sound,
   alias entries sound, class members owned by the class, Class.find sound): whenever the name is bound at run
   time, the dotted name expandName returns denotes the same value, hence resolveName never returns another object. *)
Theorem C04_expand_sound :
  forall P st, coherent P st ->
  forall ctx m qual dotted v,
    In ctx (objs st) -> py_abs P (o_path ctx) (scope_val m qual) ->
    py_lookup P m qual dotted v ->
    trail_ok st ctx true dotted = true ->
    py_abs P (expand_name st ctx dotted) v /\
    (forall o, resolve_name st ctx dotted = Some o -> denotes o v).
Proof.
  intros P st Hc ctx m qual dotted v Hin Habs Hpy Hok. split.
  - eapply expand_sound; eassumption.
  - intros o Hr. eapply resolve_sound; eassumption.
Qed.

(* 3a. Enclosing scope of a class body: a name that the body of a class directly inside a module does not bind is
   looked up in the module by pydoctor (Class._localNameToFullName -> parent) as by Python (LOAD_NAME: class
   namespace, then module globals); this is the lookup behind base-class expressions and `x = y.z` in class bodies. *)
Theorem C04_expand_sound_class_scope :
  forall P st, coherent P st ->
  forall ctx pm m qual p rest v,
    In ctx (objs st) -> o_kind ctx = KClass -> o_path ctx <> [] -> qual <> [] ->
    parent_of st ctx = Some pm -> In pm (objs st) -> o_kind pm <> KClass ->
    py_abs P (o_path pm) (VMod m) ->
    child st ctx p = None -> assoc p (o_amap ctx) = None ->
    (forall body, scope_body P m qual = Some body -> binder_of body p = None) ->
    py_lookup P m qual (p :: rest) v ->
    trail_ok st pm true (p :: rest) = true ->
    py_abs P (expand_name st ctx (p :: rest)) v.
Proof. exact expand_sound_class_fallback. Qed.

(* 3b. ... and the invariants DO hold after pydoctor has processed any well-formed project made of import
   statements of every form (plain, `as`, `from`, relative, inside class bodies, package re-imports), function
   and class definitions (nested), under every processing order: whole-project soundness on that subset.
   (_partial: alias assignments, base expressions, `import *` and re-exports are excluded by simple_project /
   wf_project; see the header.) *)
Theorem C04_expand_sound_project_partial :
  forall P order ctx m qual dotted v o,
    wf_project P -> simple_project P = true -> no_reexport P ->
    let st := final_state P order in
    In ctx (objs st) -> py_abs P (o_path ctx) (scope_val m qual) ->
    py_lookup P m qual dotted v ->
    trail_ok st ctx true dotted = true ->
    resolve_name st ctx dotted = Some o ->
    denotes o v.
Proof. exact expand_sound_project. Qed.

Theorem C04_invariants_established_partial :
  forall P order, wf_project P -> simple_project P = true -> no_reexport P -> coherent P (final_state P order).
Proof. intros P order WF S NX. exact (final_coherent P WF S NX order). Qed.

(* 3c. Whole runs WITH alias assignments (`x = y.z`, module and class level), base-class expressions and star imports:
   for every well-formed project and every processing order, if no expansion performed during the run left the guard
   (ghost flag `leak` of the model: right-hand sides and base expressions are expanded inside `trail_ok`, first name
   found in the scope itself or -- for a class body that does not bind it -- in the module with no enclosing class
   knowing it; star imports from processed modules only; no re-export move), the invariants hold in the final state;
   hence resolveName is sound there.
   The proof mechanises "a namespace whose body has been visited completely knows every name Python binds in it". *)
Theorem C04_run_establishes_invariants :
  forall P order, wf_project P ->
    leak (final_state P order) = false -> coherent P (final_state P order).
Proof. intros P order WF. exact (run_coherent P WF order). Qed.

Theorem C04_expand_sound_run :
  forall P order ctx m qual dotted v o,
    wf_project P ->
    let st := final_state P order in
    leak st = false ->
    In ctx (objs st) -> py_abs P (o_path ctx) (scope_val m qual) ->
    py_lookup P m qual dotted v ->
    trail_ok st ctx true dotted = true ->
    resolve_name st ctx dotted = Some o ->
    denotes o v.
Proof.
  intros P order ctx m qual dotted v o WF st Hl Hin Habs Hpy Hok Hres.
  eapply resolve_sound; try eassumption. apply run_coherent; assumption.
Qed.

(* 3d. THE PROPERTY, in the shape of its text, for whole runs: in any module or class namespace (m, qual), for every
   name n that Python binds there (py_ns), if pydoctor resolves n in that namespace to an object, it is the object
   Python binds.  Guards: well-formed project (wf_project), the run never left the guard (leak = false: exactly the
   fallbacks of the _refuted theorems 1-4 -- re-export move, nested class capture, and, for the expansions done during
   the run, class-attribute fallback and Class.find skipping an alias -- and star imports from unprocessed modules), and
   every module was processed (all_closed; C01's theorem).  For dotted names add trail_ok (C04_expand_sound_run). *)
Theorem C04_bound_name_sound :
  forall P order m qual n v o,
    wf_project P ->
    let st := final_state P order in
    leak st = false -> all_closed st = true ->
    py_ns P m qual n v ->
    resolve_in st (m ++ qual) [n] = Some o ->
    denotes o v.
Proof. intros P order m qual n v o WF. exact (bound_name_sound P WF order m qual n v o). Qed.

(* 4. `from X import *` (module processed at the time of the import): the entry _importAll writes for a name n
   that the imported module itself binds, `expandName(n)` evaluated in that module, denotes X.n -- which is what
   CPython's star import binds n to.  (_partial: names reaching the importer only because X lists them in __all__
   without binding them, and the PROCESSING (cycle) case, are outside.) *)
Theorem C04_star_sound_partial :
  forall P st, coherent P st ->
  forall mo X n v,
    In mo (objs st) -> py_abs P (o_path mo) (VMod X) -> py_ns P X [] n v ->
    own st mo n = true ->
    py_abs P (expand_name st mo [n]) v.
Proof.
  intros P st Hc mo X n v Hin Habs Hns Hown.
  eapply (expand_sound P st Hc mo X [] [n] v); try eassumption.
  - unfold py_lookup. econstructor; [apply pn_own; exact Hns | constructor].
  - cbn [trail_ok]. rewrite Hown. cbn [negb andb]. rewrite andb_false_r. reflexivity.
Qed.

(* 5. Names that always resolve, at the level of the state the visitor leaves behind.
   (a) a name whose alias entry points at a registered full name resolves to that object: this is the case of
       `from <defining module> import <name>` as long as the object still lives under "<defining module>.<name>". *)
Theorem C04_direct_import_resolves :
  forall st ctx k q o,
    child st ctx k = None -> assoc k (o_amap ctx) = Some q -> obj_for st q = Some o ->
    resolve_name st ctx [k] = Some o.
Proof. exact direct_import_resolves. Qed.

(* (b) through a module alias (`import X as k` / `from P import S as k`), k.n resolves to the member n of X -- and
       also when n has been moved away by a re-export, through the alias that reparent leaves in X: no guard. *)
Theorem C04_module_alias_resolves :
  forall st ctx k X mo n o,
    child st ctx k = None -> assoc k (o_amap ctx) = Some X -> obj_for st X = Some mo -> X <> [] ->
    (child st mo n = Some o \/
     (child st mo n = None /\
      exists q, assoc n (o_amap mo) = Some q /\ path_eqb q [n] = false /\ obj_for st q = Some o)) ->
    resolve_name st ctx [k; n] = Some o.
Proof. exact module_alias_resolves. Qed.

(* 6. Re-exports (partial): Documentable.reparent, as _handleReExport uses it -- a top-level definition x of module D
   moved into the re-exporting module R under the name n, R saying `from <D> import x [as n]` -- keeps the registry
   and every alias map sound (the state-independent half of `coherent`), including the alias left behind in D.  *)
Theorem C04_reexport_keeps_soundness_partial :
  forall P, wf_project P ->
  forall st ob cur oldpar R n D x,
    sound_objs P st -> reexp P R n D x ->
    parent_of st ob = Some oldpar -> o_path ob = D ++ [x] -> o_path cur = R ->
    (forall o, In o (objs st) -> o_id o = o_id oldpar -> o_path o = D) ->
    sound_objs P (reparent st ob cur n).
Proof. intros P WF. exact (reexport_sound P WF). Qed.

(* 7. The model IS the code.  The four bodies below are translated statement by statement from the CURRENT
   pydoctor/model.py (fail-closed translator; Gen/NamesCode.v is regenerated on every run) and interpreted by
   Model/NamesIR.v; primitives (dict lookups, fullName, parent, objForFullName, isinstance, mro) and the calls to the
   OTHER translated methods are the stated assumptions of Model/NamesIR.v.  A behavioural edit of a body breaks the
   corresponding obligation; a behaviour-preserving rewrite still proves (symbolic execution + loop rules). *)
Theorem C04_code_module_l2f_is_model : forall st o n fuel cl cf cm,
  is_modkind (o_kind o) = true ->
  run_body st o (VStr [n]) cl cf cm code_module_l2f fuel = RReturn (VStr (l2f st o n)).
Proof. exact code_module_l2f_is_model. Qed.

Theorem C04_code_class_l2f_is_model : forall st o par n fuel cf cm,
  o_kind o = KClass -> parent_of st o = Some par ->
  run_body st o (VStr [n]) (l2f st) cf cm code_class_l2f fuel = RReturn (VStr (l2f st o n)).
Proof. exact code_class_l2f_is_model. Qed.

Theorem C04_code_find_is_model : forall st o n f fuel cl cf,
  run_body st o (VStr [n]) cl cf (mro_chain f st) code_find fuel = RReturn (of_opt_obj (find_member f st o n)).
Proof. exact code_find_is_model. Qed.

Theorem C04_code_expand_name_is_model : forall st ctx dotted fuel,
  dotted <> [] -> (length dotted <= fuel)%nat ->
  run_body st ctx (VStr dotted) (l2f st) (cfind st) (fun _ => []) code_expand_name fuel
  = RReturn (VStr (expand_name st ctx dotted)).
Proof. exact code_expand_name_is_model. Qed.

(* ... hence the property-level theorem holds of the TRANSLATED expandName: what the code returns for a name Python
   binds in a namespace, looked up in allobjects (resolveName = objForFullName(expandName(name)), pinned by the
   translator), is the Python object or nothing *)
Theorem C04_code_bound_name_sound :
  forall P order m qual n v ctx q o,
    wf_project P ->
    let st := final_state P order in
    leak st = false -> all_closed st = true ->
    py_ns P m qual n v ->
    obj_for st (m ++ qual) = Some ctx ->
    run_body st ctx (VStr [n]) (l2f st) (cfind st) (fun _ => []) code_expand_name 1 = RReturn (VStr q) ->
    obj_for st q = Some o ->
    denotes o v.
Proof.
  intros P order m qual n v ctx q o WF st Hl Hc Hns Hctx Hrun Hq.
  rewrite (code_expand_name_is_model st ctx [n] 1) in Hrun; [|discriminate|cbn; auto].
  inversion Hrun; subst q.
  apply (C04_bound_name_sound P order m qual n v o WF Hl Hc Hns).
  unfold resolve_in. fold st. rewrite Hctx. exact Hq.
Qed.

(* ------------------------------------------------------------------------------------------------------------
   Witnesses.  Atoms: even = public identifier, odd = identifier starting with '_'. *)
Local Open Scope N_scope.
Definition mk (p : path) (pkg : bool) (al : option (list name)) (b : list stmt) : module_src :=
  {| m_path := p; m_pkg := pkg; m_all := al; m_body := b |}.

(* (5a) without its guard is FALSE of pydoctor as it is: DESIGN.md 7.3.
     pkg/__init__.py : from ._impl import Foo ; __all__ = ['Foo']         pkg=2 _impl=3 Foo=4
     pkg/_impl.py    : class Foo: pass
     cons.py         : from pkg._impl import Foo ; class X(Foo): pass      cons=6 X=8
   Foo is imported directly from the module that defines it, Python binds cons.Foo to pkg._impl.Foo, and pydoctor's
   resolveName('Foo') in cons is None (under this and every other order: see the correspondence check), because
   _handleReExport moved the object to pkg.Foo and expandName stops at the stale string "pkg._impl.Foo". *)
Definition w1 : project :=
  [ mk [2] true (Some [4]) [SFrom 1 [3] [(4, None)]];
    mk [2;3] false None [SClass 4 None []];
    mk [6] false None [SFrom 0 [2;3] [(4, None)]; SClass 8 (Some [4]) []] ].

Theorem C04_direct_import_resolves_refuted :
  exists P order ctx X n,
    (exists mc, find_module P ctx = Some mc /\ In (SFrom 0 X [(n, None)]) (m_body mc)) /\
    (exists md base body, find_module P X = Some md /\ In (SClass n base body) (m_body md)) /\
    py_lookup P ctx [] [n] (VObj X [n]) /\
    resolve_in (final_state P order) ctx [n] = None /\
    (* the object exists, under the re-exporter's name: *)
    (exists o, obj_for (final_state P order) [2; 4] = Some o /\ o_id o = X ++ [n]).
Proof.
  exists w1, [[6]; [2]; [2;3]], [6], [2;3], 4.
  split; [|split; [|split; [|split]]].
  - eexists. split; [reflexivity | cbn; auto].
  - eexists. exists None, []. split; [reflexivity | cbn; auto].
  - apply (ev_sound w1 20%nat (REval [6] [] [4])). vm_compute. reflexivity.
  - vm_compute. reflexivity.
  - eexists. split; vm_compute; reflexivity.
Qed.

(* A class nested in a class sees its ENCLOSING CLASS scope in pydoctor, never in Python:
     m.py:  class A0: pass ; class B0: pass ; x = A0                       m=2 A0=4 B0=6 x=8
            class Out:  x = B0 ;  class In:  y = x                         Out=10 In=12 y=14
   In the namespace m.Out.In the name y is A0 at run time; pydoctor resolves it to B0. *)
Definition w2 : project :=
  [ mk [2] false None [SClass 4 None []; SClass 6 None []; SAlias 8 [4];
                       SClass 10 None [SAlias 8 [6]; SClass 12 None [SAlias 14 [8]]]] ].

Theorem C04_nested_class_scope_refuted :
  exists P order m qual dotted o v,
    resolve_in (final_state P order) (m ++ qual) dotted = Some o /\
    py_lookup P m qual dotted v /\ o_id o <> flat v.
Proof.
  exists w2, [[2]], [2], [10; 12], [14].
  destruct (resolve_in (final_state w2 [[2]]) ([2] ++ [10; 12]) [14]) as [o|] eqn:E; [|vm_compute in E; discriminate].
  exists o, (VObj [2] [4]). split; [exact E|split].
  - apply (ev_sound w2 20%nat (REval [2] [10; 12] [14])). vm_compute. reflexivity.
  - vm_compute in E. inversion E; subst. vm_compute. discriminate.
Qed.

(* expandName('C.helper') looks in C, then in the MODULE around C, and only then in C's bases:
     d.py: def helper(): ... ; def thing(): ...                           d=2 helper=4 thing=6
     b.py: import d ; class Base: helper = d.thing                        b=8 Base=10
     m.py: from d import helper ; from b import Base ; class C(Base): pass   m=12 C=14
   In m, C.helper is d.thing at run time (inherited); pydoctor resolves it to d.helper. *)
Definition w3 : project :=
  [ mk [2] false None [SDef 4; SDef 6];
    mk [8] false None [SImport [2] None; SClass 10 None [SAlias 4 [2;6]]];
    mk [12] false None [SFrom 0 [2] [(4, None)]; SFrom 0 [8] [(10, None)]; SClass 14 (Some [10]) []] ].

Theorem C04_class_attr_scope_refuted :
  exists P order m qual dotted o v,
    resolve_in (final_state P order) (m ++ qual) dotted = Some o /\
    py_lookup P m qual dotted v /\ o_id o <> flat v.
Proof.
  exists w3, [[12]; [8]; [2]], [12], [], [14; 4].
  destruct (resolve_in (final_state w3 [[12]; [8]; [2]]) ([12] ++ []) [14; 4]) as [o|] eqn:E; [|vm_compute in E; discriminate].
  exists o, (VObj [2] [6]). split; [exact E|split].
  - apply (ev_sound w3 20%nat (REval [12] [] [14; 4])). vm_compute. reflexivity.
  - vm_compute in E. inversion E; subst. vm_compute. discriminate.
Qed.

(* Class.find looks at `contents` only: an alias assignment in an intermediate base class is skipped.
     m.py: class Other: pass ; class Base2: def n(self) ; class Base1(Base2): n = Other ; class C(Base1): pass
                                                                          m=2 Other=4 Base2=6 n=8 Base1=10 C=12
   In m, C.n is Other at run time (Base1 rebinds n); pydoctor resolves it to Base2.n. *)
Definition w4 : project :=
  [ mk [2] false None [SClass 4 None []; SClass 6 None [SDef 8]; SClass 10 (Some [6]) [SAlias 8 [4]];
                       SClass 12 (Some [10]) []] ].

Theorem C04_find_skips_alias_refuted :
  exists P order m qual dotted o v,
    resolve_in (final_state P order) (m ++ qual) dotted = Some o /\
    py_lookup P m qual dotted v /\ o_id o <> flat v.
Proof.
  exists w4, [[2]], [2], [], [12; 8].
  destruct (resolve_in (final_state w4 [[2]]) ([2] ++ []) [12; 8]) as [o|] eqn:E; [|vm_compute in E; discriminate].
  exists o, (VObj [2] [4]). split; [exact E|split].
  - apply (ev_sound w4 20%nat (REval [2] [] [12; 8])). vm_compute. reflexivity.
  - vm_compute in E. inversion E; subst. vm_compute. discriminate.
Qed.

(* both witnesses are excluded by the guard of C04_expand_sound *)
Example C04_refuted_witnesses_fail_the_guard :
  (match obj_for (final_state w3 [[12]; [8]; [2]]) [12] with
   | Some c => trail_ok (final_state w3 [[12]; [8]; [2]]) c true [14; 4]
   | None => true
   end) = false.
Proof. vm_compute. reflexivity. Qed.

(* ------------------------------------------------------------------------------------------------------------
   Non-vacuity: a package with a relative import, a consumer with a renamed from-import and a module alias.
     p/__init__.py: from .m import Foo          p=2 m=4 Foo=6 meth=8
     p/m.py       : class Foo:  def meth(self)
     c.py         : from p.m import Foo as F ; import p.m as pm           c=10 F=12 pm=14 *)
Definition e0 : project :=
  [ mk [2] true None [SFrom 1 [4] [(6, None)]];
    mk [2;4] false None [SClass 6 None [SDef 8]];
    mk [10] false None [SFrom 0 [2;4] [(6, Some 12)]; SImport [2;4] (Some 14)] ].

Ltac split_eqb :=
  repeat match goal with
         | H : context[N.eqb ?a ?n] |- _ => destruct (N.eqb_spec a n); subst; cbn -[N.eqb] in H
         | |- context[N.eqb ?a ?n] => destruct (N.eqb_spec a n); subst; cbn -[N.eqb]
         end.
Ltac in_cases H :=
  cbn in H; repeat (destruct H as [H | H]; [try (inversion H; subst; clear H) | ]); try (destruct H).
Ltac wf_body_tac :=
  repeat (constructor;
    [ let s := fresh "s" in let n := fresh "n" in let b := fresh "b" in let Hi := fresh "Hi" in let Hs := fresh "Hs" in
      intros s n b Hi Hs; in_cases Hi; cbn -[N.eqb] in Hs; cbn -[N.eqb]; split_eqb; try discriminate; try congruence; try exact Hs
    | let Hi := fresh "Hi" in intros ? ? ? Hi; in_cases Hi; repeat constructor; cbn; intuition discriminate
    | let Hi := fresh "Hi" in intros ? ? ? Hi; in_cases Hi ]).

Example C04_example_wf : wf_project e0 /\ simple_project e0 = true /\ no_reexport e0.
Proof.
  split; [|split; [reflexivity | intros mm n H Hn; in_cases H; cbn in Hn; reflexivity]]. constructor.
  - cbn. repeat constructor; cbn; intuition discriminate.
  - intros mm H. in_cases H; discriminate.
  - intros mm H. in_cases H; reflexivity.
  - intros mm q n H Hp Hq. in_cases H; cbn in Hp.
    + destruct q as [|? [|? ?]]; try discriminate; congruence.
    + destruct q as [|a [|? ?]]; cbn in Hp; try discriminate; try congruence.
      * inversion Hp; subst. eexists. split; reflexivity.
      * inversion Hp. destruct l; discriminate.
    + destruct q as [|? [|? ?]]; try discriminate; congruence.
  - intros pm n H Hm. in_cases H; unfold is_module, find_module in Hm; cbn -[N.eqb] in Hm; split_eqb; try discriminate; reflexivity.
  - intros mm H. in_cases H; cbn; wf_body_tac.
  - intros mm level modname X n H Hs. in_cases H; in_cases Hs.
  - intros mm H. in_cases H; reflexivity.
Qed.

(* all hypotheses of C04_expand_sound_project_partial hold for c.py and the names `F` and `pm.Foo.meth`,
   and the theorem's conclusion is the expected object *)
Example C04_hypotheses_satisfiable :
  let st := final_state e0 [[10]; [2]; [2;4]] in
  exists ctx o1 o2,
    In ctx (objs st) /\ py_abs e0 (o_path ctx) (scope_val [10] []) /\
    py_lookup e0 [10] [] [12] (VObj [2;4] [6]) /\ trail_ok st ctx true [12] = true /\
    resolve_name st ctx [12] = Some o1 /\ o_id o1 = [2;4;6] /\
    py_lookup e0 [10] [] [14;6;8] (VObj [2;4] [6;8]) /\ trail_ok st ctx true [14;6;8] = true /\
    resolve_name st ctx [14;6;8] = Some o2 /\ o_id o2 = [2;4;6;8] /\
    denotes o1 (VObj [2;4] [6]) /\ denotes o2 (VObj [2;4] [6;8]).
Proof.
  intro st.
  destruct (obj_for st [10]) as [ctx|] eqn:Ectx; [|vm_compute in Ectx; discriminate].
  destruct (resolve_name st ctx [12]) as [o1|] eqn:E1;
    [|vm_compute in Ectx; inversion Ectx; subst; vm_compute in E1; discriminate].
  destruct (resolve_name st ctx [14;6;8]) as [o2|] eqn:E2;
    [|vm_compute in Ectx; inversion Ectx; subst; vm_compute in E2; discriminate].
  pose proof (obj_for_some _ _ _ Ectx) as [Hin Hp].
  assert (Habs : py_abs e0 (o_path ctx) (scope_val [10] [])).
  { rewrite Hp. apply (ev_abs_sound e0 20%nat [10]). reflexivity. }
  assert (Hl1 : py_lookup e0 [10] [] [12] (VObj [2;4] [6])).
  { apply (ev_sound e0 20%nat (REval [10] [] [12])). vm_compute. reflexivity. }
  assert (Hl2 : py_lookup e0 [10] [] [14;6;8] (VObj [2;4] [6;8])).
  { apply (ev_sound e0 20%nat (REval [10] [] [14;6;8])). vm_compute. reflexivity. }
  assert (Ht1 : trail_ok st ctx true [12] = true).
  { vm_compute in Ectx. inversion Ectx; subst. vm_compute. reflexivity. }
  assert (Ht2 : trail_ok st ctx true [14;6;8] = true).
  { vm_compute in Ectx. inversion Ectx; subst. vm_compute. reflexivity. }
  assert (Hd1 : denotes o1 (VObj [2;4] [6])).
  { apply (C04_expand_sound_project_partial e0 [[10]; [2]; [2;4]] ctx [10] [] [12] _ o1
             (proj1 C04_example_wf) (proj1 (proj2 C04_example_wf)) (proj2 (proj2 C04_example_wf)) Hin Habs Hl1 Ht1 E1). }
  assert (Hd2 : denotes o2 (VObj [2;4] [6;8])).
  { apply (C04_expand_sound_project_partial e0 [[10]; [2]; [2;4]] ctx [10] [] [14;6;8] _ o2
             (proj1 C04_example_wf) (proj1 (proj2 C04_example_wf)) (proj2 (proj2 C04_example_wf)) Hin Habs Hl2 Ht2 E2). }
  exists ctx, o1, o2.
  split; [exact Hin|]. split; [exact Habs|]. split; [exact Hl1|]. split; [exact Ht1|].
  split; [exact E1|]. split; [exact (proj1 Hd1)|].
  split; [exact Hl2|]. split; [exact Ht2|]. split; [exact E2|]. split; [exact (proj1 Hd2)|].
  split; assumption.
Qed.

(* ... while through a module alias the re-exported class of the refuted witness IS reached (alias left by reparent):
     cons.py: from pkg._impl import Foo ; import pkg._impl as i           i=10      i.Foo resolves, Foo does not *)
Definition w1b : project :=
  [ mk [2] true (Some [4]) [SFrom 1 [3] [(4, None)]];
    mk [2;3] false None [SClass 4 None []];
    mk [6] false None [SFrom 0 [2;3] [(4, None)]; SImport [2;3] (Some 10)] ].

Example C04_module_alias_after_reexport :
  option_map o_id (resolve_in (final_state w1b [[6]; [2]; [2;3]]) [6] [10; 4]) = Some [2;3;4] /\
  resolve_in (final_state w1b [[6]; [2]; [2;3]]) [6] [4] = None.
Proof. split; vm_compute; reflexivity. Qed.

(* non-vacuity of 3c: aliases at module and class level, a base expression through a module alias, an inherited member
     d.py: class Base: def inh(self)                          d=2 Base=4 inh=6
     c.py: import d as dd ; class Sub(dd.Base): al = dd.Base.inh ; x = Sub.inh      c=8 dd=10 Sub=12 al=14 x=16 *)
Definition e1 : project :=
  [ mk [2] false None [SClass 4 None [SDef 6]];
    mk [8] false None [SImport [2] (Some 10); SClass 12 (Some [10; 4]) [SAlias 14 [10; 4; 6]]; SAlias 16 [12; 6]] ].

Example C04_example_run_wf : wf_project e1 /\ no_star e1 = true /\ leak (final_state e1 [[2]; [8]]) = false.
Proof.
  split; [|split; reflexivity]. constructor.
  - cbn. repeat constructor; cbn; intuition discriminate.
  - intros mm H. in_cases H; discriminate.
  - intros mm H. in_cases H; reflexivity.
  - intros mm q n H Hp Hq. in_cases H; cbn in Hp; destruct q as [|? [|? ?]]; try discriminate; congruence.
  - intros pm n H Hm. in_cases H; unfold is_module, find_module in Hm; cbn -[N.eqb] in Hm; split_eqb; try discriminate; reflexivity.
  - intros mm H. in_cases H; cbn; wf_body_tac.
  - intros mm level modname X n H Hs. in_cases H; in_cases Hs.
  - intros mm H. in_cases H; reflexivity.
Qed.

Example C04_example_run :
  let st := final_state e1 [[2]; [8]] in
  exists ctx o, obj_for st [8] = Some ctx /\ resolve_name st ctx [16] = Some o /\ denotes o (VObj [2] [4; 6]).
Proof.
  intro st.
  destruct (obj_for st [8]) as [ctx|] eqn:Ectx; [|vm_compute in Ectx; discriminate].
  destruct (resolve_name st ctx [16]) as [o|] eqn:E1;
    [|vm_compute in Ectx; inversion Ectx; subst; vm_compute in E1; discriminate].
  exists ctx, o. split; [reflexivity|]. split; [exact E1|].
  pose proof (obj_for_some _ _ _ Ectx) as [Hin Hp].
  destruct C04_example_run_wf as [WF [NS Hl]].
  apply (C04_expand_sound_run e1 [[2]; [8]] ctx [8] [] [16] _ o WF Hl Hin).
  - rewrite Hp. apply (ev_abs_sound e1 20%nat [8]). reflexivity.
  - apply (ev_sound e1 20%nat (REval [8] [] [16])). vm_compute. reflexivity.
  - vm_compute in Ectx. inversion Ectx; subst. vm_compute. reflexivity.
  - exact E1.
Qed.

(* non-vacuity with a star import:   lib.py: class Pub ; class _Priv          lib=2 Pub=4 _Priv=5
                                     c.py  : from lib import * ; class S(Pub)   c=6 S=8 *)
Definition e2 : project :=
  [ mk [2] false None [SClass 4 None []; SClass 5 None []];
    mk [6] false None [SStar 0 [2]; SClass 8 (Some [4]) []] ].

Example C04_example_star_wf :
  wf_project e2 /\ leak (final_state e2 [[6]; [2]]) = false /\ all_closed (final_state e2 [[6]; [2]]) = true.
Proof.
  split; [|split; reflexivity]. constructor.
  - cbn. repeat constructor; cbn; intuition discriminate.
  - intros mm H. in_cases H; discriminate.
  - intros mm H. in_cases H; reflexivity.
  - intros mm q n H Hp Hq. in_cases H; cbn in Hp; destruct q as [|? [|? ?]]; try discriminate; congruence.
  - intros pm n H Hm. in_cases H; unfold is_module, find_module in Hm; cbn -[N.eqb] in Hm; split_eqb; try discriminate; reflexivity.
  - intros mm H. in_cases H; cbn; wf_body_tac.
  - intros mm level modname X n H Hs Hr Hc. in_cases H; in_cases Hs.
    cbn in Hr. inversion Hr; subst X.
    assert (Hn : n = 4%N).
    { unfold star_cand in Hc. apply andb_true_iff in Hc. destruct Hc as [Hex Hev].
      change (find_module e2 [2]) with (Some (mk [2] false None [SClass 4 None []; SClass 5 None []])) in Hev.
      cbn [m_all m_body mk is_some orb] in Hev.
      change (is_module e2 ([2] ++ [n])) with false in Hev.
      change (top_has_star [SClass 4 None []; SClass 5 None []]) with false in Hev. rewrite !orb_false_r in Hev.
      destruct (binder_of [SClass 4 None []; SClass 5 None []] n) as [b|] eqn:Eb; [|discriminate].
      destruct (binder_of_in _ _ _ Eb) as [s0 [Hs0 Hb0]]. in_cases Hs0; cbn -[N.eqb] in Hb0.
      - destruct (N.eqb_spec 4 n); [auto | discriminate].
      - destruct (N.eqb_spec 5 n) as [E5|]; [|discriminate]. subst n. vm_compute in Hex. discriminate. }
    subst n. repeat split; try reflexivity.
    intros l' mn' X' Hs' Hr' _. in_cases Hs'. cbn in Hr'. congruence.
  - intros mm H. in_cases H; reflexivity.
Qed.

(* the property-level corollary applies: the star-imported name Pub in c resolves to lib.Pub *)
Example C04_example_star :
  exists o, resolve_in (final_state e2 [[6]; [2]]) ([6] ++ []) [4] = Some o /\ denotes o (VObj [2] [4]).
Proof.
  destruct (resolve_in (final_state e2 [[6]; [2]]) ([6] ++ []) [4]) as [o|] eqn:E; [|vm_compute in E; discriminate].
  exists o. split; [reflexivity|].
  destruct C04_example_star_wf as [WF [Hl Hc]].
  apply (C04_bound_name_sound e2 [[6]; [2]] [6] [] 4 _ o WF Hl Hc); [|exact E].
  apply (ev_sound e2 20%nat (RNs [6] [] 4)). vm_compute. reflexivity.
Qed.

(* the run guard is exact about finding 1: the re-export witness raises the flag, and a project that lists an imported
   name in __all__ WITHOUT a move (the origin exports it itself) does not
     r.py: from d import Foo ; __all__ = ['Foo']       d.py: class Foo ; __all__ = ['Foo']         r=2 d=4 Foo=6 *)
Definition e3 : project :=
  [ mk [2] false (Some [6]) [SFrom 0 [4] [(6, None)]];
    mk [4] false (Some [6]) [SClass 6 None []] ].

Example C04_run_guard_and_reexports :
  leak (final_state w1 [[6]; [2]; [2;3]]) = true /\
  leak (final_state e3 [[2]; [4]]) = false /\
  option_map o_id (resolve_in (final_state e3 [[2]; [4]]) [2] [6]) = Some [4; 6].
Proof. repeat split; vm_compute; reflexivity. Qed.
