(* Props/C04.v -- C04: a name resolves to what Python would bind it to, or not at all.
   Only statements closed by `exact` (+ vm_compute witnesses); proofs live in Proofs/NamesProofs.v (relative-import
   arithmetic, Layer A: soundness of expandName in every state satisfying the registry / alias-map invariants,
   soundness of the Spec evaluator) and Proofs/NamesInvProofs.v (Layer B: the visitor establishes the invariants).
   Model: Model/Names.v (pydoctor astbuilder/model).  Spec: Spec/PyImport.v (CPython binding, relations py_ns, py_attr, py_abs).

   Reading guide.  `py_abs P q v` : the dotted name q, read as a Python expression over sys.modules, has value v.
   `py_lookup P m qual dotted v` : in the namespace of module m / class m.qual the (dotted) name has value v.
   `denotes o v` : the pydoctor object o (by its identity = full name at definition) is the Python object v.
   `trail_ok st ctx true dotted` : the walk of expandName binds the first part in ctx itself and never finds a later
   part by falling back from a class to its enclosing scope -- the two fallbacks that the _refuted theorems show
   to be unsound in pydoctor as it is.

   What is NOT proved here (only tied by the correspondence check and the oracle): whole-project soundness when the
   project contains `x = y.z` aliases, base-class expressions, `import *` or re-exports (Layer A covers them under
   the stated invariants, C04_star_sound_partial / C04_expand_sound; establishing the invariants for those statements
   needs "every earlier statement has been visited" facts that are not mechanised); completeness ("always
   resolves") is proved at the level of the state the visitor leaves (C04_direct_import_resolves,
   C04_module_alias_resolves), not from the project text. *)
From Coq Require Import NArith List Bool Arith.
From PydoctorVerif Require Import Base.ImportSyntax Model.Names Spec.PyImport Proofs.NamesProofs Proofs.NamesInvProofs.
Import ListNotations.

(* 1. pydoctor's relative-import arithmetic (level-1 steps up from a package, level steps from a module, "too
   high" when it walks off the root) is importlib._bootstrap._resolve_name, for every module path, flag, level
   and module name -- including the error case. *)
Theorem C04_relative_level :
  forall (mpath : path) (is_pkg : bool) (level : nat) (modname : path),
    mpath <> [] -> import_base mpath is_pkg level modname = resolve_relative mpath is_pkg level modname.
Proof. exact relative_level. Qed.

(* 2. Every alias-map entry that visit_Import / _importNames write for an import statement of a namespace
   (module or class body) is, read as an absolute Python expression, the object or module CPython binds the local
   name to: `import a.b` -> a |-> "a"; `import a.b as c` -> c |-> "a.b"; `from [..]X import n [as k]` ->
   k |-> "<X resolved>.n" (plain, aliased and relative).  For every well-formed project and every scope. *)
Theorem C04_alias_map_sound :
  forall P, wf_project P ->
  forall m qual body mm, scope_body P m qual = Some body -> wf_body body -> find_module P m = Some mm ->
    (forall a t, In (SImport (a :: t) None) body ->
       forall v, py_attr P (scope_val m qual) a v -> py_abs P [a] v) /\
    (forall c t, In (SImport t (Some c)) body ->
       forall v, py_attr P (scope_val m qual) c v -> py_abs P t v) /\
    (forall level modname names orig asname X,
       In (SFrom level modname names) body -> In (orig, asname) names ->
       import_base m (m_pkg mm) level modname = Some X ->
       forall v, py_attr P (scope_val m qual) (bound_of (orig, asname)) v -> py_abs P (X ++ [orig]) v).
Proof.
  intros P WF m qual body mm Hsb Hwf Hfm. split; [|split].
  - intros a t Hin. exact (proj1 (entry_import_top P m qual body a t Hsb Hwf Hin)).
  - intros c t Hin. exact (proj1 (entry_import_as P WF m qual body c t Hsb Hwf Hin)).
  - intros level modname names orig asname X Hin Hin2 Hib.
    exact (proj1 (entry_from P WF m qual body mm level modname names orig asname X Hsb Hwf Hfm Hin Hin2 Hib)).
Qed.

(* 3. Soundness of expandName / resolveName (induction on the dotted parts; invariant: the object reached so far
   is what Python evaluated the prefix to).  For EVERY state satisfying the invariants `coherent` (registry sound,
   alias entries sound, class members owned by the class, Class.find sound): whenever the name is bound at run
   time, the dotted name expandName returns denotes the same value, hence resolveName never returns another object. *)
Theorem C04_expand_sound :
  forall P st, coherent P st ->
  forall ctx m qual dotted v,
    In ctx (objs st) -> py_abs P (o_path ctx) (scope_val m qual) ->
    py_lookup P m qual dotted v ->
    trail_ok st ctx true dotted = true ->
    py_abs P (expand_name st ctx dotted) v /\
    (forall o, resolve_name st ctx dotted = Some o -> denotes o v).
Proof.
  intros P st Hc ctx m qual dotted v Hin Habs Hpy Hok. split.
  - eapply expand_sound; eassumption.
  - intros o Hr. eapply resolve_sound; eassumption.
Qed.

(* 3a. Enclosing scope of a class body: a name that the body of a class directly inside a module does not bind is
   looked up in the module by pydoctor (Class._localNameToFullName -> parent) as by Python (LOAD_NAME: class
   namespace, then module globals); this is the lookup behind base-class expressions and `x = y.z` in class bodies. *)
Theorem C04_expand_sound_class_scope :
  forall P st, coherent P st ->
  forall ctx pm m qual p rest v,
    In ctx (objs st) -> o_kind ctx = KClass -> o_path ctx <> [] -> qual <> [] ->
    parent_of st ctx = Some pm -> In pm (objs st) -> o_kind pm <> KClass ->
    py_abs P (o_path pm) (VMod m) ->
    child st ctx p = None -> assoc p (o_amap ctx) = None ->
    (forall body, scope_body P m qual = Some body -> binder_of body p = None) ->
    py_lookup P m qual (p :: rest) v ->
    trail_ok st pm true (p :: rest) = true ->
    py_abs P (expand_name st ctx (p :: rest)) v.
Proof. exact expand_sound_class_fallback. Qed.

(* 3b. ... and the invariants DO hold after pydoctor has processed any well-formed project made of import
   statements of every form (plain, `as`, `from`, relative, inside class bodies, package re-imports), function
   and class definitions (nested), under every processing order: whole-project soundness on that subset.
   (_partial: alias assignments, base expressions, `import *` and re-exports are excluded by simple_project /
   wf_project; see the header.) *)
Theorem C04_expand_sound_project_partial :
  forall P order ctx m qual dotted v o,
    wf_project P -> simple_project P = true ->
    let st := final_state P order in
    In ctx (objs st) -> py_abs P (o_path ctx) (scope_val m qual) ->
    py_lookup P m qual dotted v ->
    trail_ok st ctx true dotted = true ->
    resolve_name st ctx dotted = Some o ->
    denotes o v.
Proof. exact expand_sound_project. Qed.

Theorem C04_invariants_established_partial :
  forall P order, wf_project P -> simple_project P = true -> coherent P (final_state P order).
Proof. intros P order WF S. exact (final_coherent P WF S order). Qed.

(* 4. `from X import *` (module processed at the time of the import): the entry _importAll writes for a name n
   that the imported module itself binds, `expandName(n)` evaluated in that module, denotes X.n -- which is what
   CPython's star import binds n to.  (_partial: names reaching the importer only because X lists them in __all__
   without binding them, and the PROCESSING (cycle) case, are outside.) *)
Theorem C04_star_sound_partial :
  forall P st, coherent P st ->
  forall mo X n v,
    In mo (objs st) -> py_abs P (o_path mo) (VMod X) -> py_ns P X [] n v ->
    is_some (child st mo n) || is_some (assoc n (o_amap mo)) = true ->
    py_abs P (expand_name st mo [n]) v.
Proof.
  intros P st Hc mo X n v Hin Habs Hns Hown.
  eapply (expand_sound P st Hc mo X [] [n] v); try eassumption.
  - unfold py_lookup. econstructor; [apply pn_own; exact Hns | constructor].
  - cbn [trail_ok]. rewrite Hown. cbn [negb andb]. rewrite andb_false_r. reflexivity.
Qed.

(* 5. Names that always resolve, at the level of the state the visitor leaves behind.
   (a) a name whose alias entry points at a registered full name resolves to that object: this is the case of
       `from <defining module> import <name>` as long as the object still lives under "<defining module>.<name>". *)
Theorem C04_direct_import_resolves :
  forall st ctx k q o,
    child st ctx k = None -> assoc k (o_amap ctx) = Some q -> obj_for st q = Some o ->
    resolve_name st ctx [k] = Some o.
Proof. exact direct_import_resolves. Qed.

(* (b) through a module alias (`import X as k` / `from P import S as k`), k.n resolves to the member n of X -- and
       also when n has been moved away by a re-export, through the alias that reparent leaves in X: no guard. *)
Theorem C04_module_alias_resolves :
  forall st ctx k X mo n o,
    child st ctx k = None -> assoc k (o_amap ctx) = Some X -> obj_for st X = Some mo -> X <> [] ->
    (child st mo n = Some o \/
     (child st mo n = None /\
      exists q, assoc n (o_amap mo) = Some q /\ path_eqb q [n] = false /\ obj_for st q = Some o)) ->
    resolve_name st ctx [k; n] = Some o.
Proof. exact module_alias_resolves. Qed.

(* ------------------------------------------------------------------------------------------------------------
   Witnesses.  Atoms: even = public identifier, odd = identifier starting with '_'. *)
Local Open Scope N_scope.
Definition mk (p : path) (pkg : bool) (al : option (list name)) (b : list stmt) : module_src :=
  {| m_path := p; m_pkg := pkg; m_all := al; m_body := b |}.

(* (5a) without its guard is FALSE of pydoctor as it is: DESIGN.md 7.3.
     pkg/__init__.py : from ._impl import Foo ; __all__ = ['Foo']         pkg=2 _impl=3 Foo=4
     pkg/_impl.py    : class Foo: pass
     cons.py         : from pkg._impl import Foo ; class X(Foo): pass      cons=6 X=8
   Foo is imported directly from the module that defines it, Python binds cons.Foo to pkg._impl.Foo, and pydoctor's
   resolveName('Foo') in cons is None (under this and every other order: see the correspondence check), because
   _handleReExport moved the object to pkg.Foo and expandName stops at the stale string "pkg._impl.Foo". *)
Definition w1 : project :=
  [ mk [2] true (Some [4]) [SFrom 1 [3] [(4, None)]];
    mk [2;3] false None [SClass 4 None []];
    mk [6] false None [SFrom 0 [2;3] [(4, None)]; SClass 8 (Some [4]) []] ].

Theorem C04_direct_import_resolves_refuted :
  exists P order ctx X n,
    (exists mc, find_module P ctx = Some mc /\ In (SFrom 0 X [(n, None)]) (m_body mc)) /\
    (exists md base body, find_module P X = Some md /\ In (SClass n base body) (m_body md)) /\
    py_lookup P ctx [] [n] (VObj X [n]) /\
    resolve_in (final_state P order) ctx [n] = None /\
    (* the object exists, under the re-exporter's name: *)
    (exists o, obj_for (final_state P order) [2; 4] = Some o /\ o_id o = X ++ [n]).
Proof.
  exists w1, [[6]; [2]; [2;3]], [6], [2;3], 4.
  split; [|split; [|split; [|split]]].
  - eexists. split; [reflexivity | cbn; auto].
  - eexists. exists None, []. split; [reflexivity | cbn; auto].
  - apply (ev_sound w1 eq_refl 20%nat (REval [6] [] [4])). vm_compute. reflexivity.
  - vm_compute. reflexivity.
  - eexists. split; vm_compute; reflexivity.
Qed.

(* A class nested in a class sees its ENCLOSING CLASS scope in pydoctor, never in Python:
     m.py:  class A0: pass ; class B0: pass ; x = A0                       m=2 A0=4 B0=6 x=8
            class Out:  x = B0 ;  class In:  y = x                         Out=10 In=12 y=14
   In the namespace m.Out.In the name y is A0 at run time; pydoctor resolves it to B0. *)
Definition w2 : project :=
  [ mk [2] false None [SClass 4 None []; SClass 6 None []; SAlias 8 [4];
                       SClass 10 None [SAlias 8 [6]; SClass 12 None [SAlias 14 [8]]]] ].

Theorem C04_nested_class_scope_refuted :
  exists P order m qual dotted o v,
    resolve_in (final_state P order) (m ++ qual) dotted = Some o /\
    py_lookup P m qual dotted v /\ o_id o <> flat v.
Proof.
  exists w2, [[2]], [2], [10; 12], [14].
  destruct (resolve_in (final_state w2 [[2]]) ([2] ++ [10; 12]) [14]) as [o|] eqn:E; [|vm_compute in E; discriminate].
  exists o, (VObj [2] [4]). split; [exact E|split].
  - apply (ev_sound w2 eq_refl 20%nat (REval [2] [10; 12] [14])). vm_compute. reflexivity.
  - vm_compute in E. inversion E; subst. vm_compute. discriminate.
Qed.

(* expandName('C.helper') looks in C, then in the MODULE around C, and only then in C's bases:
     d.py: def helper(): ... ; def thing(): ...                           d=2 helper=4 thing=6
     b.py: import d ; class Base: helper = d.thing                        b=8 Base=10
     m.py: from d import helper ; from b import Base ; class C(Base): pass   m=12 C=14
   In m, C.helper is d.thing at run time (inherited); pydoctor resolves it to d.helper. *)
Definition w3 : project :=
  [ mk [2] false None [SDef 4; SDef 6];
    mk [8] false None [SImport [2] None; SClass 10 None [SAlias 4 [2;6]]];
    mk [12] false None [SFrom 0 [2] [(4, None)]; SFrom 0 [8] [(10, None)]; SClass 14 (Some [10]) []] ].

Theorem C04_class_attr_scope_refuted :
  exists P order m qual dotted o v,
    resolve_in (final_state P order) (m ++ qual) dotted = Some o /\
    py_lookup P m qual dotted v /\ o_id o <> flat v.
Proof.
  exists w3, [[12]; [8]; [2]], [12], [], [14; 4].
  destruct (resolve_in (final_state w3 [[12]; [8]; [2]]) ([12] ++ []) [14; 4]) as [o|] eqn:E; [|vm_compute in E; discriminate].
  exists o, (VObj [2] [6]). split; [exact E|split].
  - apply (ev_sound w3 eq_refl 20%nat (REval [12] [] [14; 4])). vm_compute. reflexivity.
  - vm_compute in E. inversion E; subst. vm_compute. discriminate.
Qed.

(* both witnesses are excluded by the guard of C04_expand_sound *)
Example C04_refuted_witnesses_fail_the_guard :
  (match obj_for (final_state w3 [[12]; [8]; [2]]) [12] with
   | Some c => trail_ok (final_state w3 [[12]; [8]; [2]]) c true [14; 4]
   | None => true
   end) = false.
Proof. vm_compute. reflexivity. Qed.

(* ------------------------------------------------------------------------------------------------------------
   Non-vacuity: a package with a relative import, a consumer with a renamed from-import and a module alias.
     p/__init__.py: from .m import Foo          p=2 m=4 Foo=6 meth=8
     p/m.py       : class Foo:  def meth(self)
     c.py         : from p.m import Foo as F ; import p.m as pm           c=10 F=12 pm=14 *)
Definition e0 : project :=
  [ mk [2] true None [SFrom 1 [4] [(6, None)]];
    mk [2;4] false None [SClass 6 None [SDef 8]];
    mk [10] false None [SFrom 0 [2;4] [(6, Some 12)]; SImport [2;4] (Some 14)] ].

Ltac split_eqb :=
  repeat match goal with
         | H : context[N.eqb ?a ?n] |- _ => destruct (N.eqb_spec a n); subst; cbn -[N.eqb] in H
         | |- context[N.eqb ?a ?n] => destruct (N.eqb_spec a n); subst; cbn -[N.eqb]
         end.
Ltac in_cases H :=
  cbn in H; repeat (destruct H as [H | H]; [try (inversion H; subst; clear H) | ]); try (destruct H).
Ltac wf_body_tac :=
  repeat (constructor;
    [ let s := fresh "s" in let n := fresh "n" in let b := fresh "b" in let Hi := fresh "Hi" in let Hs := fresh "Hs" in
      intros s n b Hi Hs; in_cases Hi; cbn -[N.eqb] in Hs; cbn -[N.eqb]; split_eqb; try discriminate; try congruence; try exact Hs
    | let Hi := fresh "Hi" in intros ? ? ? Hi; in_cases Hi; repeat constructor; cbn; intuition discriminate
    | let Hi := fresh "Hi" in intros ? ? ? Hi; in_cases Hi ]).

Example C04_example_wf : wf_project e0 /\ simple_project e0 = true.
Proof.
  split; [|reflexivity]. constructor.
  - intros mm H. in_cases H; discriminate.
  - intros mm H. in_cases H; reflexivity.
  - intros mm q n H Hp Hq. in_cases H; cbn in Hp.
    + destruct q as [|? [|? ?]]; try discriminate; congruence.
    + destruct q as [|a [|? ?]]; cbn in Hp; try discriminate; try congruence.
      * inversion Hp; subst. eexists. split; reflexivity.
      * inversion Hp. destruct l; discriminate.
    + destruct q as [|? [|? ?]]; try discriminate; congruence.
  - intros pm n H Hm. in_cases H; unfold is_module, find_module in Hm; cbn -[N.eqb] in Hm; split_eqb; try discriminate; reflexivity.
  - intros mm H. in_cases H; cbn; wf_body_tac.
  - intros mm n H Hn. in_cases H; cbn in Hn; reflexivity.
Qed.

(* all hypotheses of C04_expand_sound_project_partial hold for c.py and the names `F` and `pm.Foo.meth`,
   and the theorem's conclusion is the expected object *)
Example C04_hypotheses_satisfiable :
  let st := final_state e0 [[10]; [2]; [2;4]] in
  exists ctx o1 o2,
    In ctx (objs st) /\ py_abs e0 (o_path ctx) (scope_val [10] []) /\
    py_lookup e0 [10] [] [12] (VObj [2;4] [6]) /\ trail_ok st ctx true [12] = true /\
    resolve_name st ctx [12] = Some o1 /\ o_id o1 = [2;4;6] /\
    py_lookup e0 [10] [] [14;6;8] (VObj [2;4] [6;8]) /\ trail_ok st ctx true [14;6;8] = true /\
    resolve_name st ctx [14;6;8] = Some o2 /\ o_id o2 = [2;4;6;8] /\
    denotes o1 (VObj [2;4] [6]) /\ denotes o2 (VObj [2;4] [6;8]).
Proof.
  intro st.
  destruct (obj_for st [10]) as [ctx|] eqn:Ectx; [|vm_compute in Ectx; discriminate].
  destruct (resolve_name st ctx [12]) as [o1|] eqn:E1;
    [|vm_compute in Ectx; inversion Ectx; subst; vm_compute in E1; discriminate].
  destruct (resolve_name st ctx [14;6;8]) as [o2|] eqn:E2;
    [|vm_compute in Ectx; inversion Ectx; subst; vm_compute in E2; discriminate].
  pose proof (obj_for_some _ _ _ Ectx) as [Hin Hp].
  assert (Habs : py_abs e0 (o_path ctx) (scope_val [10] [])).
  { rewrite Hp. apply (ev_abs_sound e0 20%nat [10]); reflexivity. }
  assert (Hl1 : py_lookup e0 [10] [] [12] (VObj [2;4] [6])).
  { apply (ev_sound e0 eq_refl 20%nat (REval [10] [] [12])). vm_compute. reflexivity. }
  assert (Hl2 : py_lookup e0 [10] [] [14;6;8] (VObj [2;4] [6;8])).
  { apply (ev_sound e0 eq_refl 20%nat (REval [10] [] [14;6;8])). vm_compute. reflexivity. }
  assert (Ht1 : trail_ok st ctx true [12] = true).
  { vm_compute in Ectx. inversion Ectx; subst. vm_compute. reflexivity. }
  assert (Ht2 : trail_ok st ctx true [14;6;8] = true).
  { vm_compute in Ectx. inversion Ectx; subst. vm_compute. reflexivity. }
  assert (Hd1 : denotes o1 (VObj [2;4] [6])).
  { apply (C04_expand_sound_project_partial e0 [[10]; [2]; [2;4]] ctx [10] [] [12] _ o1
             (proj1 C04_example_wf) (proj2 C04_example_wf) Hin Habs Hl1 Ht1 E1). }
  assert (Hd2 : denotes o2 (VObj [2;4] [6;8])).
  { apply (C04_expand_sound_project_partial e0 [[10]; [2]; [2;4]] ctx [10] [] [14;6;8] _ o2
             (proj1 C04_example_wf) (proj2 C04_example_wf) Hin Habs Hl2 Ht2 E2). }
  exists ctx, o1, o2.
  split; [exact Hin|]. split; [exact Habs|]. split; [exact Hl1|]. split; [exact Ht1|].
  split; [exact E1|]. split; [exact (proj1 Hd1)|].
  split; [exact Hl2|]. split; [exact Ht2|]. split; [exact E2|]. split; [exact (proj1 Hd2)|].
  split; assumption.
Qed.

(* ... while through a module alias the re-exported class of the refuted witness IS reached (alias left by reparent):
     cons.py: from pkg._impl import Foo ; import pkg._impl as i           i=10      i.Foo resolves, Foo does not *)
Definition w1b : project :=
  [ mk [2] true (Some [4]) [SFrom 1 [3] [(4, None)]];
    mk [2;3] false None [SClass 4 None []];
    mk [6] false None [SFrom 0 [2;3] [(4, None)]; SImport [2;3] (Some 10)] ].

Example C04_module_alias_after_reexport :
  option_map o_id (resolve_in (final_state w1b [[6]; [2]; [2;3]]) [6] [10; 4]) = Some [2;3;4] /\
  resolve_in (final_state w1b [[6]; [2]; [2;3]]) [6] [4] = None.
Proof. split; vm_compute; reflexivity. Qed.
