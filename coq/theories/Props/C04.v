(* Props/C04.v -- C04: a name resolves to what Python would bind it to, or not at all.
   Only statements closed by `exact`; proofs live in Proofs/NamesProofs.v.
   Model: Model/Names.v (pydoctor astbuilder/model name binding and expansion). Spec: Spec/PyImport.v (CPython). *)
From Coq Require Import NArith List Bool Arith.
From PydoctorVerif Require Import Base.ImportSyntax Model.Names Spec.PyImport Proofs.NamesProofs.
Import ListNotations.

(* pydoctor's relative-import arithmetic (level-1 steps up from a package, level steps from a module, "too high"
   when it walks off the root) is importlib._bootstrap._resolve_name, for every module path, flag, level and
   module name -- including the error case. *)
Theorem C04_relative_level :
  forall (mpath : path) (is_pkg : bool) (level : nat) (modname : path),
    mpath <> [] -> import_base mpath is_pkg level modname = resolve_relative mpath is_pkg level modname.
Proof. exact relative_level. Qed.
