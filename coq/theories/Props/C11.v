(* Props/C11.v -- C11: every internal link leads to a page and anchor that exist.
   Model: Model/Site.v over the listing skeleton Gen/Listings.v (table_now, REGENERATED from /repo on every run);
   contract: Spec/SiteSpec.v; proofs: Proofs/SiteProofs.v, Proofs/SiteWitness.v.
   `quote` (urllib.parse.quote) is an oracle: the theorems hold for every function that never emits '#'. *)
From Coq Require Import NArith List Bool Arith.
From PydoctorVerif Require Import Base.Sexp Model.SiteTable Model.Site Model.SitePinned Gen.Listings
     Spec.SiteSpec Proofs.SiteProofs Proofs.SiteWitness Model.SiteIR Gen.SiteCode Proofs.SiteIRProofs.
Import ListNotations.

(* Per run: every listing of the template writer, as it is in /repo NOW, filters on isVisible and iterates the
   collection the model assumes; taglink drops the href of a hidden target; member listings do not skip names with
   spaces.  A listing that loses its filter in /repo makes this fail. *)
Lemma listings_checked :
  table_ok table_now = true /\ t_taglink_drops_hidden table_now = true /\
  l_nospace (t_methods table_now) = false /\ l_nospace (t_pkg_methods table_now) = false.
Proof. vm_compute. repeat split; reflexivity. Qed.

Lemma writer_checked : l_visible (t_writer table_now) = true.
Proof. vm_compute. reflexivity. Qed.

(* A page is written for o iff o is visible, is an own-page object (module, package, class) and is reachable
   through `contents` from a root. *)
Theorem C11_pages_for_visible_ownpage : forall r o, wf r ->
  (In o (written table_now r) <-> (own_page r o = true /\ visible r o = true /\ reachable r o)).
Proof. intros r o Hwf. exact (written_iff table_now r Hwf writer_checked o). Qed.

(* Every visible function / variable reachable through `contents` has the anchors `name` and `fullName`
   on its parent's page, and that page is written. *)
Theorem C11_anchors_for_visible_members : forall quote r o, wf r ->
  own_page r o = false -> visible r o = true -> reachable r o ->
  exists p, parent_of r o = Some p /\ In (url quote r p) (site_files quote table_now r) /\
            In (url quote r p, name_of r o) (site_anchors quote table_now r) /\
            In (url quote r p, fullname r o) (site_anchors quote table_now r).
Proof.
  intros quote r o Hwf. destruct listings_checked as [_ [_ [H1 H2]]].
  exact (member_anchors quote table_now r o Hwf writer_checked H1 H2).
Qed.

(* taglink emits the shortened form `#frag` only when the target lives on the page whose url was passed in;
   the shortened and the full form denote the same file and anchor (for every table, registry, target, context). *)
Theorem C11_same_page_shortening : forall quote, (forall t, ~ In c_hash (quote t)) ->
  forall tbl r o ctx h, taglink quote tbl r o ctx = Some h ->
    resolve ctx h = resolve ctx (url quote r o) /\
    (forall h', h = c_hash :: h' ->
       exists p, page_obj r o = Some p /\ page_url quote r p = ctx /\ h' = quote (name_of r o)).
Proof. exact taglink_shortening. Qed.

(* Liveness, unconditional part: member tables (own and package __init__), the direct items of the sidebar (ObjContent, at
   every --sidebar-expand-depth and nesting level, in the section of the object, of its parent package and of its
   module), moduleIndex.html, the root list of index.html and objects.inv pick their targets from the contents of
   reachable objects or from the roots; every href they carry,
   resolved against the page it is rendered on, is a written file and, with a fragment, an anchor of that file. *)
Theorem C11_links_live : forall quote, (forall t, ~ In c_hash (quote t)) ->
  forall r depth ns e h, wf r ->
  In e (site_entries quote table_now r depth ns) -> contents_prod (e_prod e) = true ->
  link_of quote table_now r e = Some h -> live_at quote table_now r (e_page e) h.
Proof.
  intros quote Hq r depth ns e h Hwf. destruct listings_checked as [Ht [Hf [H1 H2]]].
  exact (links_live_contents quote table_now r Hq depth ns e h Hwf Ht Hf H1 H2).
Qed.

(* The member self-links (`#name` in the header of every function / attribute block) are live, unconditionally. *)
Theorem C11_member_selflinks_live : forall quote r depth ns e h,
  In e (site_entries quote table_now r depth ns) -> e_prod e = P_childlist ->
  link_of quote table_now r e = Some h -> live_at quote table_now r (e_page e) h.
Proof. intros quote r. exact (selflink_live quote table_now r). Qed.

(* classIndex.html: every visible class whose name, and the names of all its in-system (transitive) bases, carry no
   ' N' suffix of a superseded duplicate is listed by findRootClasses / subclassesFrom -- as a root class when it has no
   base or one of its bases is external or not visible, under one of its visible bases otherwise -- and has its
   <a name="fullName"> there (class relations as System.defaultPostProcess leaves them; `rank`: no inheritance cycle). *)
Theorem C11_hierarchy_anchor : forall quote r rank c, wf_classes r rank ->
  valid r c -> is_class_kind (kind_of r c) = true -> visible r c = true ->
  (forall a, base_star r a c -> plain_name r a) ->
  In c (class_index table_now r) /\ In (f_classIndex, fullname r c) (site_anchors quote table_now r).
Proof. intros quote r rank c Hwc. exact (class_in_index table_now r rank Hwc quote c). Qed.

(* ... hence "View In Hierarchy" (classIndex.html#fullName, on every class page) is live under that guard ... *)
Theorem C11_hierarchy_links_live_partial : forall quote r rank depth ns e h, wf r -> wf_classes r rank ->
  In e (site_entries quote table_now r depth ns) -> e_prod e = P_hierarchy ->
  (forall a, base_star r a (e_obj e) -> plain_name r a) ->
  link_of quote table_now r e = Some h -> live_at quote table_now r (e_page e) h.
Proof.
  intros quote r rank depth ns e h Hwf Hwc. destruct listings_checked as [Ht _].
  exact (hierarchy_live quote table_now r rank depth ns e h Hwf Ht Hwc).
Qed.

(* ... and not without it: `class B` / `class C(B)` / `class B` again: C's base is "m.B 0", which is visible (so C is no
   root class) and skipped by subclassesFrom (' ' in its name): C.html links to classIndex.html#m.C, which is not there
   (known finding C11-superseded-duplicates). *)
Theorem C11_hierarchy_links_live_refuted : exists r e h b,
  wf r /\ In e (site_entries cquote table_pinned r 1 false) /\ e_prod e = P_hierarchy /\
  link_of cquote table_pinned r e = Some h /\ ~ live_at cquote table_pinned r (e_page e) h /\
  ~ plain_name r b /\ base_star r b (e_obj e).
Proof.
  destruct hierarchy_dead_link as [e [h H]]. exists w_dup_base, e, h, 3. exact (conj w_dup_base_wf H).
Qed.

(* Guarded liveness: when nothing registered is unreachable through `contents` (no superseded duplicates, no
   collision leftovers), every href built by taglink -- heading, sidebar, member tables, inherited-member tables and
   their base names, known subclasses, class signature, overrides / overridden in, moduleIndex, classIndex,
   nameIndex, undoccedSummary, index.html roots, the cross references of summaries -- and every url field of
   all-documents.html and objects.inv,
   resolved against the page it is rendered on, is a written file and, with a fragment, an anchor of that file.
   (`classIndex.html#<class>` and the member self-links `#name` have their own theorems above.) *)
Theorem C11_links_live_partial : forall quote, (forall t, ~ In c_hash (quote t)) ->
  forall r depth ns e h, wf r -> all_reachable r ->
  In e (site_entries quote table_now r depth ns) ->
  N.eqb (e_prod e) P_hierarchy = false -> N.eqb (e_prod e) P_childlist = false -> e_prod e <> P_xref ->
  link_of quote table_now r e = Some h -> live_at quote table_now r (e_page e) h.
Proof.
  intros quote Hq r depth ns e h Hwf Hall Hin Hh Hc Hx. destruct listings_checked as [Ht [Hf [H1 H2]]].
  apply (links_live_guarded quote table_now r Hq depth ns e h Hwf Ht Hf H1 H2 Hall Hin Hh Hc). intros E. congruence.
Qed.

(* ... and the guard is needed: with `def f` twice in m.py the first f lives on in allobjects as "m.f 0";
   nameIndex.html (which iterates allobjects) links to index.html#f%200, an anchor that is never written.
   (known finding C11-superseded-duplicates; listing skeleton as observed on the unchanged tree) *)
Theorem C11_links_live_refuted : exists r e h,
  wf r /\ ~ all_reachable r /\ In e (site_entries cquote table_pinned r 1 false) /\ e_prod e = P_name_index /\
  link_of cquote table_pinned r e = Some h /\ ~ live_at cquote table_pinned r (e_page e) h.
Proof.
  destruct dup_dead_link as [e [h [H1 [H2 [H3 H4]]]]].
  exists w_dup, e, h. exact (conj w_dup_wf (conj dup_not_reachable (conj H1 (conj H2 (conj H3 H4))))).
Qed.

(* Before commit fd84d91 taglink built the <a href> of a hidden target: the class signature of a visible class
   linked to the page of its hidden base, which is never written. *)
Theorem C11_taglink_old_refuted : exists r e h,
  wf r /\ In e (site_entries cquote table_before_fd84d91 r 1 false) /\
  link_of cquote table_before_fd84d91 r e = Some h /\ ~ live_at cquote table_before_fd84d91 r (e_page e) h.
Proof.
  destruct taglink_old_hidden_target as [e [h [H1 [H2 [_ H4]]]]].
  exists w_hidden_base, e, h. exact (conj w_hidden_base_wf (conj H1 (conj H2 H4))).
Qed.

(* Docstring cross references (L{...}, `...`, field types: _EpydocLinker.link_xref / link_to).  The resolver is an
   ORACLE: o_xrefs may name ANY registered object.  The href is taglink(target, page_url of the linker context); for
   format_docstring that context is the page of the docstring's SOURCE.  Every cross-reference entry of the site stands
   in the docstring rendered for some i on a written page p (p itself or a member listed on p) ... *)
Theorem C11_xref_origin : forall quote r depth ns e, In e (site_entries quote table_now r depth ns) -> e_prod e = P_xref ->
  exists p i, xref_from quote table_now r e p i.
Proof. intros quote r. exact (xref_origin quote table_now r). Qed.

(* ... and it is live on that page when the docstring's source is documented on the same page (own docstring, or
   inherited from a member of the same class / module) or the target has a page of its own, and the target is
   reachable through contents.  (No hidden target: C12_no_link_targets_hidden covers these entries too.) *)
Theorem C11_xref_links_live_partial : forall quote, (forall t, ~ In c_hash (quote t)) ->
  forall r depth ns e h p i, wf r ->
  In e (site_entries quote table_now r depth ns) -> e_prod e = P_xref -> xref_from quote table_now r e p i ->
  (same_page_source r i \/ own_page r (e_obj e) = true) -> reachable r (e_obj e) ->
  link_of quote table_now r e = Some h -> live_at quote table_now r (e_page e) h.
Proof.
  intros quote Hq r depth ns e h p i Hwf. destruct listings_checked as [Ht [Hf [H1 H2]]].
  exact (xref_links_live quote table_now r Hq depth ns e h p i Hwf Ht Hf H1 H2).
Qed.

(* The guard is exact: the docstring of B.x inherited by S.x says L{t}; it is an entry of the site on S's page whose
   source (B.x) lives on another page; its target is reachable and has no page of its own; the link `#t` is dead
   (known finding C11-inherited-docstring-context). *)
Theorem C11_xref_links_live_refuted : exists r e h p i,
  wf r /\ In e (site_entries cquote table_pinned r 1 false) /\ e_prod e = P_xref /\
  xref_from cquote table_pinned r e p i /\ ~ same_page_source r i /\ own_page r (e_obj e) = false /\
  reachable r (e_obj e) /\ link_of cquote table_pinned r e = Some h /\ ~ live_at cquote table_pinned r (e_page e) h.
Proof.
  destruct inherited_docstring_entry as [e [h [p [i H]]]]. exists w_inherit, e, h, p, i. exact (conj w_inherit_wf H).
Qed.

(* taglink is right relative to the page_url it is handed (C11_same_page_shortening) -- but format_docstring hands it
   the page of the docstring's SOURCE: the docstring of B.x inherited by S.x says L{t}; the link `#t` is live on B's page
   and dead on S's page, where it is rendered (known finding C11-inherited-docstring-context). *)
Theorem C11_xref_context_refuted : exists r o src page h,
  wf r /\ taglink cquote table_pinned r o (url cquote r src) = Some (c_hash :: h) /\
  live_at cquote table_pinned r (url cquote r src) (c_hash :: h) /\
  ~ live_at cquote table_pinned r (url cquote r page) (c_hash :: h).
Proof.
  destruct inherited_docstring_context as [h [H1 [H2 H3]]].
  exists w_inherit, 2, 1, 4, h. exact (conj w_inherit_wf (conj H1 (conj H2 H3))).
Qed.

(* With a single root the root's page is index.html, and <root>.html (the symlink) is part of the site. *)
Theorem C11_index_single_root : forall quote r n o, r_root_names r = [n] -> fullname r o = n -> valid r o -> own_page r o = true ->
  url quote r o = f_index /\ In (n ++ f_html) (site_files quote table_now r) /\
  (wf r -> In o (r_roots r) -> visible r o = true -> In f_index (site_files quote table_now r)).
Proof.
  intros quote r n o Hn Hf Hv Ho. destruct (index_single_root quote table_now r n o Hn Hf Hv Ho) as [H1 [H2 H3]].
  repeat split; [exact H1|exact H2|]. intros Hwf. exact (H3 Hwf writer_checked).
Qed.

(* The file of a page is written under the string `url` returns, and the same string is the href.  It is the
   URL-encoding of the file name only when the name needs no escaping ... *)
Theorem C11_href_encodes_file_partial : forall r o, valid r o -> own_page r o = true ->
  forallb quote_safe (fullname r o) = true -> cquote (url cquote r o) = url cquote r o.
Proof. exact href_encodes_file_guarded. Qed.

(* ... a class named with a non-ASCII identifier is written to "m.%C3%A9.html" and linked as href="m.%C3%A9.html",
   which a conforming client decodes to a file that does not exist (known finding C11-quoted-file-name). *)
Theorem C11_href_encodes_file_refuted : exists r o,
  wf r /\ In o (written table_pinned r) /\ In (url cquote r o) (site_files cquote table_pinned r) /\
  cquote (url cquote r o) <> url cquote r o.
Proof.
  destruct non_ascii_href as [o [H1 [H2 H3]]]. exists w_non_ascii, o.
  exact (conj w_non_ascii_wf (conj H1 (conj H2 H3))).
Qed.

(* ------------------------------------------------------------------ the tie to the source.
   Gen/SiteCode.v holds the BODIES of Documentable.fullName / page_object / url (pydoctor/model.py) and taglink
   (pydoctor/linker.py), translated statement by statement from the CURRENT source into the language of
   Model/SiteIR.v (harness/gen/gen_c11_code.py, fail-closed).  Interpreting them IS the hand-written model, for every
   well-formed registry, object, page url and label (fuel never runs out: one unit per object on the parent chain). *)
Theorem C11_code_fullname_is_model : forall quote r, wf r -> forall fuel i, i < fuel -> valid r i ->
  run_fn quote site_code r fuel FFullName i env0 = Val (VStr (fullname r i)).
Proof. exact code_fullname. Qed.

(* page_object: the object, its parent -- or the AssertionError exactly where the model has no page *)
Theorem C11_code_page_object_is_model : forall quote r fuel i, 1 <= fuel -> valid r i ->
  run_fn quote site_code r fuel FPageObject i env0 = match page_obj r i with Some p => Val (VObj p) | None => Err end.
Proof. exact code_page_object. Qed.

Theorem C11_code_url_is_model : forall quote r, wf r -> forall fuel i, i + 3 < fuel -> valid r i ->
  run_fn quote site_code r fuel FUrl i env0 = match page_obj r i with Some _ => Val (VStr (url quote r i)) | None => Err end.
Proof. exact code_url. Qed.

(* taglink(o, page_url, label): the label (o.fullName() by default); no <a> for a target that is not visible; otherwise
   href = the model's taglink (same-page shortening included) and title = fullName unless it is the label *)
Theorem C11_code_taglink_is_model : forall quote r, wf r -> forall fuel o ctx label,
  o + 5 < fuel -> valid r o -> page_obj r o <> None -> (label = VNone \/ exists t, label = VStr t) ->
  run_fn quote site_code r fuel FTaglink o (taglink_args ctx label) = Val (taglink_tag quote r o ctx label).
Proof. exact code_taglink. Qed.

(* non-vacuity: a well-formed registry where everything is reachable, with pages, anchors and live links;
   the concrete quote never emits '#' *)
Example C11_hypotheses_satisfiable :
  wf w_example /\ wf_classes w_example w_example_rank /\ all_reachable w_example /\ (forall t, ~ In c_hash (cquote t)) /\
  written table_now w_example = [0; 1; 4] /\
  existsb (fun e => match link_of cquote table_now w_example e with Some h => starts_with [c_hash] h | None => false end)
          (site_entries cquote table_now w_example 2 false) = true /\
  forallb (fun e => match link_of cquote table_now w_example e with
                    | Some h => live cquote table_now w_example (e_page e) h | None => true end)
          (site_entries cquote table_now w_example 2 false) = true.
Proof.
  split; [apply w_example_wf|]. split; [apply w_example_classes|]. split; [apply w_example_all_reachable|]. split; [exact cquote_no_hash|].
  split; [vm_compute; reflexivity|]. split; vm_compute; reflexivity.
Qed.
