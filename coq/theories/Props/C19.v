(* Props/C19.v -- C19: visitor extensions see a balanced, ordered walk whatever the main visitor prunes.
   Only statements closed by `exact`; proofs live in Proofs/VisitorProofs.v.
   Model: Model/Visitor.v (pydoctor/visitor.py), Model/BuilderStack.v (astbuilder push/pop).
   Contract: Spec/Walk.v. *)
From Coq Require Import ZArith NArith List Bool.
From PydoctorVerif Require Import Base.Sexp Model.Visitor Model.BuilderStack Spec.Walk Proofs.VisitorProofs Gen.SkipSites
  Model.VisitorIR Gen.VisitorCode Proofs.VisitorIRProofs
  Model.StackIR Gen.StackCode Proofs.StackIRProofs Proofs.VisitorCorollaries.
Import ListNotations.

(* What each participant (main visitor = 0, or any extension) sees of walkabout() is exactly a
   depth-first enter/leave walk of the documented traversed sub-tree: balanced, nested like the tree,
   each traversed node entered once and -- for extensions always, for the main visitor unless it
   raised SkipNode/SkipDeparture there -- left once. For every tree, pruning assignment, extension list. *)
Theorem C19_walkabout_projection :
  forall (exts : list ext) (prune : N -> option action) (t : tree) (p : N),
    NoDup (main_id :: map ext_id exts) -> In p (main_id :: map ext_id exts) ->
    filter (who_is p) (fst (walkabout exts prune t)) = dfs p (leaves_of prune p) (traversed prune t).
Proof. exact walkabout_projection. Qed.

(* All entries, in trace order, are: for each traversed node in pre-order, BEFORE.., OUTTER.., main, AFTER.., INNER.. *)
Theorem C19_walkabout_enter_order :
  forall exts prune t,
    filter is_enter (fst (walkabout exts prune t)) = flat_map (entry_block exts) (preorder (traversed prune t)).
Proof. exact walkabout_enter_order. Qed.

(* All exits: for each traversed node in post-order, BEFORE.., INNER.., main (unless skipped), AFTER.., OUTTER.. *)
Theorem C19_walkabout_leave_order :
  forall exts prune t,
    filter is_leave (fst (walkabout exts prune t)) = flat_map (exit_block exts prune) (postorder (traversed prune t)).
Proof. exact walkabout_leave_order. Qed.

(* The only exception that can leave walkabout() is the root's own SkipSiblings. *)
Theorem C19_walkabout_escape :
  forall exts prune t, snd (walkabout exts prune t) = skips_siblings prune (root t).
Proof. exact walkabout_escape. Qed.

(* walk(): entries only, same per-node order, over the sub-tree walk() traverses. *)
Theorem C19_walk_enter_order :
  forall exts prune t,
    fst (walk exts prune t) = flat_map (entry_block exts) (preorder (traversed_walk prune t)).
Proof. exact walk_enter_order. Qed.

Theorem C19_walk_projection :
  forall exts prune t p,
    NoDup (main_id :: map ext_id exts) -> In p (main_id :: map ext_id exts) ->
    filter (who_is p) (fst (walk exts prune t)) = map (fun n => Ev p Enter n) (preorder (traversed_walk prune t)).
Proof. exact walk_projection. Qed.

(* Builder scope stack: if the definition nodes push exactly when they do not raise SkipNode and pop
   on departure, the stack after walking any module is the stack before, and no `assert self.current is obj` fires. *)
Theorem C19_stack_empty :
  forall exts prune t (isdef pushes pops : N -> bool) st,
    NoDup (main_id :: map ext_id exts) ->
    (forall n, pushes n = isdef n && main_departs prune n) -> (forall n, pops n = isdef n) ->
    stack_run pushes pops (filter (who_is main_id) (fst (walkabout exts prune t))) st = Some st.
Proof. exact builder_stack_restored. Qed.

(* The push / pop / raise-pruning sites of astbuilder.ModuleVistor AS THEY ARE IN /repo NOW (Gen/SkipSites.v is
   regenerated on every run): no visit_* method raises SkipNode/SkipDeparture after it has pushed a scope, visit_*
   methods never pop, and every depart_* method that touches the stack only pops.  Together with C19_stack_empty
   (whose hypothesis `pushes n = isdef n && main_departs prune n` these site rules support) a SkipNode placed after a
   push breaks this obligation. *)
Lemma C19_skip_sites_checked : forallb site_ok skip_sites = true.
Proof. vm_compute. reflexivity. Qed.

(* ---- the tie to the source, as theorems ---------------------------------------------------------------------
   Gen/VisitorCode.v holds the bodies of Visitor.visit / depart / walk / walkabout translated statement by statement
   from /repo's CURRENT pydoctor/visitor.py (harness/gen/gen_c19_code.py, fail-closed, rerun on every check) into the
   statement language of Model/VisitorIR.v.  Interpreting THAT code gives, for every tree, extension list and pruning
   function, the events and the escaping exception of the hand-written model the theorems above are about. *)
Theorem C19_code_walkabout_is_model :
  forall exts prune t,
    walkabout_ir visitor_code exts prune t
    = (fst (walkabout exts prune t), if snd (walkabout exts prune t) then Some XSkipSiblings else None).
Proof. exact walkabout_ir_eq. Qed.

Theorem C19_code_walk_is_model :
  forall exts prune t,
    walk_ir visitor_code exts prune t
    = (fst (walk exts prune t), if snd (walk exts prune t) then Some XSkipSiblings else None).
Proof. exact walk_ir_eq. Qed.

Theorem C19_code_visit_is_model :
  forall exts prune n,
    visit_ir visitor_code exts prune n = (visit_ev exts n, option_map exc_of_action (prune n)).
Proof. exact visit_ir_eq. Qed.

Theorem C19_code_depart_is_model :
  forall exts prune n extensions_only,
    depart_ir visitor_code exts prune n extensions_only = (depart_ev exts n extensions_only, None).
Proof. exact depart_ir_eq. Qed.

(* hence the property itself, stated on the translated code *)
Theorem C19_code_walkabout_projection :
  forall (exts : list ext) (prune : N -> option action) (t : tree) (p : N),
    NoDup (main_id :: map ext_id exts) -> In p (main_id :: map ext_id exts) ->
    filter (who_is p) (fst (walkabout_ir visitor_code exts prune t)) = dfs p (leaves_of prune p) (traversed prune t)
    /\ (snd (walkabout_ir visitor_code exts prune t) <> None <-> skips_siblings prune (root t) = true).
Proof. exact code_walkabout_projection. Qed.

(* ... and the scope stack itself: the bodies of astbuilder.ASTBuilder.push / pop translated from the CURRENT source
   (harness/gen/gen_c19_stack.py -> Gen/StackCode.v, language and interpreter in Model/StackIR.v).  Interpreting them is the
   hand model push_m / pop_m, for every state, object and Module-ness; and the hand model moves the list of entered scopes exactly
   as Model.BuilderStack.stack_run assumes: push conses the object, pop demands it on top (the `assert self.current is obj`)
   and removes it. *)
Theorem C19_code_push_is_model :
  forall is_module obj lineno s,
    sexec is_module obj lineno (sc_push builder_stack_code) s = push_m is_module obj s.
Proof. exact push_ir_eq. Qed.

Theorem C19_code_pop_is_model :
  forall is_module obj lineno s,
    sexec is_module obj lineno (sc_pop builder_stack_code) s = pop_m is_module obj s.
Proof. exact pop_ir_eq. Qed.

Theorem C19_code_stack_discipline :
  forall is_module obj lineno s s',
    (sexec is_module obj lineno (sc_push builder_stack_code) s = Some s' -> scopes s' = obj :: scopes s) /\
    (sexec is_module obj lineno (sc_pop builder_stack_code) s = Some s' -> scopes s = obj :: scopes s').
Proof.
  intros im obj ln s s'. rewrite push_ir_eq, pop_ir_eq. split; [apply push_m_scopes|apply pop_m_scopes].
Qed.

(* ---- the clauses of the property text, one by one (corollaries of the projection theorem; Proofs/VisitorCorollaries.v) ----
   entered_by p tr / left_by p tr: the nodes participant p entered / left, in trace order. *)

(* "each node is entered at most once": for every participant, provided the tree's node identities are distinct;
   and nothing outside the tree is ever entered. *)
Theorem C19_entered_at_most_once :
  forall (exts : list ext) (prune : N -> option action) (t : tree) (p : N),
    NoDup (main_id :: map ext_id exts) -> In p (main_id :: map ext_id exts) -> NoDup (preorder t) ->
    NoDup (entered_by p (fst (walkabout exts prune t))) /\
    forall n, In n (entered_by p (fst (walkabout exts prune t))) -> In n (preorder t).
Proof. exact entered_at_most_once. Qed.

(* "every extension that entered a node also leaves it" -- whatever the main visitor pruned: the exits of an extension
   are the post-order of the traversed sub-tree, a permutation of its entries (the pre-order of the same sub-tree). *)
Theorem C19_extension_leaves_what_it_entered :
  forall (exts : list ext) (prune : N -> option action) (t : tree) (p : N),
    NoDup (main_id :: map ext_id exts) -> In p (map ext_id exts) ->
    left_by p (fst (walkabout exts prune t)) = postorder (traversed prune t) /\
    Permutation.Permutation (entered_by p (fst (walkabout exts prune t))) (left_by p (fst (walkabout exts prune t))).
Proof. exact extension_leaves_what_it_entered. Qed.

(* the main visitor itself misses exactly the departures it asked to skip (SkipNode / SkipDeparture) *)
Theorem C19_main_leaves_unless_skipped :
  forall exts prune t,
    NoDup (main_id :: map ext_id exts) ->
    left_by main_id (fst (walkabout exts prune t)) = filter (main_departs prune) (postorder (traversed prune t)).
Proof. exact main_leaves_unless_skipped. Qed.

(* "enter/leave calls nest like the tree": read as pushes and pops, each leave of an extension pops the node it
   entered last and has not left yet, and the stack ends where it began -- from any starting stack. *)
Theorem C19_extension_calls_well_bracketed :
  forall (exts : list ext) (prune : N -> option action) (t : tree) (p : N) (st : list N),
    NoDup (main_id :: map ext_id exts) -> In p (map ext_id exts) ->
    stack_run (fun _ => true) (fun _ => true) (filter (who_is p) (fst (walkabout exts prune t))) st = Some st.
Proof. exact extension_calls_well_bracketed. Qed.

(* The walkabout() of the pinned commit (before the fix: commit) violated the projection property:
   a BEFORE extension enters node 2 and never leaves it when main raises SkipSiblings there. *)
Definition w_exts := [{| ext_id := 1; ext_when := BEFORE |}].
Definition w_prune (n : N) := if N.eqb n 2 then Some SkipSiblings else None.
Definition w_tree := Node 1 [Node 2 [Node 4 []]; Node 3 []].
Theorem C19_skipsiblings_old_refuted :
  filter (who_is 1) (fst (walkabout_old w_exts w_prune w_tree))
  <> dfs 1 (leaves_of w_prune 1) (traversed w_prune w_tree).
Proof. vm_compute. discriminate. Qed.

(* non-vacuity: the hypotheses are met by a concrete configuration, and the repaired code passes the witness *)
Example C19_hypotheses_satisfiable :
  NoDup (main_id :: map ext_id w_exts) /\ In 1%N (main_id :: map ext_id w_exts) /\
  filter (who_is 1) (fst (walkabout w_exts w_prune w_tree))
  = [Ev 1 Enter 1; Ev 1 Enter 2; Ev 1 Enter 4; Ev 1 Leave 4; Ev 1 Leave 2; Ev 1 Leave 1].
Proof.
  split; [|split].
  - repeat constructor; cbn; intuition discriminate.
  - cbn. auto.
  - vm_compute. reflexivity.
Qed.

Example C19_clause_hypotheses_satisfiable :
  NoDup (preorder w_tree) /\ In 1%N (map ext_id w_exts) /\
  entered_by 1 (fst (walkabout w_exts w_prune w_tree)) = [1; 2; 4]%N /\
  left_by 1 (fst (walkabout w_exts w_prune w_tree)) = [4; 2; 1]%N /\
  left_by main_id (fst (walkabout w_exts w_prune w_tree)) = [4; 2; 1]%N.
Proof.
  split; [|split; [|split; [|split]]]; try (vm_compute; reflexivity).
  - repeat constructor; cbn; intuition discriminate.
  - cbn. auto.
Qed.
