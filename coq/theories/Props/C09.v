(* Props/C09.v -- C09: rendering a docstring keeps its text: nothing is lost, altered or reordered.
   Only statements closed by `exact`; proofs live in Proofs/SegmentsProofs.v and Proofs/Fields*.v.

   Models:  Model/Segments.v  (epydoc/doctest.py: colorize_codeblock_body, subfunc, colorize_doctest_body)
            Model/Fields.v    (epydoc2stan.FieldHandler: handle_*, resolve_types, format; tables regenerated
                               from the live class into Gen/TablesC09.v)
            Model/Plaintext.v (plaintext.to_stan inside format_docstring)
   Specs:   Spec/Conserve.v (what re.finditer guarantees; the text a doctest block is shown as)
            Spec/Routing.v  (entry of each tag, "shown exactly once under its entry or reported",
                             the classes of field known to be dropped silently)

   NOT proved here (sampled by the correspondence check and the document oracle only): the block structurers
   (epytext _tokenize/parse, docutils' reST parser, napoleon), epytext's inline coloriser _colorize
   is proved for the markup without L{...}/U{...} links only (C09_epytext_inline_conserves_partial), node2stan,
   extract_fields (class/module variables). *)
From Coq Require Import ZArith NArith List Bool Arith String.
From PydoctorVerif Require Import Base.Sexp Model.FieldTypes Gen.TablesC09 Model.Segments Model.Fields Model.Plaintext
     Model.EpyInline Spec.Conserve Spec.Routing Spec.EpyMarkup Proofs.SegmentsProofs Proofs.FieldsCount Proofs.FieldsTables
     Proofs.FieldsProofs Proofs.EpyInlineProofs.
Import ListNotations.

(* ---- code highlighting ------------------------------------------------------------------------------------- *)

(* For every text and every finditer that satisfies the contract of re.finditer on DOCTEST_RE (matches in range,
   increasing, not overlapping, the last one ends at len(s); only the \Z alternative matches the empty string; a
   DEFINE match is word+ blank+ word+), every PROMPT2 oracle, and every pair of disjoint character classes \w / \s:
   colorize_codeblock_body runs to the end (neither `assert idx == len(s)`, nor `assert m is not None`, nor
   'Unexpected match' fires, the STRING loop needs no more than its fuel) and the concatenation of what it yields is
   the input, character for character. *)
Theorem C09_codeblock_conserves :
  forall (finditer : text -> list span) (prompt2 : text -> option nat) (is_word is_space : N -> bool) (s : text),
    classes_disjoint is_word is_space ->
    finditer_contract is_word is_space s (finditer s) ->
    exists segs, colorize_codeblock_body finditer prompt2 (define_re is_word is_space) s = Ok segs /\ text_of segs = s.
Proof. exact codeblock_conserves. Qed.

(* Without the clause "the last match ends at len(s)" the only other outcome is the final assertion:
   whatever is yielded completely is the input -- text is never dropped silently. *)
Theorem C09_codeblock_never_loses_silently :
  forall finditer prompt2 is_word is_space s segs,
    classes_disjoint is_word is_space ->
    finditer_contract_weak is_word is_space s (finditer s) ->
    colorize_codeblock_body finditer prompt2 (define_re is_word is_space) s = Ok segs -> text_of segs = s.
Proof. exact codeblock_never_loses_silently. Qed.

(* colorize_doctest_body: for every text, every example oracle (source ++ want spans in range, increasing) and
   every finditer satisfying its contract on every text, the body runs to the end and shows
       pre_1 src_1 want_1' pre_2 src_2 want_2' ... tail
   where want' is  want.rstrip() + "\n"  for a non-empty want and "" for an empty one  (Spec.Conserve.doctest_shown):
   the ONLY deviation from the input is white space at the end of an expected-output block.
   `_partial`: character-for-character conservation is false in general (C09_doctest_exact_refuted). *)
Theorem C09_doctest_conserves_partial :
  forall finditer (examples : text -> list example) prompt2 (is_except : text -> bool) is_word is_space s,
    classes_disjoint is_word is_space ->
    (forall t, finditer_contract is_word is_space t (finditer t)) ->
    examples_from (List.length s) 0 (examples s) ->
    exists segs, colorize_doctest_body finditer examples prompt2 (define_re is_word is_space) is_except s = Ok segs
                 /\ doctest_shown s 0 (examples s) (text_of segs).
Proof. exact doctest_conserves. Qed.

(* ... and exactly the input when every expected-output block is empty or ends in one newline that follows a
   non-white-space character. *)
Theorem C09_doctest_exact_when_normal :
  forall finditer (examples : text -> list example) prompt2 (is_except : text -> bool) is_word is_space s,
    classes_disjoint is_word is_space ->
    (forall t, finditer_contract is_word is_space t (finditer t)) ->
    examples_from (List.length s) 0 (examples s) ->
    Forall (fun e => want_is_normal (slice s (ex_src_end e) (ex_end e))) (examples s) ->
    exists segs, colorize_doctest_body finditer examples prompt2 (define_re is_word is_space) is_except s = Ok segs
                 /\ text_of segs = s.
Proof. exact doctest_exact. Qed.

(* the deviation is real:  ">>> a\n1 \n"  (expected output "1 " with a trailing blank) is shown as ">>> a\n1\n" *)
Definition w_dt_text : text := [62; 62; 62; 32; 97; 10; 49; 32; 10]%N.
Definition w_dt_finditer (t : text) : list span :=
  [ {| sp_start := 0; sp_end := 4; sp_kind := KPrompt1 |}; {| sp_start := 6; sp_end := 6; sp_kind := KEos |} ].
Definition w_dt_examples (t : text) : list example := [ {| ex_start := 0; ex_src_end := 6; ex_end := 9 |} ].
Theorem C09_doctest_exact_refuted :
  examples_from (List.length w_dt_text) 0 (w_dt_examples w_dt_text) /\
  finditer_contract (fun _ => false) (fun _ => false) (slice w_dt_text 0 6) (w_dt_finditer (slice w_dt_text 0 6)) /\
  exists segs, colorize_doctest_body w_dt_finditer w_dt_examples prompt2_re (define_re (fun _ => false) (fun _ => false))
                                     (fun _ => false) w_dt_text = Ok segs /\ text_of segs <> w_dt_text.
Proof.
  split; [|split].
  - cbn. repeat split; repeat constructor.
  - split; [cbn; repeat split; repeat constructor|].
    repeat constructor; unfold kind_ok; cbn; repeat constructor.
  - eexists. split; [vm_compute; reflexivity|]. vm_compute. discriminate.
Qed.

(* non-vacuity of the contracts: "def f" with its real spans *)
Definition w_cb_text : text := [100; 101; 102; 32; 102]%N.
Definition w_word (c : N) : bool := negb (N.eqb c 32).
Definition w_space (c : N) : bool := N.eqb c 32.
Example C09_codeblock_hypotheses_satisfiable :
  classes_disjoint w_word w_space /\
  finditer_contract w_word w_space w_cb_text
    [ {| sp_start := 0; sp_end := 5; sp_kind := KDefine |}; {| sp_start := 5; sp_end := 5; sp_kind := KEos |} ] /\
  colorize_codeblock_body (fun _ => [ {| sp_start := 0; sp_end := 5; sp_kind := KDefine |};
                                        {| sp_start := 5; sp_end := 5; sp_kind := KEos |} ])
                          prompt2_re (define_re w_word w_space) w_cb_text
  = Ok [(PyKeyword, [100; 101; 102]%N); (Plain, [32%N]); (PyDefname, [102%N])].
Proof.
  split; [|split].
  - intros c H. unfold w_word, w_space in *. destruct (N.eqb c 32); [discriminate | reflexivity].
  - split; [cbn; repeat split; repeat constructor|].
    constructor; [|constructor; [reflexivity | constructor]].
    unfold kind_ok. cbn [sp_kind sp_start sp_end]. split; [repeat constructor|].
    exists [100; 101; 102]%N, [32%N], [102%N]. repeat split; try discriminate; repeat constructor.
  - vm_compute. reflexivity.
Qed.

(* ---- fields --------------------------------------------------------------------------------------------------- *)

(* For the docstring of a function or method: every field that is not in one of the classes Spec.Routing.silently_lost
   describes from the input alone --
     (a) @return/@rtype/@yield/@ytype followed by another field of the same kind,
     (b) @type x followed by another @type x,
     (c) @ivar/@cvar/@var,
     (d) @param/@arg/@keyword x followed by another @param/@arg/@keyword x  (over-approximation, see Spec/Routing.v),
     (e) @type self / @type cls of a method / class method without a @param for it --
   has its text in EXACTLY ONE row of the rendered field table, and that row is under the label its tag belongs to
   (Parameters / Returns / Yields / Raises / Warns / See Also / Note(s) / Author(s) / Present Since / Unknown Field: tag),
   or a warning is reported on its line.  For every signature, object kind, docformat and field list.
   `_partial`: the unguarded statement is false of the faithful model (the C09_fields_routed_refuted theorems below). *)
Theorem C09_fields_routed_partial :
  forall (E : env) (fs : list field) (i : nat) (f : field),
    is_function_obj E = true -> no_silent_class E fs -> nth_error fs i = Some f ->
    routed i f (fst (fst (render E fs))) (snd (fst (render E fs))).
Proof. intros E fs i f H. exact (fields_routed E H fs i f). Qed.

(* what format() shows is what the buckets hold: no bucket is skipped, none is emitted twice, labels as documented
   (read off the regenerated format_plan) *)
Theorem C09_format_emits_every_bucket :
  forall st i (labels : text -> bool),
    secs_occ labels i (format st) =
      if_in labels (T "Parameters") (if params_shown st then pds_occ i (st_pdescs st) else 0) +
      if_in labels (T "Returns") (if ret_shown st then ret_occ i st else 0) +
      if_in labels (T "Yields") (yld_occ i st) +
      if_in labels (T "Raises") (raises_occ i st) +
      if_in labels (T "Warns") (warns_occ i st) +
      if_in labels (author_label st) (idx_occ i (st_authors st)) +
      if_in labels (T "See Also") (idx_occ i (st_seealsos st)) +
      if_in labels (T "Present Since") (idx_occ i (st_sinces st)) +
      if_in labels (note_label st) (idx_occ i (st_notes st)) +
      unknowns_occ (fun tag => labels (T "Unknown Field: " ++ tag)) i (st_unknowns st).
Proof. exact format_occurrences. Qed.

(* the regenerated handle_* table binds every tag to the handler the documentation says *)
Theorem C09_handler_table_as_documented : forallb row_ok handler_table = true.
Proof. exact handler_table_ok. Qed.

(* a @param / @arg whose name was already documented is reported ('Parameter "x" was already documented') *)
Theorem C09_dup_param_reported :
  forall E k f st n,
    lookup_handler (f_tag f) handler_table = Some HParam ->
    fst (handle_param_name E k f st) = Some n -> pdesc_named (pn_text n) st = true ->
    exists r, In r (st_reports (handle E k f st)) /\ rp_field r = k /\ rp_kind r = RAlreadyDoc /\ rp_name r = pn_text n.
Proof. exact dup_param_reported. Qed.

(* the silent classes are real: def f(x, **kw) / def m(self) *)
Local Open Scope string_scope.
Definition w_env : env :=
  {| e_obj := OFunction FFunction;
     e_sig := [({| pn_text := T "x"; pn_star := SNone |}, false); ({| pn_text := T "kw"; pn_star := SKw |}, false)];
     e_ret := 0; e_ctor := []; e_unknown_base := false; e_gn := false |}.
Definition w_menv : env :=
  {| e_obj := OFunction FMethod; e_sig := [({| pn_text := T "self"; pn_star := SNone |}, false)];
     e_ret := 0; e_ctor := []; e_unknown_base := false; e_gn := false |}.
Definition fld (tag : string) (arg : option string) : field := {| f_tag := T tag; f_arg := option_map T arg |}.

Definition not_routed (E : env) (fs : list field) (i : nat) : Prop :=
  exists f, nth_error fs i = Some f /\ ~ routed i f (fst (fst (render E fs))) (snd (fst (render E fs))).

Ltac refute :=
  let H := fresh "H" in
  eexists; split; [reflexivity|]; intro H; apply routed_routedb in H; vm_compute in H; discriminate.

(* (a) @return: A  @return: B  -- the first is replaced, no warning *)
Theorem C09_fields_routed_refuted : not_routed w_env [fld "return" None; fld "return" None] 0.
Proof. refute. Qed.
Theorem C09_fields_routed_refuted_rtype : not_routed w_env [fld "rtype" None; fld "returntype" None] 0.
Proof. refute. Qed.
Theorem C09_fields_routed_refuted_yield : not_routed w_env [fld "yield" None; fld "yields" None] 0.
Proof. refute. Qed.
Theorem C09_fields_routed_refuted_ytype : not_routed w_env [fld "ytype" None; fld "ytype" None] 0.
Proof. refute. Qed.
(* (b) @type x twice *)
Theorem C09_fields_routed_refuted_type :
  not_routed w_env [fld "param" (Some "x"); fld "type" (Some "x"); fld "type" (Some "x")] 1.
Proof. refute. Qed.
(* (c) @ivar in a function docstring *)
Theorem C09_fields_routed_refuted_ivar : not_routed w_env [fld "ivar" (Some "x")] 0.
Proof. refute. Qed.
(* (d) @keyword k twice *)
Theorem C09_fields_routed_refuted_keyword : not_routed w_env [fld "keyword" (Some "k"); fld "keyword" (Some "k")] 0.
Proof. refute. Qed.
(* (e) @type self on a method *)
Theorem C09_fields_routed_refuted_self : not_routed w_menv [fld "type" (Some "self"); fld "note" None] 0.
Proof. refute. Qed.

(* non-vacuity: a field list inside the guard, and what it renders to *)
Definition w_fields : list field :=
  [fld "param" (Some "x"); fld "type" (Some "x"); fld "keyword" (Some "k"); fld "return" None; fld "rtype" None;
   fld "raises" (Some "ValueError"); fld "note" None; fld "custom" (Some "a"); fld "param" None].
Example C09_fields_hypotheses_satisfiable :
  is_function_obj w_env = true /\
  forallb (fun i => match nth_error w_fields i with Some f => negb (silently_lost w_env w_fields i f) | None => true end)
          (seq 0 (List.length w_fields)) = true /\
  map (fun s => sec_label s) (fst (fst (render w_env w_fields)))
  = [T "Parameters"; T "Returns"; T "Raises"; T "Note"; T "Unknown Field: custom"] /\
  map rp_field (snd (fst (render w_env w_fields))) = [7; 8].
Proof. vm_compute. repeat split; reflexivity. Qed.


Local Close Scope string_scope.

(* ---- order of the parameter rows (resolve_types) ------------------------------------------------------------------ *)

(* self.types -- the dict resolve_types iterates over -- starts with the parameters of the signature, in signature
   order, whatever fields were handled; names that only have a @type come after. *)
Theorem C09_param_order_signature_first :
  forall E fs, is_function_obj E = true ->
    exists extra, key_texts (st_types (handle_all E 0 fs (init_state E))) = sig_names E ++ extra.
Proof. exact param_order_signature_first. Qed.

(* The rows resolve_types builds (before the **kwargs shuffle) are: exactly one row per entry of self.types, in that
   order -- leaving out only the FIRST entry when it is `self` of a method / `cls` of a class method AND no @param
   documents it (kept_types) -- followed by the documented names that are not in self.types, in the order they were
   first documented (a subsequence of the insertion-ordered params dict, containing exactly those names). *)
Theorem C09_param_order :
  forall E st,
    let params := params_dict (st_pdescs st) in
    forall new lft ai,
      rt_loop E 0 (st_types st) params (match params with [] => false | _ => true end) = (new, lft, ai) ->
      row_names new = key_texts (kept_types E (st_types st) params) /\
      subseq lft params /\
      (forall e, In e params -> (In e lft <-> existsb (text_eqb (pn_text (fst e))) (key_texts (st_types st)) = false)).
Proof. exact param_order_rows. Qed.

(* ... and the final list is that list (or the untouched parameter_descs when nothing is documented or annotated) with
   at most one change: the last row whose name is the **kwargs parameter is moved to the end -- or left out, only when
   it is undocumented (and explicit keywords are documented). *)
Theorem C09_param_order_kwargs :
  forall E st,
    exists descs,
      (st_pdescs (resolve_types E st) = descs \/
       exists k, In k descs /\ is_kw_name k = true /\
                 (st_pdescs (resolve_types E st) = remove_first k descs ++ [k] \/
                  (pdesc_documented k = false /\ st_pdescs (resolve_types E st) = remove_first k descs))) /\
      (descs = st_pdescs st \/
       exists new lft ai, rt_loop E 0 (st_types st) (params_dict (st_pdescs st))
                                  (match params_dict (st_pdescs st) with [] => false | _ => true end) = (new, lft, ai) /\
                          descs = new ++ map snd lft).
Proof. exact param_order_kwargs. Qed.

(* def m(self, a, *args, b, **kw) documented out of order, with an unknown name and an explicit keyword *)
Local Open Scope string_scope.
Definition w_order_env : env :=
  {| e_obj := OFunction FMethod;
     e_sig := [({| pn_text := T "self"; pn_star := SNone |}, false); ({| pn_text := T "a"; pn_star := SNone |}, true);
               ({| pn_text := T "args"; pn_star := SVar |}, false); ({| pn_text := T "b"; pn_star := SNone |}, false);
               ({| pn_text := T "kw"; pn_star := SKw |}, true)];
     e_ret := 2; e_ctor := []; e_unknown_base := false; e_gn := false |}.
Example C09_param_order_example :
  map (fun r => match row_name r with Some n => pn_text n | None => [] end)
      (flat_map (fun s => if text_eqb (sec_label s) (T "Parameters") then sec_rows s else [])
                (fst (fst (render w_order_env
                   [fld "param" (Some "b"); fld "param" (Some "zz"); fld "keyword" (Some "k1"); fld "param" (Some "a");
                    fld "type" (Some "kw"); fld "return" None]))))
  = [T "a"; T "args"; T "b"; T "zz"; T "k1"; T "kw"].
Proof. vm_compute. reflexivity. Qed.

Local Close Scope string_scope.

(* ---- plaintext ---------------------------------------------------------------------------------------------------- *)

(* A plaintext docstring is rendered as <div><p class="pre">docstring</p></div>: exactly one <p>, with class "pre",
   whose only child is the docstring as ONE str; the character data of the whole tree is the docstring.
   (That flatten()'s escaping of that str reads back as the same characters is C10's theorem.) *)
Theorem C09_plaintext_exact :
  forall d : text,
    text_content (format_docstring_plain d) = d /\
    elements t_p (format_docstring_plain d) = [PTag t_p [(t_class, t_pre)] [PText d]].
Proof.
  intros d. split; [cbn; rewrite !app_nil_r; reflexivity | reflexivity].
Qed.

(* ---- epytext inline markup -------------------------------------------------------------------------------------------- *)

(* epytext._colorize on the text of one paragraph: for every well-formed sequence of characters, regions
   C{..} M{..} I{..} B{..} (nested at will), literal brace groups {..}, escapes E{lb} E{rb} E{c} and symbols S{name}
   (Spec.EpyMarkup.well_formed: no stray brace, known region letter, valid codes, no literal brace group right after a
   capital letter), and whatever the two regex oracles answer: no error is reported and the text of the tree that
   _to_node turns into docutils nodes is the written text with the delimiters removed, escapes and symbols replaced by
   their character, everything else unchanged and in order.
   `_partial`: L{...} and U{...} (whose label/target split is two regular expressions) are not covered by the theorem;
   they are covered by the model/implementation correspondence and the generated-markup oracle only. *)
Theorem C09_epytext_inline_conserves_partial :
  forall (target_split : text -> option (text * text)) (link_target : etag -> text -> option text) (items : list mk),
    well_formed false items = true ->
    exists tree, colorize target_split link_target (show items) = (tree, []) /\ visible tree = shown items.
Proof. exact colorize_conserves. Qed.

(*  a B{b I{i}} {x} E{lb} S{alpha}  *)
Definition w_inline : list mk :=
  [MC 97; MC 32; MT 66 [MC 98; MC 32; MT 73 [MC 105]]; MC 32; MB [MC 120]; MC 32; ME [108; 98]; MC 32;
   MS [97; 108; 112; 104; 97]]%N.
Example C09_epytext_inline_hypotheses_satisfiable :
  well_formed false w_inline = true /\
  shown w_inline = [97; 32; 98; 32; 105; 32; 123; 120; 125; 32; 123; 32; 945]%N /\
  snd (colorize (fun _ => None) (fun _ _ => None) (show w_inline)) = [].
Proof. vm_compute. repeat split; reflexivity. Qed.
