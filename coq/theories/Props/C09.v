(* Props/C09.v -- C09: rendering a docstring keeps its text: nothing is lost, altered or reordered.
   Only statements closed by `exact`; proofs live in Proofs/SegmentsProofs.v and Proofs/Fields*.v.

   Models:  Model/Segments.v  (epydoc/doctest.py: colorize_codeblock_body, subfunc, colorize_doctest_body)
            Model/Fields.v    (epydoc2stan.FieldHandler: handle_*, resolve_types, format; tables regenerated
                               from the live class into Gen/TablesC09.v)
            Model/Plaintext.v (plaintext.to_stan inside format_docstring)
   Specs:   Spec/Conserve.v (what re.finditer guarantees; the text a doctest block is shown as)
            Spec/Routing.v  (entry of each tag, "shown exactly once under its entry or reported",
                             the classes of field known to be dropped silently)

   Tie of Model/Fields.v to the source as theorems (end of this file, the C09_code_ theorems): Model/FieldsIR.v (statement language +
   interpreter), Gen/FieldsCode.v (the CURRENT bodies of FieldHandler.handle_* / helpers / handleUnknownField /
   resolve_types, translated on every run by harness/gen/gen_c09_code.py), Spec/CodeTie.v (how interpreter states relate
   to model states), Proofs/FieldsIRProofs.v + Proofs/ResolveIRProofs.v (symbolic execution).

   NOT proved here (sampled by the correspondence check and the document oracle only): the block structurers
   (epytext _tokenize/parse, docutils' reST parser, napoleon), epytext's inline coloriser _colorize
   is proved for all well-formed markup, links included, under a contract on its two link regexes
   (C09_epytext_inline_conserves); node2stan and the line tokenizers are not modelled. *)
From Coq Require Import ZArith NArith List Bool Arith String.
From PydoctorVerif Require Import Base.Sexp Model.FieldTypes Gen.TablesC09 Model.Segments Model.Fields Model.Plaintext
     Model.EpyInline Model.ExtractFields Model.RstFields Model.EpyStruct Spec.Conserve Spec.Routing Spec.EpyMarkup Spec.Extract Spec.RstSplit
     Proofs.SegmentsProofs Proofs.FieldsCount Proofs.FieldsTables Proofs.FieldsProofs Proofs.EpyInlineProofs Proofs.ExtractProofs
     Proofs.RstFieldsProofs Proofs.EpyStructProofs.
From PydoctorVerif Require Model.FieldsIR Gen.FieldsCode Spec.CodeTie Proofs.FieldsIRProofs Proofs.ResolveIRProofs.
Import ListNotations.

(* ---- code highlighting ------------------------------------------------------------------------------------- *)

(* For every text and every finditer that satisfies the contract of re.finditer on DOCTEST_RE (matches in range,
   increasing, not overlapping, the last one ends at len(s); only the \Z alternative matches the empty string; a
   DEFINE match is word+ blank+ word+), every PROMPT2 oracle, and every pair of disjoint character classes \w / \s:
   colorize_codeblock_body runs to the end (neither `assert idx == len(s)`, nor `assert m is not None`, nor
   'Unexpected match' fires, the STRING loop needs no more than its fuel) and the concatenation of what it yields is
   the input, character for character. *)
Theorem C09_codeblock_conserves :
  forall (finditer : text -> list span) (prompt2 : text -> option nat) (is_word is_space : N -> bool) (s : text),
    classes_disjoint is_word is_space ->
    finditer_contract is_word is_space s (finditer s) ->
    exists segs, colorize_codeblock_body finditer prompt2 (define_re is_word is_space) s = Ok segs /\ text_of segs = s.
Proof. exact codeblock_conserves. Qed.

(* Without the clause "the last match ends at len(s)" the only other outcome is the final assertion:
   whatever is yielded completely is the input -- text is never dropped silently. *)
Theorem C09_codeblock_never_loses_silently :
  forall finditer prompt2 is_word is_space s segs,
    classes_disjoint is_word is_space ->
    finditer_contract_weak is_word is_space s (finditer s) ->
    colorize_codeblock_body finditer prompt2 (define_re is_word is_space) s = Ok segs -> text_of segs = s.
Proof. exact codeblock_never_loses_silently. Qed.

(* colorize_doctest_body: for every text, every example oracle (source ++ want spans in range, increasing) and
   every finditer satisfying its contract on every text, the body runs to the end and shows
       pre_1 src_1 want_1' pre_2 src_2 want_2' ... tail
   where want' is  want.rstrip() + "\n"  for a non-empty want and "" for an empty one  (Spec.Conserve.doctest_shown):
   the ONLY deviation from the input is white space at the end of an expected-output block.
   `_partial`: character-for-character conservation is false in general (C09_doctest_exact_refuted). *)
Theorem C09_doctest_conserves_partial :
  forall finditer (examples : text -> list example) prompt2 (is_except : text -> bool) is_word is_space s,
    classes_disjoint is_word is_space ->
    (forall t, finditer_contract is_word is_space t (finditer t)) ->
    examples_from (List.length s) 0 (examples s) ->
    exists segs, colorize_doctest_body finditer examples prompt2 (define_re is_word is_space) is_except s = Ok segs
                 /\ doctest_shown s 0 (examples s) (text_of segs).
Proof. exact doctest_conserves. Qed.

(* ... and exactly the input when every expected-output block is empty or ends in one newline that follows a
   non-white-space character. *)
Theorem C09_doctest_exact_when_normal :
  forall finditer (examples : text -> list example) prompt2 (is_except : text -> bool) is_word is_space s,
    classes_disjoint is_word is_space ->
    (forall t, finditer_contract is_word is_space t (finditer t)) ->
    examples_from (List.length s) 0 (examples s) ->
    Forall (fun e => want_is_normal (slice s (ex_src_end e) (ex_end e))) (examples s) ->
    exists segs, colorize_doctest_body finditer examples prompt2 (define_re is_word is_space) is_except s = Ok segs
                 /\ text_of segs = s.
Proof. exact doctest_exact. Qed.

(* the deviation is real:  ">>> a\n1 \n"  (expected output "1 " with a trailing blank) is shown as ">>> a\n1\n" *)
Definition w_dt_text : text := [62; 62; 62; 32; 97; 10; 49; 32; 10]%N.
Definition w_dt_finditer (t : text) : list span :=
  [ {| sp_start := 0; sp_end := 4; sp_kind := KPrompt1 |}; {| sp_start := 6; sp_end := 6; sp_kind := KEos |} ].
Definition w_dt_examples (t : text) : list example := [ {| ex_start := 0; ex_src_end := 6; ex_end := 9 |} ].
Theorem C09_doctest_exact_refuted :
  examples_from (List.length w_dt_text) 0 (w_dt_examples w_dt_text) /\
  finditer_contract (fun _ => false) (fun _ => false) (slice w_dt_text 0 6) (w_dt_finditer (slice w_dt_text 0 6)) /\
  exists segs, colorize_doctest_body w_dt_finditer w_dt_examples prompt2_re (define_re (fun _ => false) (fun _ => false))
                                     (fun _ => false) w_dt_text = Ok segs /\ text_of segs <> w_dt_text.
Proof.
  split; [|split].
  - cbn. repeat split; repeat constructor.
  - split; [cbn; repeat split; repeat constructor|].
    repeat constructor; unfold kind_ok; cbn; repeat constructor.
  - eexists. split; [vm_compute; reflexivity|]. vm_compute. discriminate.
Qed.

(* non-vacuity of the contracts: "def f" with its real spans *)
Definition w_cb_text : text := [100; 101; 102; 32; 102]%N.
Definition w_word (c : N) : bool := negb (N.eqb c 32).
Definition w_space (c : N) : bool := N.eqb c 32.
Example C09_codeblock_hypotheses_satisfiable :
  classes_disjoint w_word w_space /\
  finditer_contract w_word w_space w_cb_text
    [ {| sp_start := 0; sp_end := 5; sp_kind := KDefine |}; {| sp_start := 5; sp_end := 5; sp_kind := KEos |} ] /\
  colorize_codeblock_body (fun _ => [ {| sp_start := 0; sp_end := 5; sp_kind := KDefine |};
                                        {| sp_start := 5; sp_end := 5; sp_kind := KEos |} ])
                          prompt2_re (define_re w_word w_space) w_cb_text
  = Ok [(PyKeyword, [100; 101; 102]%N); (Plain, [32%N]); (PyDefname, [102%N])].
Proof.
  split; [|split].
  - intros c H. unfold w_word, w_space in *. destruct (N.eqb c 32); [discriminate | reflexivity].
  - split; [cbn; repeat split; repeat constructor|].
    constructor; [|constructor; [reflexivity | constructor]].
    unfold kind_ok. cbn [sp_kind sp_start sp_end]. split; [repeat constructor|].
    exists [100; 101; 102]%N, [32%N], [102%N]. repeat split; try discriminate; repeat constructor.
  - vm_compute. reflexivity.
Qed.

(* ---- fields --------------------------------------------------------------------------------------------------- *)

(* For the docstring of a function or method: every field that is not in one of the classes Spec.Routing.silently_lost
   describes from the input alone --
     (a) @return/@rtype/@yield/@ytype followed by another field of the same kind,
     (b) @type x followed by another @type x,
     (c) @ivar/@cvar/@var,
     (d) @param/@arg/@keyword x followed by another field for the same parameter, NONE of which pydoctor warns about
         (exact: a later @param/@arg x is always warned about, a later @keyword x only when x is in the signature or
         already has a @type -- Spec.Routing.later_dup_warned),
     (e) @type self / @type cls of a method / class method without a @param for it --
   has its text in EXACTLY ONE row of the rendered field table, and that row is under the label its tag belongs to
   (Parameters / Returns / Yields / Raises / Warns / See Also / Note(s) / Author(s) / Present Since / Unknown Field: tag),
   or a warning is reported on its line, or (a parameter documented again further down) a warning names the parameter
   ('Parameter "x" was already documented' / 'is documented as keyword').  For every signature, object kind, docformat and field list.
   `_partial`: the unguarded statement is false of the faithful model (the C09_fields_routed_refuted theorems below). *)
Theorem C09_fields_routed_partial :
  forall (E : env) (fs : list field) (i : nat) (f : field),
    is_function_obj E = true -> no_silent_class E fs -> nth_error fs i = Some f ->
    routed i f (fst (fst (render E fs))) (snd (fst (render E fs))).
Proof. intros E fs i f H. exact (fields_routed E H fs i f). Qed.

(* what format() shows is what the buckets hold: no bucket is skipped, none is emitted twice, labels as documented
   (read off the regenerated format_plan) *)
Theorem C09_format_emits_every_bucket :
  forall st i (labels : text -> bool),
    secs_occ labels i (format st) =
      if_in labels (T "Parameters") (if params_shown st then pds_occ i (st_pdescs st) else 0) +
      if_in labels (T "Returns") (if ret_shown st then ret_occ i st else 0) +
      if_in labels (T "Yields") (yld_occ i st) +
      if_in labels (T "Raises") (raises_occ i st) +
      if_in labels (T "Warns") (warns_occ i st) +
      if_in labels (author_label st) (idx_occ i (st_authors st)) +
      if_in labels (T "See Also") (idx_occ i (st_seealsos st)) +
      if_in labels (T "Present Since") (idx_occ i (st_sinces st)) +
      if_in labels (note_label st) (idx_occ i (st_notes st)) +
      unknowns_occ (fun tag => labels (T "Unknown Field: " ++ tag)) i (st_unknowns st).
Proof. exact format_occurrences. Qed.

(* the regenerated handle_* table binds every tag to the handler the documentation says *)
Theorem C09_handler_table_as_documented : forallb row_ok handler_table = true.
Proof. exact handler_table_ok. Qed.

(* a @param / @arg whose name was already documented is reported ('Parameter "x" was already documented') *)
Theorem C09_dup_param_reported :
  forall E k f st n,
    lookup_handler (f_tag f) handler_table = Some HParam ->
    fst (handle_param_name E k f st) = Some n -> pdesc_named (pn_text n) st = true ->
    exists r, In r (st_reports (handle E k f st)) /\ rp_field r = k /\ rp_kind r = RAlreadyDoc /\ rp_name r = pn_text n.
Proof. exact dup_param_reported. Qed.

(* the silent classes are real: def f(x, **kw) / def m(self) *)
Local Open Scope string_scope.
Definition w_env : env :=
  {| e_obj := OFunction FFunction;
     e_sig := [({| pn_text := T "x"; pn_star := SNone |}, false); ({| pn_text := T "kw"; pn_star := SKw |}, false)];
     e_ret := 0; e_ctor := []; e_unknown_base := false; e_gn := false |}.
Definition w_menv : env :=
  {| e_obj := OFunction FMethod; e_sig := [({| pn_text := T "self"; pn_star := SNone |}, false)];
     e_ret := 0; e_ctor := []; e_unknown_base := false; e_gn := false |}.
Definition fld (tag : string) (arg : option string) : field := {| f_tag := T tag; f_arg := option_map T arg |}.

Definition not_routed (E : env) (fs : list field) (i : nat) : Prop :=
  exists f, nth_error fs i = Some f /\ ~ routed i f (fst (fst (render E fs))) (snd (fst (render E fs))).

Ltac refute :=
  let H := fresh "H" in
  eexists; split; [reflexivity|]; intro H; apply routed_routedb in H; vm_compute in H; discriminate.

(* (a) @return: A  @return: B  -- the first is replaced, no warning *)
Theorem C09_fields_routed_refuted : not_routed w_env [fld "return" None; fld "return" None] 0.
Proof. refute. Qed.
Theorem C09_fields_routed_refuted_rtype : not_routed w_env [fld "rtype" None; fld "returntype" None] 0.
Proof. refute. Qed.
Theorem C09_fields_routed_refuted_yield : not_routed w_env [fld "yield" None; fld "yields" None] 0.
Proof. refute. Qed.
Theorem C09_fields_routed_refuted_ytype : not_routed w_env [fld "ytype" None; fld "ytype" None] 0.
Proof. refute. Qed.
(* (b) @type x twice *)
Theorem C09_fields_routed_refuted_type :
  not_routed w_env [fld "param" (Some "x"); fld "type" (Some "x"); fld "type" (Some "x")] 1.
Proof. refute. Qed.
(* (c) @ivar in a function docstring *)
Theorem C09_fields_routed_refuted_ivar : not_routed w_env [fld "ivar" (Some "x")] 0.
Proof. refute. Qed.
(* (d) @keyword k twice *)
Theorem C09_fields_routed_refuted_keyword : not_routed w_env [fld "keyword" (Some "k"); fld "keyword" (Some "k")] 0.
Proof. refute. Qed.
(* (e) @type self on a method *)
Theorem C09_fields_routed_refuted_self : not_routed w_menv [fld "type" (Some "self"); fld "note" None] 0.
Proof. refute. Qed.

(* duplicates that ARE warned about are inside the guard: @param x twice; @param x then @keyword x (x in the signature) *)
Example C09_fields_warned_duplicates_inside_guard :
  let fs := [fld "param" (Some "x"); fld "param" (Some "x"); fld "keyword" (Some "x")] in
  forallb (fun i => match nth_error fs i with Some f => negb (silently_lost w_env fs i f) | None => true end) (seq 0 3) = true /\
  dup_reportedb (fld "param" (Some "x")) (snd (fst (render w_env fs))) = true.
Proof. vm_compute. split; reflexivity. Qed.

(* non-vacuity: a field list inside the guard, and what it renders to *)
Definition w_fields : list field :=
  [fld "param" (Some "x"); fld "type" (Some "x"); fld "keyword" (Some "k"); fld "return" None; fld "rtype" None;
   fld "raises" (Some "ValueError"); fld "note" None; fld "custom" (Some "a"); fld "param" None].
Example C09_fields_hypotheses_satisfiable :
  is_function_obj w_env = true /\
  forallb (fun i => match nth_error w_fields i with Some f => negb (silently_lost w_env w_fields i f) | None => true end)
          (seq 0 (List.length w_fields)) = true /\
  map (fun s => sec_label s) (fst (fst (render w_env w_fields)))
  = [T "Parameters"; T "Returns"; T "Raises"; T "Note"; T "Unknown Field: custom"] /\
  map rp_field (snd (fst (render w_env w_fields))) = [7; 8].
Proof. vm_compute. repeat split; reflexivity. Qed.


Local Close Scope string_scope.

(* ---- order of the parameter rows (resolve_types) ------------------------------------------------------------------ *)

(* self.types -- the dict resolve_types iterates over -- starts with the parameters of the signature, in signature
   order, whatever fields were handled; names that only have a @type come after. *)
Theorem C09_param_order_signature_first :
  forall E fs, is_function_obj E = true ->
    exists extra, key_texts (st_types (handle_all E 0 fs (init_state E))) = sig_names E ++ extra.
Proof. exact param_order_signature_first. Qed.

(* The rows resolve_types builds (before the **kwargs shuffle) are: exactly one row per entry of self.types, in that
   order -- leaving out only the FIRST entry when it is `self` of a method / `cls` of a class method AND no @param
   documents it (kept_types) -- followed by the documented names that are not in self.types, in the order they were
   first documented (a subsequence of the insertion-ordered params dict, containing exactly those names). *)
Theorem C09_param_order :
  forall E st,
    let params := params_dict (st_pdescs st) in
    forall new lft ai,
      rt_loop E 0 (st_types st) params (match params with [] => false | _ => true end) = (new, lft, ai) ->
      row_names new = key_texts (kept_types E (st_types st) params) /\
      subseq lft params /\
      (forall e, In e params -> (In e lft <-> existsb (text_eqb (pn_text (fst e))) (key_texts (st_types st)) = false)).
Proof. exact param_order_rows. Qed.

(* ... and the final list is that list (or the untouched parameter_descs when nothing is documented or annotated) with
   at most one change: the last row whose name is the **kwargs parameter is moved to the end -- or left out, only when
   it is undocumented (and explicit keywords are documented). *)
Theorem C09_param_order_kwargs :
  forall E st,
    exists descs,
      (st_pdescs (resolve_types E st) = descs \/
       exists k, In k descs /\ is_kw_name k = true /\
                 (st_pdescs (resolve_types E st) = remove_first k descs ++ [k] \/
                  (pdesc_documented k = false /\ st_pdescs (resolve_types E st) = remove_first k descs))) /\
      (descs = st_pdescs st \/
       exists new lft ai, rt_loop E 0 (st_types st) (params_dict (st_pdescs st))
                                  (match params_dict (st_pdescs st) with [] => false | _ => true end) = (new, lft, ai) /\
                          descs = new ++ map snd lft).
Proof. exact param_order_kwargs. Qed.

(* def m(self, a, *args, b, **kw) documented out of order, with an unknown name and an explicit keyword *)
Local Open Scope string_scope.
Definition w_order_env : env :=
  {| e_obj := OFunction FMethod;
     e_sig := [({| pn_text := T "self"; pn_star := SNone |}, false); ({| pn_text := T "a"; pn_star := SNone |}, true);
               ({| pn_text := T "args"; pn_star := SVar |}, false); ({| pn_text := T "b"; pn_star := SNone |}, false);
               ({| pn_text := T "kw"; pn_star := SKw |}, true)];
     e_ret := 2; e_ctor := []; e_unknown_base := false; e_gn := false |}.
Example C09_param_order_example :
  map (fun r => match row_name r with Some n => pn_text n | None => [] end)
      (flat_map (fun s => if text_eqb (sec_label s) (T "Parameters") then sec_rows s else [])
                (fst (fst (render w_order_env
                   [fld "param" (Some "b"); fld "param" (Some "zz"); fld "keyword" (Some "k1"); fld "param" (Some "a");
                    fld "type" (Some "kw"); fld "return" None]))))
  = [T "a"; T "args"; T "b"; T "zz"; T "k1"; T "kw"].
Proof. vm_compute. reflexivity. Qed.

Local Close Scope string_scope.

(* ---- plaintext ---------------------------------------------------------------------------------------------------- *)

(* A plaintext docstring is rendered as <div><p class="pre">docstring</p></div>: exactly one <p>, with class "pre",
   whose only child is the docstring as ONE str; the character data of the whole tree is the docstring.
   (That flatten()'s escaping of that str reads back as the same characters is C10's theorem.) *)
Theorem C09_plaintext_exact :
  forall d : text,
    text_content (format_docstring_plain d) = d /\
    elements t_p (format_docstring_plain d) = [PTag t_p [(t_class, t_pre)] [PText d]].
Proof.
  intros d. split; [cbn; rewrite !app_nil_r; reflexivity | reflexivity].
Qed.

(* ---- epytext inline markup -------------------------------------------------------------------------------------------- *)

(* epytext._colorize on the text of one paragraph: for every well-formed sequence of characters, regions
   C{..} M{..} I{..} B{..} (nested at will), literal brace groups {..}, escapes E{lb} E{rb} E{c}, symbols S{name} and
   links L{label <target>} / U{label <target>} / L{name} / U{name} with arbitrarily marked-up labels
   (Spec.EpyMarkup.well_formed: no stray brace, known region letter, valid codes, no literal brace group right after a
   capital letter; a link's target / name is one the oracle accepts): no error is reported and the text of the tree that
   _to_node turns into docutils nodes is the written text with the delimiters removed, escapes and symbols replaced by
   their character, of a link only the label (L{name}: the name), everything else unchanged and in order.
   The two regular expressions of _colorize_link are oracles; their contract, for the targets / names `well_formed`
   admits:  _TARGET_RE splits  "tail   <tgt>"  into (tail, tgt) when tail has no brace / angle bracket and does not end
   in white space (the blanks before '<' are the only characters dropped);  a plain name has no '<...>' part;  the
   clean-up accepts the target.  (Checked against the real regexes by the correspondence stream.) *)
Theorem C09_epytext_inline_conserves :
  forall (target_split : text -> option (text * text)) (link_target : etag -> text -> option text)
         (good_target good_name : etag -> text -> bool),
    (forall tag tail ws tgt, good_target tag tgt = true -> tail_ok tail = true -> spaces ws = true ->
                             target_split (tail ++ ws ++ 60%N :: tgt ++ [62%N]) = Some (tail, tgt)) ->
    (forall tag tgt, good_target tag tgt = true -> exists tg, link_target tag tgt = Some tg) ->
    (forall tag name, good_name tag name = true -> target_split name = None /\ exists tg, link_target tag name = Some tg) ->
    forall items : list mk,
      well_formed good_target good_name false items = true ->
      exists tree, colorize target_split link_target (show items) = (tree, []) /\ visible tree = shown items.
Proof. exact colorize_conserves. Qed.

(*  a B{b I{i}} {x} E{lb} S{alpha} L{B{see} it  <m.f>} U{x}  *)
Definition w_inline : list mk :=
  [MC 97; MC 32; MT 66 [MC 98; MC 32; MT 73 [MC 105]]; MC 32; MB [MC 120]; MC 32; ME [108; 98]; MC 32;
   MS [97; 108; 112; 104; 97]; MC 32; ML 76 [MT 66 [MC 115; MC 101; MC 101]] [32; 105; 116] [32; 32] [109; 46; 102]; MC 32;
   MN 85 [120]]%N.
Definition w_split (t : text) : option (text * text) :=
  if text_eqb t [32; 105; 116; 32; 32; 60; 109; 46; 102; 62]%N then Some ([32; 105; 116], [109; 46; 102])%N else None.
Example C09_epytext_inline_hypotheses_satisfiable :
  well_formed (fun _ _ => true) (fun _ _ => true) false w_inline = true /\
  shown w_inline = [97; 32; 98; 32; 105; 32; 123; 120; 125; 32; 123; 32; 945; 32; 115; 101; 101; 32; 105; 116; 32; 120]%N /\
  snd (colorize w_split (fun _ t => Some t) (show w_inline)) = [] /\
  visible (fst (colorize w_split (fun _ t => Some t) (show w_inline))) = shown w_inline.
Proof. vm_compute. repeat split; reflexivity. Qed.

(* ---- variables documented in a class / module docstring (extract_fields) --------------------------------------------- *)

(* For every set of members the class / module already has and every field list: an @ivar / @cvar / @var / @type field
   (the tag list and the kinds are regenerated from the live function) without a name is reported ("Missing field name");
   with a name x its text is the docstring (the type, for @type) of an attribute called x and occurs in no other slot of
   any attribute -- unless a later field for the same name and the same slot replaces it (Spec.Extract.xreplaced).
   `_partial`: without that guard the statement is false (C09_extract_fields_refuted). *)
Theorem C09_extract_fields_routed_partial :
  forall (contents : list text) (fs : list field) (i : nat) (f : field),
    nth_error fs i = Some f -> is_extract_tag (f_tag f) = true -> xreplaced fs i f = false ->
    xrouted i f (fst (extract_fields contents fs)) (snd (extract_fields contents fs)).
Proof. exact extract_routed. Qed.

Local Open Scope string_scope.
(* @ivar x: A  @cvar x: B  -- the first text is on no attribute, nothing is reported *)
Theorem C09_extract_fields_refuted :
  let fs := [fld "ivar" (Some "x"); fld "cvar" (Some "x")] in
  attrs_occ 0 (fst (extract_fields [] fs)) = 0 /\ snd (extract_fields [] fs) = [].
Proof. vm_compute. split; reflexivity. Qed.

Example C09_extract_fields_example :
  let fs := [fld "ivar" (Some "a"); fld "type" (Some "a"); fld "var" None; fld "note" None; fld "cvar" (Some "new")] in
  forallb (fun i => match nth_error fs i with Some f => negb (xreplaced fs i f) | None => true end) (seq 0 5) = true /\
  map (fun a => (xa_name a, xa_doc a, xa_type a, xa_created a)) (fst (extract_fields [T "a"; T "m"] fs))
  = [(T "a", Some 0, Some 1, false); (T "m", None, None, false); (T "new", Some 4, None, true)] /\
  snd (extract_fields [T "a"; T "m"] fs) = [2].
Proof. vm_compute. repeat split; reflexivity. Qed.
Local Close Scope string_scope.

(* ---- the reST field splitter (_SplitFieldsTranslator) ------------------------------------------------------------------- *)

(* For every field (name, body nodes), every translator state and every str.lower: visit_field appends fields and errors
   in exactly one of four ways (Spec.RstSplit.field_split_ok): the field as it is (its body untouched); one field per
   item of a well-formed consolidated bullet list (argument = the marked identifier, body = ALL the other nodes of the
   item, the paragraph minus the identifier and the separator); one or two fields per item of a well-formed consolidated
   definition list (definition -> body, classifier -> @type); or one error + (at most a @newfield marker) + the field
   as it is.  Nothing else is possible: a body node can only leave through the argument, the separator, or a field. *)
Theorem C09_rst_field_split :
  forall (lower : text -> text) (name : text) (body : list rnode) (st : rstate),
    let st' := visit_field lower name body st in
    exists added errs,
      rs_fields st' = rs_fields st ++ added /\ rs_errors st' = rs_errors st ++ errs /\
      field_split_ok (fst (split_name name)) (snd (split_name name)) body added errs.
Proof. exact visit_field_ok. Qed.

(* ... and counted on the text: the body is the body of one produced field; or every list item reads
   identifier ++ separator ++ text of the body of its field; or every definition-list item reads
   identifier ++ classifier text (body of the @type field) ++ definition text (body of the field). *)
Theorem C09_rst_field_split_conserves :
  forall tagname arg body added errs,
    field_split_ok tagname arg body added errs ->
    (exists f, In f added /\ of_body f = body /\ of_newfield f = false)
    \/ (exists items fs seps, body = [RElem RBulletList items] /\ added = fs /\
          Forall3 (fun item f sep => exists a, of_arg f = Some a /\ astext item = a ++ sep ++ nodes_text (of_body f) /\ is_sep_or_nil sep)
                  items fs seps)
    \/ (exists items fss, body = [RElem RDefList items] /\ added = List.concat fss /\
          Forall2 (fun item fs => match fs with
                                  | [f] => exists a, of_arg f = Some a /\ astext item = a ++ nodes_text (of_body f)
                                  | [f; ty] => exists a, of_arg f = Some a /\ of_arg ty = Some a /\
                                                         astext item = a ++ nodes_text (of_body ty) ++ nodes_text (of_body f)
                                  | _ => False
                                  end) items fss).
Proof. exact split_conserves_text. Qed.

(*  :Parameters:  - `x`: d  <second paragraph>   gives   @param x: d  <second paragraph>  *)
Example C09_rst_field_split_example :
  let item := RElem RListItem [RElem RPara [RElem RTitleRef [RText [120%N]]; RText [58; 32; 100]%N]; RElem RPara [RText [50%N]]] in
  rs_fields (visit_field (fun t => t) [112; 97; 114; 97; 109; 101; 116; 101; 114; 115]%N [RElem RBulletList [item]]
                         {| rs_fields := []; rs_errors := []; rs_newfields := [] |})
  = [{| of_tag := [112; 97; 114; 97; 109]%N; of_arg := Some [120%N];
        of_body := [RElem RPara [RText [100%N]]; RElem RPara [RText [50%N]]]; of_newfield := false |}].
Proof. vm_compute. reflexivity. Qed.

(* ---- the epytext block structurer (parse over the token list of _tokenize) ----------------------------------------------- *)

(* For every token list (whatever the tokenizer returned: tags, indentations -- known or not --, heading levels, bullets):
   if the structurer does not crash, the tokens of the tree it builds, read in document order (a list item / field counts
   as its bullet token), are the tokens it was given, in the same order, each at most once; and either ALL of them are
   there, or an "Improper paragraph indentation" error (code 1) was reported -- the only way a token leaves the tree. *)
Theorem C09_epytext_structure_keeps_tokens :
  forall tks st errs seen,
    EpyStruct.parse tks = Done st errs seen ->
    exists t kept, final_tree st = Some t /\ tree_tokens t = kept /\ subseq kept (seq 0 (List.length tks)) /\
                   (kept = seq 0 (List.length tks) \/ has_para_error errs).
Proof. exact parse_keeps_tokens. Qed.

Theorem C09_epytext_structure_no_error_all_tokens :
  forall tks st seen,
    EpyStruct.parse tks = Done st [] seen ->
    exists t, final_tree st = Some t /\ tree_tokens t = seq 0 (List.length tks).
Proof. exact parse_no_error_all_tokens. Qed.

(* para / "- item" / its paragraph / "- item" / para at the outer indentation *)
Definition w_tok (tag : tktag) (ind : option nat) (b : bkind) : token :=
  {| tk_tag := tag; tk_indent := ind; tk_level := 0; tk_bullet := b; tk_comps := []; tk_last := 0%Z; tk_startline := 1 |}.
Example C09_epytext_structure_example :
  match EpyStruct.parse [w_tok TkPara (Some 0) BkUlist; w_tok TkBullet (Some 2) BkUlist; w_tok TkPara None BkUlist;
                         w_tok TkBullet (Some 2) BkUlist; w_tok TkPara (Some 4) BkUlist; w_tok TkLBlock (Some 5) BkUlist;
                         w_tok TkPara (Some 0) BkUlist] with
  | Done st errs _ => errs = [] /\ option_map tree_tokens (final_tree st) = Some [0; 1; 2; 3; 4; 5; 6]
  | Crash _ => False
  end.
Proof. vm_compute. split; reflexivity. Qed.

(* The structurer CAN crash: "- z / (blank) / Topic / ===== / text" gives the tokens bullet(0) para(?) heading(0) para(0);
   the heading is refused ("Headings must occur at the top level"), the stack is emptied down to the document whose
   indentation is still unknown, a section with unknown indentation is pushed, and the next paragraph compares
   `indent < None`: TypeError (the real parse raises it on this input; the docstring then falls back to plain text). *)
Theorem C09_epytext_structure_crash_witness :
  EpyStruct.parse [w_tok TkBullet (Some 0) BkUlist; w_tok TkPara None BkUlist; w_tok TkHeading (Some 0) BkUlist;
                   w_tok TkPara (Some 0) BkUlist] = Crash 1.
Proof. vm_compute. reflexivity. Qed.

(* ---- the tie of Model/Fields.v to the source, as theorems ------------------------------------------------------------
   Gen/FieldsCode.v holds the bodies of FieldHandler._report_unexpected_argument, _handle_param_name,
   _handle_param_not_found, every handle_<tag> method, handleUnknownField and resolve_types, translated statement by statement from
   /repo's CURRENT pydoctor/epydoc2stan.py (harness/gen/gen_c09_code.py, fail-closed, rerun on every check) into the
   statement language of Model/FieldsIR.v; which method a tag selects is Gen/TablesC09.handler_table (read off the live
   class).  Interpreting THAT code from the state that corresponds to a model state st (Spec/CodeTie.irstate: the same
   attributes; the warnings of the model rendered to their text by Spec/Routing.render_report) never gets stuck and
   ends in the state that corresponds to what the hand-written model computes: same buckets, same rows, same
   duplicates handling, same warnings word for word -- for every object, signature, field and state. *)
Import Model.FieldsIR Gen.FieldsCode Spec.CodeTie Proofs.FieldsIRProofs Proofs.ResolveIRProofs.
Theorem C09_code_unexpected_argument_is_model :
  forall E i f j st,
    call1 fields_code E i f MUnexpectedArg [VField j] (irstate st) = Some (VNone, irstate (unexpected_arg i f st)).
Proof. exact code_unexpected_is_model. Qed.

Theorem C09_code_param_name_is_model :
  forall E i f j st,
    call1 fields_code E i f MParamName [VField j] (irstate st) =
    Some (vname (fst (handle_param_name E i f st)), irstate (snd (handle_param_name E i f st))).
Proof. exact code_param_name_is_model. Qed.

Theorem C09_code_param_not_found_is_model :
  forall E i f j n st,
    call1 fields_code E i f MParamNotFound [VName n; VField j] (irstate st) =
    Some (VNone, irstate (handle_param_not_found E i n st)).
Proof. exact code_param_not_found_is_model. Qed.

(* each handle_<tag> method *)
Theorem C09_code_handler_is_model :
  forall E i f h st,
    run_method E i f (code_handler h) st = Some (VNone, irstate (model_handler E i f h st)).
Proof. exact code_handler_is_model. Qed.

Theorem C09_code_unknown_field_is_model :
  forall E i f st,
    run_method E i f code_handleUnknownField st = Some (VNone, irstate (handle_unknown i f st)).
Proof. exact code_handle_unknown_is_model. Qed.

(* FieldHandler.handle: getattr(self, 'handle_' + field.tag, self.handleUnknownField)(field) *)
Theorem C09_code_handle_is_model :
  forall E i f st, handle_ir fields_code E i f (irstate st) = Some (irstate (handle E i f st)).
Proof. exact code_handle_is_model. Qed.

(* format_docstring's loop over the fields of a docstring, from a fresh FieldHandler: the translated code reaches the
   state C09_fields_routed_partial and C09_param_order are about *)
Theorem C09_code_handle_all_is_model :
  forall E fs,
    handle_all_ir fields_code E 0 fs {| ms_st := init_state E; ms_msgs := [] |} =
    Some (irstate (handle_all E 0 fs (init_state E))).
Proof. exact code_run_is_model. Qed.

(* fh.resolve_types(): the translated body (two loops, try/except KeyError/else, continue, list.remove) puts the parameter
   table in the order Model/Fields.resolve_types computes -- which C09_param_order* are about *)
Theorem C09_code_resolve_types_is_model :
  forall E st, resolve_ir fields_code E (irstate st) = Some (irstate (resolve_types E st)).
Proof. exact code_resolve_is_model. Qed.

(* format_docstring's use of FieldHandler from start to end: handle every field, then resolve_types for a function *)
Theorem C09_code_final_state_is_model :
  forall E fs, final_ir fields_code E fs = Some (irstate (final_state E fs)).
Proof. exact code_final_is_model. Qed.

(* hence the property itself, stated on the translated code: the sections format() makes of the state the code reaches
   and the warnings the code built (reps: the records whose rendering those texts are) *)
Theorem C09_code_fields_routed :
  forall E fs ms i f,
    is_function_obj E = true -> no_silent_class E fs -> nth_error fs i = Some f ->
    final_ir fields_code E fs = Some ms ->
    exists reps, ms_msgs ms = map rend reps /\ routed i f (format (ms_st ms)) reps.
Proof. exact code_fields_routed. Qed.

(* the translated code is not vacuous: "@param x: .. / @param x: .." on def f(x) warns in the words of the source *)
Local Open Scope string_scope.
Example C09_code_example :
  option_map (fun ms => map snd (ms_msgs ms))
    (handle_all_ir fields_code w_env 0 [fld "param" (Some "x"); fld "param" (Some "x")]
       {| ms_st := init_state w_env; ms_msgs := [] |})
  = Some [T "Parameter ""x"" was already documented"].
Proof. vm_compute. reflexivity. Qed.
