(* Props/C10.v -- C10: generated pages are well-formed and source text can never become markup.
   Only statements closed by `exact`; proofs live in Proofs/EscProofs.v.
   Models: Model/Stan.v (twisted flatten and its two escapers, tables regenerated from the installed twisted),
   Model/DocutilsEsc.v, Model/Html2Stan.v, Model/DeprecateText.v.  Specs: Spec/Xml.v (an XML 1.0 subset reader
   written from the recommendation), Spec/StanXml.v (what a stan tree means). *)
From Coq Require Import ZArith NArith List Bool.
From PydoctorVerif Require Import Base.Sexp Gen.TablesC10 Model.Stan Spec.Xml Spec.StanXml Proofs.EscProofs.
Import ListNotations.
Local Open Scope N_scope.

(* Both escapers are inverted by the XML reader's reference/character-data decoder, for every text of XML Chars. *)
Theorem C10_escape_roundtrip :
  forall t, forallb xml_char t = true ->
    unescape (escape_content t) = Some t /\ unescape (escape_attr t) = Some t.
Proof. intros t H. split; [exact (unescape_escape_content t H) | exact (unescape_escape_attr t H)]. Qed.

(* The escaped forms hold no '<' (60), no '>' (62) -- nor the double quote (34) for attribute values -- for ANY text. *)
Theorem C10_escape_no_markup :
  forall t, (~ In 60 (escape_content t) /\ ~ In 62 (escape_content t)) /\
            (~ In 60 (escape_attr t) /\ ~ In 62 (escape_attr t) /\ ~ In 34 (escape_attr t)).
Proof. intro t. split; [exact (escape_content_no_markup t) | exact (escape_attr_no_markup t)]. Qed.

(* ... and are a concatenation of one piece per input character, each piece a single ordinary character or one of the
   entities &amp; &lt; &gt; (&quot;): in particular every '&' of the output starts one of the emitted entities. *)
Theorem C10_escape_pieces :
  forall t,
    (exists pieces, escape_content t = concat pieces /\ Forall content_piece pieces /\ length pieces = length t) /\
    (exists pieces, escape_attr t = concat pieces /\ Forall attr_piece pieces /\ length pieces = length t).
Proof. intro t. split; [exact (escape_content_pieces t) | exact (escape_attr_pieces t)]. Qed.

(* For every stan tree whose tag and attribute NAMES are XML names (attribute names unique per tag) and whose characters
   are XML Chars, the XML reader reads the flattened text back as the tree itself, adjacent text merged: the output is
   well-formed and balanced, whatever characters texts and attribute values hold. *)
Theorem C10_flatten_reads_back :
  forall s, wf s = true -> read (flatten s) = Some (norm s).
Proof. exact flatten_reads_back. Qed.

(* Hence no element, attribute or text is introduced or lost: the elements and attributes read back are those of the
   tree's Tags, in document order, and the character data read back is the concatenation of the tree's texts. *)
Theorem C10_no_markup_from_text :
  forall s, wf s = true ->
    exists f, read (flatten s) = Some f /\ element_names f = tag_names s /\ attribute_names f = attr_names s /\
              forest_text f = stan_text s.
Proof. exact flatten_no_markup_from_text. Qed.

(* Characters that are not XML Chars -- exactly: C0 controls other than TAB LF CR, surrogates, U+FFFE, U+FFFF, and
   anything above U+10FFFF -- pass through both escapers verbatim, and the reader refuses a text that holds one:
   this is what the property sets aside. *)
Theorem C10_ctrl_chars_partial :
  (forall c, illegal c = true <->
     (c < 32 /\ c <> 9 /\ c <> 10 /\ c <> 13) \/ (55296 <= c <= 57343) \/ c = 65534 \/ c = 65535 \/ 1114111 < c) /\
  (forall c, illegal c = true -> escape_content [c] = [c] /\ escape_attr [c] = [c]) /\
  (forall t, existsb illegal t = true -> read (flatten (SText t)) = None).
Proof. split; [exact illegal_spec | split; [exact illegal_chars_survive | exact illegal_chars_rejected]]. Qed.

(* non-vacuity: a tree holding script tags, a CDATA end, a comment end, entity look-alikes and quotes, in text and in
   an attribute, satisfies the hypothesis; its flattened form is read back as itself. *)
Definition nasty : text :=
  [60; 115; 99; 114; 105; 112; 116; 62; 93; 93; 62; 45; 45; 62; 38; 108; 116; 59; 34; 39; 38; 35; 54; 48; 59].
Definition w_tree : stan :=
  STag [100; 105; 118] [([99; 108; 97; 115; 115], nasty)]
       [SText nasty; STag [] [] [SText [60]]; STag [98; 114] [] []; SText nasty].
Example C10_hypotheses_satisfiable :
  wf w_tree = true /\
  read (flatten w_tree)
  = Some [XElem [100; 105; 118] [([99; 108; 97; 115; 115], nasty)]
                [XText (nasty ++ [60]); XElem [98; 114] [] []; XText nasty]].
Proof. split; vm_compute; reflexivity. Qed.
