(* Props/C10.v -- C10: generated pages are well-formed and source text can never become markup.
   Only statements closed by `exact`; proofs live in Proofs/EscProofs.v.
   Models: Model/Stan.v (twisted flatten and its two escapers, tables regenerated from the installed twisted),
   Model/DocutilsEsc.v, Model/Html2Stan.v, Model/DeprecateText.v.  Specs: Spec/Xml.v (an XML 1.0 subset reader
   written from the recommendation), Spec/StanXml.v (what a stan tree means). *)
From Coq Require Import ZArith NArith List Bool.
From PydoctorVerif Require Import Base.Sexp Gen.TablesC10 Model.Stan Model.DocutilsEsc Model.Html2Stan Model.DeprecateText
  Model.ReparseIR Gen.ReparseCode Spec.Xml Spec.StanXml Proofs.EscProofs Proofs.ReparseProofs Proofs.DeprecateProofs
  Proofs.ReparseIRProofs.
Import ListNotations.
Local Open Scope N_scope.

(* Both escapers are inverted by the XML reader's reference/character-data decoder, for every text of XML Chars. *)
Theorem C10_escape_roundtrip :
  forall t, forallb xml_char t = true ->
    unescape (escape_content t) = Some t /\ unescape (escape_attr t) = Some t.
Proof. intros t H. split; [exact (unescape_escape_content t H) | exact (unescape_escape_attr t H)]. Qed.

(* The escaped forms hold no '<' (60), no '>' (62) -- nor the double quote (34) for attribute values -- for ANY text. *)
Theorem C10_escape_no_markup :
  forall t, (~ In 60 (escape_content t) /\ ~ In 62 (escape_content t)) /\
            (~ In 60 (escape_attr t) /\ ~ In 62 (escape_attr t) /\ ~ In 34 (escape_attr t)).
Proof. intro t. split; [exact (escape_content_no_markup t) | exact (escape_attr_no_markup t)]. Qed.

(* ... and are a concatenation of one piece per input character, each piece a single ordinary character or one of the
   entities &amp; &lt; &gt; (&quot;): in particular every '&' of the output starts one of the emitted entities. *)
Theorem C10_escape_pieces :
  forall t,
    (exists pieces, escape_content t = concat pieces /\ Forall content_piece pieces /\ length pieces = length t) /\
    (exists pieces, escape_attr t = concat pieces /\ Forall attr_piece pieces /\ length pieces = length t).
Proof. intro t. split; [exact (escape_content_pieces t) | exact (escape_attr_pieces t)]. Qed.

(* For every stan tree whose tag and attribute NAMES are XML names (attribute names unique per tag) and whose characters
   are XML Chars, the XML reader reads the flattened text back as the tree itself, adjacent text merged: the output is
   well-formed and balanced, whatever characters texts and attribute values hold. *)
Theorem C10_flatten_reads_back :
  forall s, wf s = true -> read (flatten s) = Some (norm s).
Proof. exact flatten_reads_back. Qed.

(* Hence no element, attribute or text is introduced or lost: the elements and attributes read back are those of the
   tree's Tags, in document order, and the character data read back is the concatenation of the tree's texts. *)
Theorem C10_no_markup_from_text :
  forall s, wf s = true ->
    exists f, read (flatten s) = Some f /\ element_names f = tag_names s /\ attribute_names f = attr_names s /\
              forest_text f = stan_text s.
Proof. exact flatten_no_markup_from_text. Qed.

(* Characters that are not XML Chars -- exactly: C0 controls other than TAB LF CR, surrogates, U+FFFE, U+FFFF, and
   anything above U+10FFFF -- pass through both escapers verbatim, and the reader refuses a text that holds one:
   this is what the property sets aside. *)
Theorem C10_ctrl_chars_partial :
  (forall c, illegal c = true <->
     (c < 32 /\ c <> 9 /\ c <> 10 /\ c <> 13) \/ (55296 <= c <= 57343) \/ c = 65534 \/ c = 65535 \/ 1114111 < c) /\
  (forall c, illegal c = true -> escape_content [c] = [c] /\ escape_attr [c] = [c]) /\
  (forall t, existsb illegal t = true -> read (flatten (SText t)) = None).
Proof. split; [exact illegal_spec | split; [exact illegal_chars_survive | exact illegal_chars_rejected]]. Qed.

Definition nasty : text :=
  [60; 115; 99; 114; 105; 112; 116; 62; 93; 93; 62; 45; 45; 62; 38; 108; 116; 59; 34; 39; 38; 35; 54; 48; 59].

(* docutils' encode / attval (the escaping of every text node and attribute value the HTML writer emits): no '<' (60),
   '>' (62), double quote (34) in the output for ANY text; and the XML reader inverts them -- attval after mapping the
   white space characters TAB LF VT FF CR to a space -- except for U+00A0, which the html4css1 writer emits as an entity that
   XML does not define (see C10_html2stan_roundtrip_refuted). *)
Theorem C10_docutils_escape :
  forall t,
    (~ In 60 (encode t) /\ ~ In 62 (encode t) /\ ~ In 34 (encode t)) /\
    (~ In 60 (attval t) /\ ~ In 62 (attval t) /\ ~ In 34 (attval t)) /\
    (forallb xml_char t = true -> ~ In 160 t -> unescape (encode t) = Some t) /\
    (forallb (fun c => xml_char c || memN c attval_ws) t = true -> ~ In 160 t ->
       unescape (attval t) = Some (map ws_space t)).
Proof.
  intro t. split; [exact (encode_no_markup t)|]. split; [exact (attval_no_markup t)|].
  split; [exact (unescape_encode t) | exact (unescape_attval t)].
Qed.

(* The re-parse path of signatures, colourised values and docstrings: for every text of XML Chars and C0 controls --
   NO-BREAK SPACE excepted -- html2stan (encode t) is the transparent tag holding ONE text node (none for the empty text):
   the text itself, line ends normalised, each control character (FORM FEED included, since the repair cc2b510) neutralised
   by stanutils._RE_CONTROL's substitute.  No element, no attribute can come out of t. *)
Theorem C10_html2stan_roundtrip_partial :
  forall t, forallb reparse_ok t = true ->
    html2stan (encode t) = H2Ok (STag [] [] (text_kids (neutralise (eol_norm t)))).
Proof. exact html2stan_encode. Qed.

(* ... and on the unchanged tree it does fail for the excepted character: the parser raises, the caller drops the whole
   signature / value / docstring rendering (known finding C10-nbsp-reparse). *)
Theorem C10_html2stan_roundtrip_refuted : html2stan (encode [160]) = H2ParseError.
Proof. exact html2stan_nbsp. Qed.

(* Before the repair cc2b510 the control class exempted FORM FEED, which XML forbids: the path failed on it too.
   With the repaired class it is shown as the four characters backslash x 0 c. *)
Theorem C10_html2stan_formfeed_old_refuted :
  html2stan_old (encode [12]) = H2ParseError /\
  html2stan (encode [12]) = H2Ok (STag [] [] [SText [92; 120; 48; 99]]).
Proof. exact html2stan_formfeed_old. Qed.

Example C10_html2stan_hypotheses_satisfiable :
  forallb reparse_ok (nasty ++ [1; 13; 10; 11; 12; 31]) = true /\
  html2stan (encode (nasty ++ [1; 13; 10; 11; 12; 31]))
  = H2Ok (STag [] [] [SText (nasty ++ [92; 120; 48; 49; 10; 92; 120; 48; 98; 92; 120; 48; 99; 92; 120; 49; 102])]).
Proof. split; vm_compute; reflexivity. Qed.

(* Start tags of the docutils writer as pydoctor drives it (rst- prefixing, heading class, class / id merging): whatever
   the node's classes and ids and the keyword attributes hold, the tag proper reads back as ONE element whose attributes
   are the computed ones with attval-normalised values: values cannot close the tag, add attributes or open elements.
   Hypotheses: tag and attribute names are XML names (they are literals of the writer), values hold XML Chars / white space
   and no U+00A0.  partial: the <span id=...> anchors docutils adds for additional ids are written without attval. *)
Theorem C10_starttag_safe_partial :
  forall i p t a s,
    starttag_parts i = Some (p, t, a, s) ->
    is_name t = true -> forallb (fun kv => is_name (fst kv)) a = true -> forallb value_ok a = true ->
    read (open_tag t a (st_empty i) ++ (if st_empty i then [] else 60 :: 47 :: t ++ [62]))
    = Some [XElem t (rendered_attrs a) []].
Proof. exact starttag_reads_back. Qed.

(* additional ids are interpolated raw: with a quote in the second id the output is not well-formed.  (docutils only ever
   stores ids normalised by make_id there; pydoctor's epytext sections use one slugified id.) *)
Definition w_ids : starttag_in :=
  {| st_tag := [100; 105; 118]; st_node_classes := []; st_node_ids := [[97]; [34; 60]];
     st_inline_first := false; st_empty := false; st_suffix := []; st_attrs := [] |}.
Theorem C10_starttag_extra_ids_refuted :
  exists out, starttag w_ids = Some out /\ read (out ++ [60; 47; 100; 105; 118; 62]) = None.
Proof.
  exists [60; 100; 105; 118; 32; 105; 100; 61; 34; 114; 115; 116; 45; 97; 34; 62; 60; 115; 112; 97; 110; 32; 105; 100; 61;
          34; 114; 115; 116; 45; 34; 60; 34; 62; 60; 47; 115; 112; 97; 110; 62].
  split; vm_compute; reflexivity.
Qed.

Definition w_start : starttag_in :=
  {| st_tag := [72; 50]; st_node_classes := [nasty]; st_node_ids := [nasty];
     st_inline_first := false; st_empty := false; st_suffix := [10];
     st_attrs := [([67; 76; 65; 83; 83], AStr nasty); ([104; 114; 101; 102], AStr (35 :: nasty));
                  ([116; 105; 116; 108; 101], AStr nasty)] |}.
Example C10_starttag_hypotheses_satisfiable :
  match starttag_parts w_start with
  | Some (p, t, a, s) =>
    is_name t = true /\ forallb (fun kv => is_name (fst kv)) a = true /\ forallb value_ok a = true /\ length a = 4%nat
  | None => False
  end.
Proof. vm_compute. auto. Qed.

(* validate_identifier accepts exactly the texts whose dot-separated pieces are Python identifiers (str.isidentifier, tables
   regenerated from the running Python); an accepted text holds, among ASCII characters, only letters, digits, '_' and '.',
   and no line separator, white space or back-quote: nothing that is markup in reStructuredText or HTML. *)
Theorem C10_identifier_guard :
  forall t,
    (validate_identifier t = true <-> Forall (fun p => isidentifier p = true) (split_on 46 t)) /\
    (validate_identifier t = true -> forall c, In c t ->
       (c < 128 -> c = 46 \/ ident_ascii c = true) /\
       memN c line_breaks = false /\ memN c py_space = false /\ c <> 96).
Proof. intro t. split; [exact (validate_identifier_spec t) | exact (identifier_guard t)]. Qed.

Example C10_identifier_guard_examples :
  validate_identifier [97; 46; 98; 95; 49] = true /\ validate_identifier [97; 45; 98] = false /\
  validate_identifier [60; 98; 62] = false /\ validate_identifier [97; 46; 46; 98] = false /\
  validate_identifier [] = false /\ validate_identifier [97; 10] = false.
Proof. vm_compute. auto 6. Qed.

(* The reStructuredText that getDeprecated hands to the parser is a directive line plus ONE body line, for EVERY replacement
   argument (name and version hold no line separator: an identifier and Version.public()) ... *)
Theorem C10_deprecate_one_line :
  forall name package version repl t,
    deprecation_text name package version repl = Some t ->
    nbk name = true -> nbk version = true ->
    count_breaks (deprecation_doc version t) = 1%nat.
Proof. exact deprecate_one_line. Qed.

(* ... and a replacement that is not a dotted identifier sits inside ONE pair of back-quotes: between them there is no
   back-quote, no line separator, no white space other than single spaces, and none at either end -- whatever the
   decorator argument holds (after the repair 0e1361d: back-quotes replaced, ' '.join(x.split())). *)
Theorem C10_deprecate_literal :
  forall r, validate_identifier r = false ->
    exists body, clean_replacement r = [96] ++ body ++ [96] /\
      ~ In 96 body /\
      (forall c, In c body -> memN c line_breaks = false) /\
      (forall c, In c body -> is_py_space c = true -> c = 32) /\
      edge_ok body.
Proof. exact replacement_in_one_literal. Qed.

(* The clean-up before the repair (only LF replaced) violated both: a CR (likewise FS GS RS NEL LS PS) started a new line
   of reST, after which the argument was parsed as blocks -- a raw directive included; a leading space kept the back-quotes
   from opening a literal, so the text was parsed as inline reST (standalone javascript: hyperlinks). *)
Theorem C10_deprecate_one_line_old_refuted :
  match deprecation_text_old [102] [112] [49] (Some [13]) with
  | Some t => count_breaks (deprecation_doc [49] t) = 2%nat
  | None => False
  end /\
  clean_with old_ops [32; 106; 58; 120] = [96; 32; 106; 58; 120; 96] /\
  clean_replacement [32; 106; 58; 120] = [96; 106; 58; 120; 96].
Proof. split; [exact deprecate_old_cr | exact deprecate_old_edge]. Qed.

Example C10_deprecate_hypotheses_satisfiable :
  match deprecation_text [102] [112; 46; 113] [49; 46; 50] (Some (nasty ++ [13; 13; 96; 32])) with
  | Some t =>
    nbk [102] = true /\ nbk [49; 46; 50] = true /\ validate_identifier (nasty ++ [13; 13; 96; 32]) = false /\
    count_breaks (deprecation_doc [49; 46; 50] t) = 1%nat
  | None => False
  end.
Proof. vm_compute. auto. Qed.

(* ---- the tie to the source: Gen/ReparseCode.v holds the bodies of stanutils.html2stan and of
   extensions.deprecate.deprecatedToUsefulText (from the point where its inputs are known) translated from the CURRENT
   source into the language of Model/ReparseIR.v.  Interpreting that code is the hand-written model, for every input. *)
Theorem C10_code_html2stan_is_model :
  forall html, html2stan html <> H2Document ->
    run_html2stan code_html2stan html = res_of_h2s (html2stan html).
Proof. exact code_html2stan_is_model. Qed.

Theorem C10_code_deprecate_is_model :
  forall name package version replacement,
    run_deprecate code_deprecate name package version replacement
    = res_of_deprecation version (deprecation_text name package version replacement).
Proof. exact code_deprecate_is_model. Qed.

(* hence the property theorems hold of the translated code itself: the text returned for a free-text replacement holds
   it inside one literal, and the re-parse of encoded text is one text node *)
Theorem C10_code_html2stan_roundtrip :
  forall t, forallb reparse_ok t = true ->
    run_html2stan code_html2stan (encode t) = RReturn (VStan (STag [] [] (text_kids (neutralise (eol_norm t))))).
Proof.
  intros t H. rewrite code_html2stan_is_model; rewrite (html2stan_encode t H); [reflexivity | discriminate].
Qed.

Example C10_code_examples :
  run_html2stan code_html2stan [97; 60; 98] = RRaise ExSAXParse /\
  run_html2stan code_html2stan [97; 12; 38; 97; 109; 112; 59]
  = RReturn (VStan (STag [] [] [SText [97; 92; 120; 48; 99; 38]])) /\
  run_deprecate code_deprecate [102] [112; 45] [49] None = RRaise ExValueError /\
  run_deprecate code_deprecate [102] [112] [49] (Some [32; 96; 13; 120])
  = RReturn (VPair (VStr [49]) (VStr (map N.of_nat [96;96;102;96;96;32;119;97;115;32;100;101;112;114;101;99;97;116;101;100;32;105;110;32;112;32;49;59;32;112;108;101;97;115;101;32;117;115;101;32;96;96;39;32;120;96;96;32;105;110;115;116;101;97;100;46]%nat))).
Proof. repeat split; vm_compute; reflexivity. Qed.

(* non-vacuity: a tree holding script tags, a CDATA end, a comment end, entity look-alikes and quotes, in text and in
   an attribute, satisfies the hypothesis; its flattened form is read back as itself. *)
Definition w_tree : stan :=
  STag [100; 105; 118] [([99; 108; 97; 115; 115], nasty)]
       [SText nasty; STag [] [] [SText [60]]; STag [98; 114] [] []; SText nasty].
Example C10_hypotheses_satisfiable :
  wf w_tree = true /\
  read (flatten w_tree)
  = Some [XElem [100; 105; 118] [([99; 108; 97; 115; 115], nasty)]
                [XText (nasty ++ [60]); XElem [98; 114] [] []; XText nasty]].
Proof. split; vm_compute; reflexivity. Qed.
