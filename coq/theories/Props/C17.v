(* Props/C17.v -- C17: written inventories read back faithfully; malformed remote ones are survivable.
   Only statements closed by `exact`; proofs live in Proofs/InventoryProofs.v.
   Model: Model/Inventory.v (pydoctor/sphinx.py reader and writer, Documentable.url).  Contract: Spec/InventorySpec.v.
   Oracles are universally quantified: int_of (Python's int()), decompress / compress (zlib), decode_utf8.
   py_int is the executable model of CPython's int() that the extracted model runs with. *)
From Coq Require Import ZArith NArith List Bool.
From PydoctorVerif Require Import Base.Sexp Model.Inventory Spec.InventorySpec Proofs.InventoryProofs.
From PydoctorVerif Require Import Model.InventoryIR Gen.InventoryCode Proofs.InventoryIRProofs Proofs.InventoryInvProofs.
Import ListNotations.
Local Open Scope N_scope.

(* ------------------------------------------------------------------------------------------------ robustness *)

(* For every text line and every behaviour of int(), _parseInventoryLine returns or raises ValueError -- never
   IndexError (list indexing is modelled as an operation that can raise it) and the search never runs out of fuel. *)
Theorem C17_parse_total :
  forall (int_of : text -> option Z) (line : text),
    (exists c, parse_line int_of line = Ok c) \/ parse_line int_of line = Raise ValueError.
Proof. exact parse_line_total. Qed.

(* The pinned snapshot (before fix: 64d5e03) let IndexError out of _parseInventoryLine ... *)
Definition w_prio_last : text := [97; 32; 112; 121; 58; 99; 108; 97; 115; 115; 32; 49].      (* "a py:class 1" *)
Theorem C17_parse_total_old_refuted :
  exists line, parse_line_old py_int line = Raise IndexError.
Proof. exists w_prio_last. vm_compute. reflexivity. Qed.

(* ... and therefore out of update(): the run aborted (zlib and the codec taken as identities here). *)
Theorem C17_update_old_refuted :
  exists data, update (parse_line_old py_int) (fun b => Some b) (fun b => Some b) [] [104; 47; 111] (Some data)
               = Raise IndexError.
Proof. exists w_prio_last. vm_compute. reflexivity. Qed.

Example C17_prio_last_now_reported :
  update (parse_line py_int) (fun b => Some b) (fun b => Some b) [] [104; 47; 111] (Some w_prio_last)
  = Ok ([], [RLine w_prio_last [104]]).
Proof. vm_compute. reflexivity. Qed.

(* What a successful parse means, independently of the loop: the declarative column grammar of Spec/InventorySpec.v
   (fields separated by single spaces; the first field from the third on that int() accepts is the priority). *)
Theorem C17_parse_line_meaning :
  forall (int_of : text -> option Z) (line : text) (c : columns),
    parse_line int_of line = Ok c <-> pd_line int_of line c.
Proof. exact parse_line_meaning. Qed.

(* For every byte string, URL, previous map, and every behaviour of int(), zlib and the utf-8 codec: update returns. *)
Theorem C17_update_total :
  forall (int_of : text -> option Z) (decompress : list N -> option (list N)) (decode_utf8 : list N -> option text)
         (links : dict) (url : text) (data : option (list N)),
    exists links' reps, update (parse_line int_of) decompress decode_utf8 links url data = Ok (links', reps).
Proof. exact update_total_any. Qed.

(* The loop over all configured inventories (System.fetchIntersphinxInventories) returns as well. *)
Theorem C17_fetch_all_total :
  forall (int_of : text -> option Z) (decompress : list N -> option (list N)) (decode_utf8 : list N -> option text)
         (fetches : list (text * option (list N))) (links : dict) (reps : list report),
    exists links' reps',
      update_all (update (parse_line int_of) decompress decode_utf8) links reps fetches = Ok (links', reps').
Proof. exact update_all_total. Qed.

(* For every payload: _parseInventory returns; every bad line yields exactly one report (in order, naming the line) and
   nothing else is reported; every usable Python line that is not overridden by a later one of the same name is in the
   map with its location -- whatever bad lines stand before or after it; and the map holds nothing else. *)
Theorem C17_bad_parts_skipped :
  forall (int_of : text -> option Z) (base payload : text),
    let pl := parse_line int_of in
    let lines := splitlines payload in
    exists links,
      parse_inventory pl base payload = Ok (links, flat_map (line_reports pl base) lines) /\
      (forall pre l post c,
          lines = pre ++ l :: post -> pl l = Ok c -> is_py c = true ->
          (forall l' c', In l' post -> pl l' = Ok c' -> is_py c' = true -> c_name c' <> c_name c) ->
          lookup (c_name c) links = Some (base, c_loc c)) /\
      (forall n v, lookup n links = Some v ->
                   exists l c, In l lines /\ pl l = Ok c /\ is_py c = true /\ c_name c = n /\ v = (base, c_loc c)).
Proof. exact bad_parts_skipped_payload. Qed.

(* one report per bad line, spelled out: a line is reported iff it does not parse *)
Example C17_bad_line_between_good_ones :
  let good1 := [97; 32; 112; 121; 58; 99; 32; 49; 32; 120; 32; 45] in            (* "a py:c 1 x -" *)
  let good2 := [98; 32; 112; 121; 58; 99; 32; 49; 32; 121; 36; 32; 45] in        (* "b py:c 1 y$ -" *)
  parse_inventory (parse_line py_int) [104] (good1 ++ [10] ++ w_prio_last ++ [10] ++ good2 ++ [10])
  = Ok ([([97], ([104], [120])); ([98], ([104], [121; 36]))], [RLine w_prio_last [104]]).
Proof. vm_compute. reflexivity. Qed.

(* Stage failures: no '/' in the URL, no data, wrong compression, undecodable text -- one report each, map unchanged.
   `stripped d p` (Spec) says p is d without its leading comment lines. *)
Theorem C17_payload_stages :
  forall (int_of : text -> option Z) (decompress : list N -> option (list N)) (decode_utf8 : list N -> option text)
         (links : dict),
    let upd := update (parse_line int_of) decompress decode_utf8 links in
    (forall url data, ~ In 47 url -> upd url data = Ok (links, [RNoBase url])) /\
    (forall url data, In 47 url -> data = None \/ data = Some [] -> upd url data = Ok (links, [RNoData url])) /\
    (forall base rest d p, ~ In 47 rest -> d <> [] -> stripped d p -> decompress p = None ->
                           upd (base ++ 47 :: rest) (Some d) = Ok (links, [RUncompress base])) /\
    (forall base rest d p raw, ~ In 47 rest -> d <> [] -> stripped d p -> decompress p = Some raw ->
                               decode_utf8 raw = None ->
                               upd (base ++ 47 :: rest) (Some d) = Ok (links, [RDecode base])).
Proof. exact payload_stages. Qed.

(* the comment stripping loop terminates within its fuel and leaves what the specification says *)
Theorem C17_comment_stripping :
  forall data, exists p, strip_comments (strip_fuel data) data = Ok p /\ stripped data p.
Proof. exact comment_stripping. Qed.

(* getLink: a location ending in '$' expands to the looked-up name; other locations are used as they are;
   an unknown name or an empty location gives no link. *)
Theorem C17_getlink_dollar :
  forall (links : dict) (name base : text),
    (forall loc, lookup name links = Some (base, loc ++ [36]) ->
                 get_link links name = Some (base ++ [47] ++ loc ++ name)) /\
    (forall rel, lookup name links = Some (base, rel) -> rel <> [] -> ends_with_char 36 rel = false ->
                 get_link links name = Some (base ++ [47] ++ rel)) /\
    (lookup name links = None \/ lookup name links = Some (base, []) -> get_link links name = None).
Proof. exact getlink_all. Qed.

(* ------------------------------------------------------------------------------------------------ tie to the source *)
(* Gen/InventoryCode.v is written on every run by harness/gen/gen_c17_code.py from the CURRENT pydoctor/sphinx.py: the
   bodies of _parseInventoryLine and SphinxInventory.getLink, statement by statement, in the language of
   Model/InventoryIR.v.  Interpreting THAT code gives, for every line and every behaviour of int() (resp. every map and
   name), exactly the result of the hand model the theorems of this file are about. *)
Theorem C17_code_parse_line_is_model :
  forall (int_of : text -> option Z) (line : text),
    parse_line_ir code_parse_line int_of line = result_of_columns (parse_line int_of line).
Proof. exact parse_line_ir_eq. Qed.

Theorem C17_code_get_link_is_model :
  forall (links : dict) (name : text),
    get_link_ir code_get_link links name = result_of_link (get_link links name).
Proof. exact get_link_ir_eq. Qed.

(* the body of SphinxInventory._parseInventory (the loop over payload.splitlines(), try / except ValueError around
   _parseInventoryLine, self.error + continue, the 'py:' filter, the dict store), translated statement by statement into the
   second layer of Model/InventoryIR.v: interpreting THAT code gives, for every base url, every payload (every list of
   lines) and every behaviour of int(), the dict and the list of reports, in order, of the hand model *)
Theorem C17_code_parse_inventory_is_model :
  forall (int_of : text -> option Z) (base payload : text),
    parse_inventory_ir code_parse_inventory int_of base payload
    = result_of_inventory (parse_inventory (parse_line int_of) base payload).
Proof. exact code_parse_inventory_is_model. Qed.

Theorem C17_code_parse_inventory_returns :
  forall (int_of : text -> option Z) (base payload : text),
    exists d reps, parse_inventory_ir code_parse_inventory int_of base payload = (RReturn (VDict d), reps).
Proof. exact code_parse_inventory_returns. Qed.

(* hence C17_parse_total stated on the translated code: never IndexError, never stuck, never out of fuel *)
Theorem C17_code_parse_total :
  forall (int_of : text -> option Z) (line : text),
    (exists v, parse_line_ir code_parse_line int_of line = RReturn v) \/
    parse_line_ir code_parse_line int_of line = RRaise ValueError.
Proof. exact code_parse_total. Qed.

Theorem C17_code_get_link_returns :
  forall (links : dict) (name : text),
    get_link_ir code_get_link links name = RReturn VNone \/
    exists u, get_link_ir code_get_link links name = RReturn (VStr u).
Proof. exact code_get_link_returns. Qed.

(* ------------------------------------------------------------------------------------------------ round trip *)

(* A written line parses back to its columns -- for every name whose space separated pieces from index 2 on are not
   accepted by int() (dotted identifiers, `foo 0` duplicates, `a b.c`), every type py:<kind> and every URL without spaces. *)
Theorem C17_line_roundtrip :
  forall (name kind url : text),
    int_guard py_int name -> ~ In SP kind -> ~ In SP url ->
    parse_line py_int (line_body name (py_prefix ++ kind) url)
    = Ok (Cols name (py_prefix ++ kind) (-1) url dash).
Proof. exact line_roundtrip_py. Qed.

(* the same for every behaviour of int() that accepts "-1" as -1 and rejects the type *)
Theorem C17_line_roundtrip_any_int :
  forall (int_of : text -> option Z) (name typ url : text),
    int_of minus_one = Some (-1)%Z -> ~ In SP typ -> ~ In SP url -> int_of typ = None ->
    int_guard int_of name ->
    parse_line int_of (line_body name typ url) = Ok (Cols name typ (-1) url dash).
Proof. exact line_roundtrip. Qed.

(* Without the guard the statement is false of the faithful model (and of pydoctor): module file `a 1 2.py`. *)
Definition w_name : text := [97; 32; 49; 32; 50].                                               (* "a 1 2" *)
Definition w_url : text := [97; 37; 50; 48; 49; 37; 50; 48; 50; 46; 104; 116; 109; 108].        (* "a%201%202.html" *)
Definition w_module : text := [109; 111; 100; 117; 108; 101].                                   (* "module" *)
Theorem C17_roundtrip_space_digit_refuted :
  exists name kind url,
    ~ In SP kind /\ ~ In SP url /\
    parse_line py_int (line_body name (py_prefix ++ kind) url) <> Ok (Cols name (py_prefix ++ kind) (-1) url dash).
Proof.
  exists w_name, w_module, w_url. split; [|split].
  - apply notin_by_compute. reflexivity.
  - apply notin_by_compute. reflexivity.
  - vm_compute. discriminate.
Qed.

(* what the reader makes of that line: name "a", type "1" -- not a Python type, so the entry is silently dropped *)
Example C17_space_digit_read_as :
  parse_line py_int (line_body w_name (py_prefix ++ w_module) w_url)
  = Ok (Cols [97] [49] 2 (py_prefix ++ w_module) (minus_one ++ sp ++ w_url ++ sp ++ dash)).
Proof. vm_compute. reflexivity. Qed.

(* The second guard of the whole-inventory theorem (`no_break` in `name_ok`) is needed as well: a qualified name that
   holds a str.splitlines() boundary -- only a module FILE name can, e.g. "a\x0cb.py" -- is cut into two lines. Names
   that are Python identifiers joined by dots never do. *)
Theorem C17_roundtrip_linebreak_name_refuted :
  exists name url,
    int_guard py_int name /\ ~ In SP url /\
    parse_inventory (parse_line py_int) [104] (line_body name (py_prefix ++ w_module) url ++ [10])
    <> Ok ([(name, ([104], url))], []).
Proof.
  exists [97; 12; 98], w_url. split; [|split].
  - intros j q Hj Hq. vm_compute in Hq. destruct j as [|[|j]]; [inversion Hj|inversion Hj as [|? H1]; inversion H1|discriminate].
  - apply notin_by_compute. reflexivity.
  - vm_compute. discriminate.
Qed.

(* the guard is met by the names pydoctor produces for duplicates *)
Example C17_guard_satisfiable :
  int_guard py_int [109; 111; 100; 46; 100; 117; 112; 32; 48] /\                                (* "mod.dup 0" *)
  parse_line py_int (line_body [109; 111; 100; 46; 100; 117; 112; 32; 48] (py_prefix ++ domain_name 2) w_url)
  = Ok (Cols [109; 111; 100; 46; 100; 117; 112; 32; 48] (py_prefix ++ domain_name 2) (-1) w_url dash).
Proof.
  split; [|vm_compute; reflexivity].
  intros j q Hj. vm_compute split_on. destruct j as [|[|[|j]]]; try (exfalso; inversion Hj; fail); cbn; try discriminate.
  inversion Hj as [|? H1]; inversion H1.
Qed.

(* A written line is a line of Sphinx's version 2 grammar with the intended groups (existence of the match). *)
Theorem C17_written_line_in_sphinx_grammar :
  forall (name typ url : text),
    name <> [] -> typ <> [] -> non_space typ -> non_space url ->
    v2_line (line_body name typ url) (Cols name typ (-1) url dash).
Proof. exact written_line_v2. Qed.

(* Reading back what generate() wrote: no report, and the map is exactly the list of entries of the listed objects --
   one per visible object reachable through `contents` from the subjects, in document order, each mapped to its url --
   provided the project name and version hold no newline, every listed qualified name is free of line boundaries and
   passes the guard of C17_line_roundtrip, and qualified names are pairwise distinct (C02).
   zlib and the codec are arbitrary functions satisfying `codec_contract` on the written content. *)
Theorem C17_inventory_roundtrip :
  forall (compress : list N -> list N) (decompress : list N -> option (list N)) (decode_utf8 : list N -> option text)
         (project version : text) (roots : list text) (subjects : list obj) (base : text),
    codec_contract compress decompress decode_utf8 roots subjects ->
    ~ In 10 project -> ~ In 10 version ->
    (forall e, In e (entries roots subjects) -> name_ok (e_name e)) ->
    NoDup (map e_name (entries roots subjects)) ->
    update (parse_line py_int) decompress decode_utf8 [] (base ++ 47 :: objects_inv)
           (Some (generate compress project version roots subjects))
    = Ok (map (link_of base) (entries roots subjects), []).
Proof. exact inventory_roundtrip. Qed.

(* `entries` lists exactly the objects the specification calls listed, each with its name, kind and url *)
Theorem C17_entries_are_the_visible_objects :
  forall (roots : list text) (subjects : list obj) (e : entry),
    In e (entries roots subjects) <-> exists pf o, listed subjects pf o /\ e = entry_of roots pf o.
Proof. exact entries_listed. Qed.

(* and every entry read back resolves through getLink to base/url *)
Theorem C17_roundtrip_getlink :
  forall (roots : list text) (subjects : list obj) (base : text) (e : entry),
    NoDup (map e_name (entries roots subjects)) -> In e (entries roots subjects) ->
    get_link (map (link_of base) (entries roots subjects)) (e_name e) = Some (base ++ [47] ++ e_url e).
Proof. exact roundtrip_get_link. Qed.

(* Through the docstring linker (linker.look_for_intersphinx), from every object of every documented system -- whatever
   its root names, in particular when they share the top-level package of the entry (namespace packages, a project
   split over several runs): every entry of a loaded written inventory resolves to its page and anchor, and in general
   the linker answers exactly what getLink answers. *)
Theorem C17_linker_resolves_entries :
  forall (roots : list text) (subjects : list obj) (base : text) (e : entry) (root_names : list text) (obj_full : text),
    NoDup (map e_name (entries roots subjects)) -> In e (entries roots subjects) ->
    look_for_intersphinx (map (link_of base) (entries roots subjects)) root_names obj_full (e_name e)
    = Some (base ++ [47] ++ e_url e).
Proof. exact linker_resolves_entries. Qed.

Theorem C17_linker_is_getlink :
  forall (links : dict) (root_names : list text) (obj_full name : text),
    look_for_intersphinx links root_names obj_full name = get_link links name.
Proof. exact linker_is_getlink. Qed.

(* A subject that is not visible -- hidden itself or, for an --html-subject below the roots, below a hidden ancestor
   (the `hidden` flag of a subject is `not isVisible`) -- contributes no line and no entry, whatever it contains. *)
Theorem C17_invisible_subject_lists_nothing :
  forall (roots : list text) (n : text) (t : N) (cs rest : list obj),
    gen_lines roots (Obj n t true cs :: rest) = gen_lines roots rest /\
    entries roots (Obj n t true cs :: rest) = entries roots rest.
Proof. exact invisible_subject_lists_nothing. Qed.

(* driver.make: whenever HTML is written the inventory is written as well, for exactly the subjects whose pages are
   written (the --html-subject objects, none under --html-summary-pages, else the roots); without HTML an inventory
   covers the root objects. *)
Theorem C17_make_subjects :
  forall (S : Type) (o : make_options S) (roots : list S),
    (o_makehtml o = true ->
       exists subjects, make_subjects o roots = (Some subjects, Some subjects) /\
         subjects = match o_htmlsubjects o with
                    | _ :: _ => o_htmlsubjects o
                    | [] => if o_summarypages o then [] else roots
                    end) /\
    (o_makehtml o = false -> o_makeintersphinx o = true -> make_subjects o roots = (None, Some roots)) /\
    (o_makehtml o = false -> o_makeintersphinx o = false -> make_subjects o roots = (None, None)).
Proof. exact @make_subjects_agree. Qed.

(* only the summary pages: no object page is written and the inventory is empty *)
Example C17_summary_pages_only_lists_nothing :
  make_subjects (MkOpts true false [] true) [1; 2; 3] = (Some [], Some []) /\
  gen_lines [] [] = [].
Proof. split; reflexivity. Qed.

(* non-vacuity: a project m { f(), class _h (hidden) { x } , class K { g() } } meets every hypothesis
   (compress = prefix one byte 'x', decompress = drop it, ASCII codec = identity) and reads back as 4 entries *)
Definition w_subjects : list obj :=
  [Obj [109] 0 false [Obj [102] 2 false []; Obj [95; 104] 1 true [Obj [120] 4 false []];
                      Obj [75] 1 false [Obj [103] 3 false []]]].
Definition w_compress (b : list N) : list N := 120 :: b.
Definition w_decompress (b : list N) : option (list N) := match b with 120 :: r => Some r | _ => None end.
Example C17_roundtrip_hypotheses_satisfiable :
  codec_contract w_compress w_decompress (fun b => Some b) [[109]] w_subjects /\
  (forall e, In e (entries [[109]] w_subjects) -> name_ok (e_name e)) /\
  NoDup (map e_name (entries [[109]] w_subjects)) /\
  map e_name (entries [[109]] w_subjects) = [[109]; [109; 46; 102]; [109; 46; 75]; [109; 46; 75; 46; 103]] /\
  map e_url (entries [[109]] w_subjects)
  = [index_html; index_html ++ [35; 102]; [109; 46; 75] ++ html; [109; 46; 75] ++ html ++ [35; 103]].
Proof.
  split; [|split; [|split; [|split]]].
  - split; [|split]; vm_compute; reflexivity.
  - intros e He. vm_compute in He.
    assert (Hg : forall t, length (split_on SP t) = 1%nat -> int_guard py_int t).
    { intros t Ht j q Hj Hq. assert (j < length (split_on SP t))%nat by (apply nth_error_Some; congruence).
      rewrite Ht in H. exfalso. inversion Hj as [|? H1]; subst; inversion H; subst; inversion H1; subst; inversion H2. }
    destruct He as [<-|[<-|[<-|[<-|[]]]]]; (split; [apply no_break_by_compute; reflexivity|apply Hg; reflexivity]).
  - vm_compute. repeat constructor; cbn; intuition discriminate.
  - vm_compute. reflexivity.
  - vm_compute. reflexivity.
Qed.
